#!/usr/bin/env python3
"""
py2lean_ckpt.py — translate the CHECKPOINT code of AgileRL into Lean 4: which parts of an agent's state are
written into the file for which kind of attribute, which keys the two load paths read back, in which order and under
which conditions, and how the wrapper's state is merged into / read from the file.

    python3 harness/py2lean_ckpt.py [--repo DIR] [--out FILE] [--stdout] [--force]

Reads the *source text* only (Python `ast`; agilerl / torch / dill are never imported) of

    agilerl/algorithms/core/base.py   get_checkpoint_dict, EvolvableAlgorithm.{inspect_attributes, save_checkpoint,
                                      load_checkpoint, load}
    agilerl/wrappers/agent.py         AgentWrapper.{save_checkpoint, load_checkpoint}
    agilerl/utils/algo_utils.py       only the SIGNATURES of the helpers the code above calls (get_detached_tensors,
                                      load_detached_tensors, remove_compile_prefix, chkpt_attribute_to_device): their
                                      bodies (vars() / named_modules() / tensor copies) are NOT translated — their
                                      contracts are assumptions (below)

and writes lean/Gen/CkptGen.lean (namespace CkptGen, core Lean only, imports nothing).  Proofs/CkptGenEq.lean proves the
generated tables equal to the explicit tables of the hand-written model (Model/HeapCkpt.lean, section "the checkpoint
table"), Props/C07.lean restates the C07 theorems with the generated table (`C07_source_translation_*`).

The code is dynamic (getattr / setattr by computed names, dict merging, dill): what is translated is its CONTROL
STRUCTURE AND KEY SETS, by symbolic execution over abstract values; numerics, tensors and pickling are cut.

Shape of the output (after a fixed prelude that states the assumed Python / AgileRL semantics and contains a small
evaluator — the prelude does not depend on the source):

  (S1) `save_entries (obj : ObjCls) : Except Exn (List Entry)` — the body of the loop
       `for attr in agent.evolvable_attributes()` of get_checkpoint_dict as a DECISION TREE over the class tests in
       source order (`isinstance(obj, C)` → `obj.isinstance ["C"]`, `is_module_list(obj)` → `obj.isModuleList`,
       `or / and / not`); a leaf lists, in source order, every entry written by `network_info[<dict>].update({…})` /
       `network_info[<dict>][f"{attr}<suffix>"] = e` as ⟨dict, suffix, value expression⟩; `raise C(…)` → `.error`.
       Value expressions (`Src`) mirror the AST: `obj`, `.attr`, `.call` (no arguments), `.fn` (one-argument helper),
       `.ite` (`a if isinstance(x, C) else b`), `.each` (`[e for m in <alias of obj>]`).  Locals are substituted.
  (S2) `save_names` — the name lists `network_info[k] = [name for name in agent.evolvable_attributes(networks_only=b)
       if isinstance(getattr(agent, name), C)]` as ⟨k, ⟨b, classes⟩⟩.
  (S3) `save_top` / `wrapper_save_top : List DictOp` — the operations on the dict that is returned / saved, in source
       order: `d = f(x)` / `d.update(v)` / `{**a, **b}` (`.bulk`), `d[k] = v` (`.set`), `d.pop(k[, None])` (`.pop`),
       `if d.pop(k, None) is not None: d[k'] = v` (`.setIfPoppedNotNone`), `d[k].pop(k')` (`.popIn`).  Values: calls of
       `EvolvableAlgorithm.inspect_attributes(x[, input_args_only=True])`, `get_checkpoint_dict(x)`, `x.__class__`,
       `x.a.state_dict()`, the local `network_info`, any other call by name (`.opaque`).  DICT-MERGE ORDER = list order.
  (S4) `inspect_keep (input_args_only : Bool) (a : Attr) : Bool` — inspect_attributes as a filter predicate over one
       member: `inspect.getmembers(agent, lambda a: not isroutine(a))`, list / dict comprehensions that filter
       (`startswith("_")`, `endswith("_")`, `isinstance(val, TensorDict)`, `k not in exclude`, `k in
       constructor_params`), `exclude = list(agent.evolvable_attributes().keys())`, `exclude += [...]`, the `if
       input_args_only:` branch.
  (S5) `save_checkpoint_value`, `save_checkpoint_pickle` — what `EvolvableAlgorithm.save_checkpoint` hands to
       `torch.save` and the pickle module.
  (L)  `load_checkpoint_steps`, `load_steps`, `wrapper_load_checkpoint_steps : List Step` — the load paths as GUARDED
       STEPS in execution order.  A step = ⟨loop number (0: outside the loops over attributes), the loop's domain, inside a
       `zip` over per-module lists?, path condition (the tests of the enclosing `if`s and of earlier `continue` / `raise`
       of the block, in order), act⟩.  Acts: `torch.load` (`.read`), constructor calls `cls(**kwargs)` with the keys set
       before (`.construct`), `OptimizerWrapper(…)` with its arguments (`.newOpt`), `cls(**{… if k in
       constructor_params})` (`.newAgent`), `wrapper_cls(self, **d)` (`.newWrapper`), `self.agent.load_checkpoint(path)`
       (`.agentLoad`), `setattr(self, k, v)` / `self.k = v`, stores into local dicts, `x.method(v)` on a constructed
       object (`.call`), `load_detached_tensors(m, d)` / `warnings.warn` / `torch.set_float32_matmul_precision`
       (`.fn`), `self.mutation_hook()` (`.hook`), `self.wrap_models()` / `self.recompile()` (`.selfCall`),
       `checkpoint[k] = v`, `checkpoint.pop(k)`, `raise C(…)`.  Values (`V`) are resolved symbolically: locals are
       substituted, `getattr(self, name)` becomes what the same call assigned to that attribute before (an object
       number), reads of the file keep their key path (`f"{name}_cls"` → `.suffixed "_cls"`; the filter
       `{k: v for k, v in d.items() if k.startswith(name)}` is transparent for keys that start with `{name}`).
  (D)  derived definitions (fixed text): `tbl`, `ckptRule`, `restored_* / roundtrip_*` (the evaluator of the prelude
       applied to the generated steps and tables), `*_phases`, `wrapper_file`, `helper_signatures`.

Supported subset: exactly the statement / expression forms listed above plus plain assignments, annotated assignments,
docstrings, `if / elif / else`, `for` over the domains named in (L), `continue`, `return` as last statement, `a if c else
b`, `x is [not] None`, `a != b`, `k [not] in checkpoint`, `isinstance(x, list)`, truth tests of values, `not`, subscripts
by string / f-string / loop index / 0, `.get(k[, None])`, `.items()`, `.keys()`, `zip`, `enumerate(zip(…))`, list
comprehensions `[getattr(self, n) for n in names]` / `[<local dict>[n] for n in names]`.  Anything else raises
`Unsupported` naming the construct and line — never guessed.

Assumptions (also in the header of the generated file):
  * the prelude's reading of `init_dict`, `state_dict()`, `__class__`, `_orig_mod`, the `OptimizerWrapper` fields and
    constructor keywords, `evolvable_attributes(networks_only=True)` = the non-optimizer evolvable attributes;
  * helper contracts: `remove_compile_prefix` keeps what a state dict lists; `get_detached_tensors(m)` = copies of the
    tensors of `m` no state dict lists; `load_detached_tensors(m, d)` writes `d` back (nothing when `d` is falsy);
    `chkpt_attribute_to_device` and `getattr(torch.optim, name)` return their argument's value; `load_state_dict(x)`
    of a freshly built module / optimizer makes the weights / optimizer state equal to `x` (loading an empty `x` is a
    no-op, so a guard `if x:` around it is neutral); a constructor call leaves initial weights / empty optimizer state;
    `mutation_hook()` only installs the tensors no state dict lists, on the networks bound at that time;
  * `wrap_models`, `recompile`, `warnings.warn`, `torch.set_float32_matmul_precision` do not change the restored values
    (accelerator / torch.compile paths are outside the model);
  * a loop body behaves uniformly over the attributes of one class (it is executed once, symbolically);
  * `torch.save` / `torch.load` with dill serialise BY VALUE (no reference to a live object survives).

The header carries the sha256 of the three source files; `write_if_changed` compares everything *but* that line.
"""
from __future__ import annotations

import ast
import hashlib
import os
import sys
from pathlib import Path

HERE = Path(__file__).resolve().parent
DEFAULT_OUT = HERE.parent / "lean" / "Gen" / "CkptGen.lean"
REL_BASE = "agilerl/algorithms/core/base.py"
REL_WRAP = "agilerl/wrappers/agent.py"
REL_UTIL = "agilerl/utils/algo_utils.py"
REL_SOURCES = (REL_BASE, REL_WRAP, REL_UTIL)
REL_SOURCE = "agilerl/{algorithms/core/base.py,wrappers/agent.py,utils/algo_utils.py}"   # messages only
SHA_PREFIX = "-- sha256(source) = "
HELPERS = ("get_detached_tensors", "load_detached_tensors", "remove_compile_prefix", "chkpt_attribute_to_device")


class Unsupported(Exception):
    pass


def repo_dir(arg: str | None = None) -> Path:
    if arg:
        return Path(arg)
    return Path(os.environ.get("VERIF_REPO", "/repo"))


class Ctx:
    """file being translated (for messages)"""
    rel = REL_BASE


def fail(node, what: str):
    line = getattr(node, "lineno", "?")
    raise Unsupported(f"{Ctx.rel}:{line}: unsupported construct: {what}")


def dotted(node) -> str | None:
    """`a.b.c` as a string (None if not a plain dotted name)"""
    if isinstance(node, ast.Name):
        return node.id
    if isinstance(node, ast.Attribute):
        base = dotted(node.value)
        return None if base is None else base + "." + node.attr
    return None


def lstr(s: str) -> str:
    """Lean string literal"""
    out = s.replace("\\", "\\\\").replace('"', '\\"').replace("\n", "\\n")
    return f'"{out}"'


def llist(items) -> str:
    return "[" + ", ".join(items) + "]"


def lbool(b: bool) -> str:
    return "true" if b else "false"


def body_without_doc(fn: ast.FunctionDef) -> list:
    body = list(fn.body)
    if body and isinstance(body[0], ast.Expr) and isinstance(body[0].value, ast.Constant) and isinstance(body[0].value.value, str):
        body = body[1:]
    return body


def find_function(tree: ast.Module, name: str) -> ast.FunctionDef:
    hits = [n for n in tree.body if isinstance(n, ast.FunctionDef) and n.name == name]
    if len(hits) != 1:
        raise Unsupported(f"{Ctx.rel}: expected exactly one module-level def {name}, found {len(hits)}")
    return hits[0]


def find_method(tree: ast.Module, cls: str, name: str) -> ast.FunctionDef:
    classes = [n for n in tree.body if isinstance(n, ast.ClassDef) and n.name == cls]
    if len(classes) != 1:
        raise Unsupported(f"{Ctx.rel}: expected exactly one class {cls}, found {len(classes)}")
    hits = [n for n in classes[0].body if isinstance(n, ast.FunctionDef) and n.name == name]
    if len(hits) != 1:
        raise Unsupported(f"{Ctx.rel}: expected exactly one method {cls}.{name}, found {len(hits)}")
    return hits[0]


def params_of(fn: ast.FunctionDef) -> list[str]:
    a = fn.args
    if a.vararg or a.kwarg or a.kwonlyargs or a.posonlyargs:
        fail(fn, f"parameter list of {fn.name}")
    return [x.arg for x in a.args]


def decorators_of(fn: ast.FunctionDef) -> list[str]:
    return [dotted(d) or "?" for d in fn.decorator_list]


# ====================================================================================================================
# (S) the save side
# ====================================================================================================================
# ---- Src: value expressions over the attribute object ------------------------------------------------------------
def src_lean(s) -> str:
    k = s[0]
    if k == "obj":
        return ".obj"
    if k == "elem":
        return ".elem"
    if k == "attr":
        return f"(.attr {src_lean(s[1])} {lstr(s[2])})"
    if k == "call":
        return f"(.call {src_lean(s[1])} {lstr(s[2])})"
    if k == "fn":
        return f"(.fn {lstr(s[1])} {src_lean(s[2])})"
    if k == "ite":
        return f"(.ite {src_lean(s[1])} {llist(map(lstr, s[2]))} {src_lean(s[3])} {src_lean(s[4])})"
    if k == "each":
        return f"(.each {src_lean(s[1])})"
    raise Unsupported(f"{Ctx.rel}: internal: no Lean form for {s!r}")


def class_names(node) -> list[str]:
    """the class argument of isinstance: a name or a tuple of names (last component of dotted names)"""
    items = node.elts if isinstance(node, ast.Tuple) else [node]
    out = []
    for it in items:
        d = dotted(it)
        if d is None:
            fail(node, "class argument of isinstance")
        out.append(d.split(".")[-1])
    return out


def topval_lean(v) -> str:
    k = v[0]
    if k == "attrs":
        return f"(.attrs {lstr(v[1])} {lbool(v[2])})"
    if k == "ckptDict":
        return f"(.ckptDict {lstr(v[1])})"
    if k == "networkInfo":
        return ".networkInfo"
    if k == "classOf":
        return f"(.classOf {lstr(v[1])})"
    if k == "stateDictOf":
        return f"(.stateDictOf {lstr(v[1])} {lstr(v[2])})"
    if k == "opaque":
        return f"(.opaque {lstr(v[1])})"
    raise Unsupported(f"{Ctx.rel}: internal: no Lean form for {v!r}")


def dictop_lean(op) -> str:
    k = op[0]
    if k == "bulk":
        return f".bulk {topval_lean(op[1])}"
    if k == "set":
        return f".set {lstr(op[1])} {topval_lean(op[2])}"
    if k == "pop":
        return f".pop {lstr(op[1])}"
    if k == "setIfPoppedNotNone":
        return f".setIfPoppedNotNone {lstr(op[1])} {lstr(op[2])} {topval_lean(op[3])}"
    if k == "popIn":
        return f".popIn {lstr(op[1])} {lstr(op[2])}"
    raise Unsupported(f"{Ctx.rel}: internal: no Lean form for {op!r}")


class DictBuilder:
    """Symbolic execution of straight-line code that builds ONE dict which is finally returned / saved:
    get_checkpoint_dict (with its loop over the evolvable attributes) and AgentWrapper.save_checkpoint."""

    def __init__(self, fn: ast.FunctionDef, with_attr_loop: bool):
        self.fn = fn
        self.params = params_of(fn)
        self.env: dict = {}            # local -> symbolic value
        self.dicts: dict[int, list] = {}   # dict id -> ops
        self.nest: dict | None = None  # the nested `network_info` dict: {"var": name, "subs": [...]}
        self.names: list = []          # (key, networksOnly, classes)
        self.tree = None               # decision tree of the attribute loop
        self.with_attr_loop = with_attr_loop
        self.result = None             # ops of the returned / saved dict
        self.pickle = None

    # ---------------- values that may be stored in the dict
    def who(self, node) -> str:
        d = dotted(node)
        if d is None or d.split(".")[0] not in self.params:
            fail(node, "object expression (expected a parameter or an attribute path of one)")
        return d

    def topval(self, node):
        if isinstance(node, ast.Name):
            v = self.env.get(node.id)
            if v is not None and v[0] == "nest":
                return ("networkInfo",)
            if v is not None and v[0] == "topval":
                return v[1]
            fail(node, f"value `{node.id}` stored in the checkpoint dict")
        if isinstance(node, ast.Attribute) and node.attr == "__class__":
            return ("classOf", self.who(node.value))
        if isinstance(node, ast.Call):
            f = dotted(node.func)
            if f is not None and f.split(".")[-1] == "inspect_attributes":
                if len(node.args) != 1:
                    fail(node, "arguments of inspect_attributes")
                flag = False
                for kw in node.keywords:
                    if kw.arg == "input_args_only" and isinstance(kw.value, ast.Constant) and isinstance(kw.value.value, bool):
                        flag = kw.value.value
                    else:
                        fail(node, "keyword of inspect_attributes")
                return ("attrs", self.who(node.args[0]), flag)
            if f == "get_checkpoint_dict":
                if len(node.args) != 1 or node.keywords:
                    fail(node, "arguments of get_checkpoint_dict")
                return ("ckptDict", self.who(node.args[0]))
            if isinstance(node.func, ast.Attribute) and node.func.attr == "state_dict" and not node.args and not node.keywords:
                inner = node.func.value
                if isinstance(inner, ast.Attribute):
                    return ("stateDictOf", self.who(inner.value), inner.attr)
                fail(node, "state_dict() of this expression")
            if f is not None and f.split(".")[0] not in self.params and all(isinstance(a, ast.Constant) for a in node.args) \
                    and not node.keywords:
                return ("opaque", f)
        fail(node, "value stored in the checkpoint dict")

    def is_bulk(self, v) -> bool:
        return v[0] in ("attrs", "ckptDict")

    def dict_of(self, node):
        """id of the dict under construction a name refers to (None if it is not one)"""
        if isinstance(node, ast.Name):
            v = self.env.get(node.id)
            if v is not None and v[0] == "dict":
                return v[1]
        return None

    def new_dict(self, ops) -> tuple:
        i = len(self.dicts)
        self.dicts[i] = list(ops)
        return ("dict", i)

    def ops_of_display(self, node: ast.Dict) -> list:
        """`{**a, "k": v, **b}` → operations in display order"""
        ops: list = []
        keys_so_far: set | None = set()       # literal keys the display may hold so far (None: unknown / any)
        for k, v in zip(node.keys, node.values):
            if k is None:
                did = self.dict_of(v)
                if did is not None:
                    sub = self.dicts[did]
                    pops = {o[1] for o in sub if o[0] in ("pop", "setIfPoppedNotNone")} | {o[1] for o in sub if o[0] == "popIn"}
                    if pops and (keys_so_far is None or pops & keys_so_far):
                        fail(node, "`**d` of a dict with popped keys after entries that may hold those keys")
                    ops += sub
                    if any(o[0] == "bulk" for o in sub):
                        keys_so_far = None
                    elif keys_so_far is not None:
                        keys_so_far |= {o[1] for o in sub if o[0] == "set"}
                else:
                    tv = self.topval(v)
                    if not self.is_bulk(tv):
                        fail(v, "`**` of a value that is not a dict")
                    ops.append(("bulk", tv))
                    keys_so_far = None
            else:
                if not (isinstance(k, ast.Constant) and isinstance(k.value, str)):
                    fail(k, "dict key (expected a string literal)")
                ops.append(("set", k.value, self.topval(v)))
                if keys_so_far is not None:
                    keys_so_far.add(k.value)
        return ops

    # ---------------- statements outside the attribute loop
    def run(self):
        body = body_without_doc(self.fn)
        for st in body:
            self.stmt(st)
        if self.result is None:
            fail(self.fn, f"{self.fn.name}: no dict is returned / saved")
        return self

    def str_const(self, node) -> str:
        if isinstance(node, ast.Constant) and isinstance(node.value, str):
            return node.value
        fail(node, "key (expected a string literal)")

    def pop_call(self, node):
        """`d.pop("k"[, None])` → (dict id, key) or None"""
        if isinstance(node, ast.Call) and isinstance(node.func, ast.Attribute) and node.func.attr == "pop" and not node.keywords:
            did = self.dict_of(node.func.value)
            if did is not None and 1 <= len(node.args) <= 2:
                if len(node.args) == 2 and not (isinstance(node.args[1], ast.Constant) and node.args[1].value is None):
                    fail(node, "default of pop (expected None)")
                return did, self.str_const(node.args[0])
        return None

    def stmt(self, st):
        if self.result is not None:
            fail(st, "statement after the dict was returned / saved")
        if isinstance(st, ast.AnnAssign) and st.value is not None and isinstance(st.target, ast.Name):
            return self.assign(st.target, st.value, st)
        if isinstance(st, ast.Assign) and len(st.targets) == 1:
            return self.assign(st.targets[0], st.value, st)
        if isinstance(st, ast.For):
            return self.attr_loop(st)
        if isinstance(st, ast.Return):
            did = self.dict_of(st.value) if st.value is not None else None
            if did is None:
                fail(st, "return value (expected the dict under construction)")
            self.result = self.dicts[did]
            return
        if isinstance(st, ast.If):
            # `if d.pop(k, None) is not None: d[k'] = v`
            t = st.test
            if isinstance(t, ast.Compare) and len(t.ops) == 1 and isinstance(t.ops[0], ast.IsNot) and \
                    isinstance(t.comparators[0], ast.Constant) and t.comparators[0].value is None and not st.orelse:
                pc = self.pop_call(t.left)
                if pc is not None and len(st.body) == 1 and isinstance(st.body[0], ast.Assign) and len(st.body[0].targets) == 1:
                    tg = st.body[0].targets[0]
                    if isinstance(tg, ast.Subscript) and self.dict_of(tg.value) == pc[0]:
                        self.dicts[pc[0]].append(("setIfPoppedNotNone", pc[1], self.str_const(tg.slice), self.topval(st.body[0].value)))
                        return
            fail(st, "if statement (supported: `if d.pop(k, None) is not None: d[k2] = v`)")
        if isinstance(st, ast.Expr) and isinstance(st.value, ast.Call):
            c = st.value
            pc = self.pop_call(c)
            if pc is not None:
                self.dicts[pc[0]].append(("pop", pc[1]))
                return
            if isinstance(c.func, ast.Attribute) and c.func.attr == "pop" and isinstance(c.func.value, ast.Subscript) and \
                    len(c.args) == 1 and not c.keywords:
                did = self.dict_of(c.func.value.value)
                if did is not None:
                    self.dicts[did].append(("popIn", self.str_const(c.func.value.slice), self.str_const(c.args[0])))
                    return
            if isinstance(c.func, ast.Attribute) and c.func.attr == "update" and len(c.args) == 1 and not c.keywords:
                did = self.dict_of(c.func.value)
                if did is not None:
                    a = c.args[0]
                    if isinstance(a, ast.Dict):
                        self.dicts[did] += self.ops_of_display(a)
                    elif self.dict_of(a) is not None:
                        self.dicts[did] += self.ops_of_display(ast.Dict(keys=[None], values=[a]))
                    else:
                        tv = self.topval(a)
                        if not self.is_bulk(tv):
                            fail(a, "argument of update")
                        self.dicts[did].append(("bulk", tv))
                    return
            if dotted(c.func) == "torch.save":
                if len(c.args) != 2:
                    fail(c, "arguments of torch.save")
                did = self.dict_of(c.args[0])
                if did is not None:
                    self.result = self.dicts[did]
                else:
                    tv = self.topval(c.args[0])
                    if not self.is_bulk(tv):
                        fail(c, "object handed to torch.save")
                    self.result = [("bulk", tv)]
                pk = [kw for kw in c.keywords if kw.arg == "pickle_module"]
                if len(pk) != 1 or len(c.keywords) != 1 or dotted(pk[0].value) is None:
                    fail(c, "keywords of torch.save (expected pickle_module=<module>)")
                self.pickle = dotted(pk[0].value)
                return
        fail(st, f"statement {type(st).__name__}")

    def assign(self, target, value, st):
        if isinstance(target, ast.Name):
            # a dict under construction
            if isinstance(value, ast.Dict):
                if value.keys and all(isinstance(k, ast.Constant) and isinstance(k.value, str) for k in value.keys) and \
                        all(isinstance(v, ast.Dict) and not v.keys for v in value.values):
                    if self.nest is not None:
                        fail(st, "second nested dict")
                    self.nest = {"var": target.id, "subs": [k.value for k in value.keys]}
                    self.env[target.id] = ("nest",)
                    return
                self.env[target.id] = self.new_dict(self.ops_of_display(value))
                return
            sel = self.name_selection(value)
            if sel is not None:
                self.env[target.id] = ("namesel",) + sel
                return
            tv = self.topval(value)
            if self.is_bulk(tv):
                self.env[target.id] = self.new_dict([("bulk", tv)])
            else:
                self.env[target.id] = ("topval", tv)
            return
        if isinstance(target, ast.Subscript) and isinstance(target.value, ast.Name):
            v = self.env.get(target.value.id)
            key = self.str_const(target.slice)
            if v is not None and v[0] == "dict":
                self.dicts[v[1]].append(("set", key, self.topval(value)))
                return
            if v is not None and v[0] == "nest":
                if isinstance(value, ast.Name) and self.env.get(value.id, ("?",))[0] == "namesel":
                    sel = self.env[value.id]
                else:
                    s = self.name_selection(value)
                    if s is None:
                        fail(st, "value stored in the nested dict (expected a list of attribute names)")
                    sel = ("namesel",) + s
                self.names.append((key, sel[1], sel[2]))
                return
        fail(st, "assignment target")

    def name_selection(self, node):
        """`[name for name in agent.evolvable_attributes([networks_only=b]) [if isinstance(getattr(agent, name), C)]]`"""
        if not (isinstance(node, ast.ListComp) and len(node.generators) == 1):
            return None
        g = node.generators[0]
        it = g.iter
        if not (isinstance(it, ast.Call) and isinstance(it.func, ast.Attribute) and it.func.attr == "evolvable_attributes"
                and isinstance(it.func.value, ast.Name) and it.func.value.id in self.params and not it.args):
            return None
        if not (isinstance(g.target, ast.Name) and isinstance(node.elt, ast.Name) and node.elt.id == g.target.id) or g.is_async:
            fail(node, "comprehension over evolvable_attributes (expected `[name for name in …]`)")
        nets = False
        for kw in it.keywords:
            if kw.arg == "networks_only" and isinstance(kw.value, ast.Constant) and isinstance(kw.value.value, bool):
                nets = kw.value.value
            else:
                fail(node, "keyword of evolvable_attributes")
        classes = None
        if len(g.ifs) > 1:
            fail(node, "more than one filter in the comprehension")
        if g.ifs:
            t = g.ifs[0]
            ok = isinstance(t, ast.Call) and dotted(t.func) == "isinstance" and len(t.args) == 2
            if ok:
                a0 = t.args[0]
                ok = isinstance(a0, ast.Call) and dotted(a0.func) == "getattr" and len(a0.args) == 2 and \
                    isinstance(a0.args[0], ast.Name) and a0.args[0].id == it.func.value.id and \
                    isinstance(a0.args[1], ast.Name) and a0.args[1].id == g.target.id
            if not ok:
                fail(t, "filter of the comprehension (expected isinstance(getattr(agent, name), C))")
            classes = class_names(t.args[1])
        return nets, classes

    # ---------------- the loop over the evolvable attributes: a decision tree over class tests
    def attr_loop(self, st: ast.For):
        if not self.with_attr_loop or self.tree is not None:
            fail(st, "for loop")
        it = st.iter
        if not (isinstance(it, ast.Call) and isinstance(it.func, ast.Attribute) and it.func.attr == "evolvable_attributes"
                and isinstance(it.func.value, ast.Name) and it.func.value.id in self.params and not it.args and not it.keywords
                and isinstance(st.target, ast.Name) and not st.orelse):
            fail(st, "for loop (expected `for attr in agent.evolvable_attributes():`)")
        if self.nest is None:
            fail(st, "loop over the evolvable attributes before the nested dict exists")
        self.agent_var, self.attr_var = it.func.value.id, st.target.id
        self.tree = self.exec_tree(list(st.body), {}, [])

    def exec_tree(self, stmts: list, env: dict, entries: list):
        if not stmts:
            return ("leaf", list(entries))
        st, rest = stmts[0], stmts[1:]
        if isinstance(st, ast.If):
            c = self.class_test(st.test, env)
            return ("if", c, self.exec_tree(list(st.body) + rest, dict(env), list(entries)),
                    self.exec_tree(list(st.orelse) + rest, dict(env), list(entries)))
        if isinstance(st, ast.Raise):
            exc = st.exc
            name = dotted(exc.func) if isinstance(exc, ast.Call) else dotted(exc) if exc is not None else None
            if name is None:
                fail(st, "raise")
            return ("raise", name.split(".")[-1])
        if isinstance(st, ast.AnnAssign) and st.value is not None and isinstance(st.target, ast.Name):
            env = dict(env)
            env[st.target.id] = self.src(st.value, env)
            return self.exec_tree(rest, env, entries)
        if isinstance(st, ast.Assign) and len(st.targets) == 1:
            tg = st.targets[0]
            if isinstance(tg, ast.Name):
                env = dict(env)
                env[tg.id] = self.src(st.value, env)
                return self.exec_tree(rest, env, entries)
            sub = self.nest_sub(tg.value) if isinstance(tg, ast.Subscript) else None
            if sub is not None:
                return self.exec_tree(rest, env, entries + [(sub, self.suffix_key(tg.slice), self.src_value(st.value, env))])
            fail(st, "assignment target in the attribute loop")
        if isinstance(st, ast.Expr) and isinstance(st.value, ast.Call):
            c = st.value
            if isinstance(c.func, ast.Attribute) and c.func.attr == "update" and len(c.args) == 1 and not c.keywords and \
                    isinstance(c.args[0], ast.Dict):
                sub = self.nest_sub(c.func.value)
                if sub is not None:
                    new = []
                    for k, v in zip(c.args[0].keys, c.args[0].values):
                        if k is None:
                            fail(c, "`**` inside the entries of an attribute")
                        new.append((sub, self.suffix_key(k), self.src_value(v, env)))
                    return self.exec_tree(rest, env, entries + new)
        fail(st, f"statement {type(st).__name__} in the loop over the evolvable attributes")

    def nest_sub(self, node):
        """`network_info["modules"]` → "modules" """
        if isinstance(node, ast.Subscript) and isinstance(node.value, ast.Name) and self.env.get(node.value.id, ("?",))[0] == "nest":
            k = self.str_const(node.slice)
            if k not in self.nest["subs"]:
                fail(node, f"sub-dict {k!r} of the nested dict was not created")
            return k
        return None

    def suffix_key(self, node) -> str:
        """f"{attr}_cls" → "_cls" """
        if isinstance(node, ast.JoinedStr) and len(node.values) == 2:
            a, b = node.values
            if isinstance(a, ast.FormattedValue) and isinstance(a.value, ast.Name) and a.value.id == self.attr_var and \
                    a.conversion == -1 and a.format_spec is None and isinstance(b, ast.Constant) and isinstance(b.value, str):
                return b.value
        fail(node, "entry key (expected f\"{attr}<suffix>\")")

    def src_value(self, node, env):
        v = self.src(node, env)
        if v[0] in ("alias", "listof"):
            fail(node, "entry value")
        return v

    def src(self, node, env):
        if isinstance(node, ast.Name):
            if node.id in env:
                return env[node.id]
            fail(node, f"name `{node.id}` in the attribute loop")
        if isinstance(node, ast.Call):
            f = dotted(node.func)
            if f == "getattr" and len(node.args) == 2 and not node.keywords and isinstance(node.args[0], ast.Name) and \
                    node.args[0].id == self.agent_var and isinstance(node.args[1], ast.Name) and node.args[1].id == self.attr_var:
                return ("obj",)
            if isinstance(node.func, ast.Attribute) and not node.args and not node.keywords:
                return ("call", self.src_plain(node.func.value, env), node.func.attr)
            if isinstance(node.func, ast.Name) and len(node.args) == 1 and not node.keywords:
                return ("fn", node.func.id, self.src_plain(node.args[0], env))
            fail(node, "call in the attribute loop")
        if isinstance(node, ast.Attribute):
            return ("attr", self.src_plain(node.value, env), node.attr)
        if isinstance(node, ast.IfExp):
            t = node.test
            if isinstance(t, ast.Call) and dotted(t.func) == "isinstance" and len(t.args) == 2 and not t.keywords:
                return ("ite", self.src_plain(t.args[0], env), class_names(t.args[1]),
                        self.src_plain(node.body, env), self.src_plain(node.orelse, env))
            fail(node, "condition of a conditional expression (expected isinstance)")
        if isinstance(node, ast.List) and len(node.elts) == 1:
            return ("listof", self.src_plain(node.elts[0], env))
        if isinstance(node, ast.ListComp) and len(node.generators) == 1:
            g = node.generators[0]
            if g.ifs or g.is_async or not isinstance(g.target, ast.Name):
                fail(node, "comprehension in the attribute loop")
            it = self.src(g.iter, env)
            if it != ("obj",):
                fail(node, "comprehension over something else than the attribute object")
            env2 = dict(env)
            env2[g.target.id] = ("elem",)
            return ("each", self.src_plain(node.elt, env2))
        fail(node, f"expression {type(node).__name__} in the attribute loop")

    def src_plain(self, node, env):
        v = self.src(node, env)
        if v[0] == "listof":
            fail(node, "list display used as a value")
        return v

    def class_test(self, node, env) -> str:
        if isinstance(node, ast.BoolOp):
            op = " || " if isinstance(node.op, ast.Or) else " && "
            return "(" + op.join(self.class_test(v, env) for v in node.values) + ")"
        if isinstance(node, ast.UnaryOp) and isinstance(node.op, ast.Not):
            return "(!" + self.class_test(node.operand, env) + ")"
        if isinstance(node, ast.Call) and not node.keywords:
            f = dotted(node.func)
            if f == "isinstance" and len(node.args) == 2 and self.src(node.args[0], env) == ("obj",):
                return f"obj.isinstance {llist(map(lstr, class_names(node.args[1])))}"
            if f == "is_module_list" and len(node.args) == 1 and self.src(node.args[0], env) == ("obj",):
                return "obj.isModuleList"
        fail(node, "test in the attribute loop (expected isinstance(obj, C) / is_module_list(obj))")


def tree_lean(t, ind: str) -> list[str]:
    if t[0] == "leaf":
        if not t[1]:
            return [ind + ".ok []"]
        rows = [f"⟨{lstr(d)}, {lstr(s)}, {src_lean(v)}⟩" for d, s, v in t[1]]
        return [ind + ".ok [" + rows[0] + ("," if len(rows) > 1 else "]")] + \
               [ind + "     " + r + ("," if i < len(rows) - 2 else "]") for i, r in enumerate(rows[1:])]
    if t[0] == "raise":
        return [ind + f".error (.raised {lstr(t[1])})"]
    out = [ind + f"if {strip_parens(t[1])} then"] + tree_lean(t[2], ind + "  ")
    e = t[3]
    while e[0] == "if":
        out += [ind + f"else if {strip_parens(e[1])} then"] + tree_lean(e[2], ind + "  ")
        e = e[3]
    return out + [ind + "else"] + tree_lean(e, ind + "  ")


def strip_parens(s: str) -> str:
    return s[1:-1] if s.startswith("(") and s.endswith(")") and s.count("(") == 1 else s


# ---- (S4) inspect_attributes as a filter predicate over one member ---------------------------------------------------
class InspectFilter:
    """values: ("coll", pred) a collection of (name, value) members described by a predicate over the member `a`;
    ("keys", pred) a set of names; pred = Lean Bool expression over `a : Attr` and the Bool parameters"""

    def __init__(self, fn: ast.FunctionDef):
        self.fn = fn
        self.params = params_of(fn)
        if len(self.params) != 2:
            fail(fn, "parameters of inspect_attributes (expected (agent, input_args_only))")
        self.agent, self.flag = self.params

    def run(self) -> str:
        return self.exec(body_without_doc(self.fn), {})

    def exec(self, stmts, env) -> str:
        if not stmts:
            fail(self.fn, "inspect_attributes does not return")
        st, rest = stmts[0], stmts[1:]
        if isinstance(st, ast.Return):
            v = self.value(st.value, env)
            if v[0] != "coll":
                fail(st, "return value (expected the filtered members)")
            return v[1]
        if isinstance(st, ast.If):
            if not (isinstance(st.test, ast.Name) and st.test.id == self.flag):
                fail(st, "if (expected a test of the Bool parameter)")
            return f"if {self.flag} then ({self.exec(list(st.body) + rest, dict(env))}) else ({self.exec(list(st.orelse) + rest, dict(env))})"
        if isinstance(st, ast.Assign) and len(st.targets) == 1 and isinstance(st.targets[0], ast.Name):
            env = dict(env)
            env[st.targets[0].id] = self.value(st.value, env)
            return self.exec(rest, env)
        if isinstance(st, ast.AugAssign) and isinstance(st.op, ast.Add) and isinstance(st.target, ast.Name):
            old = env.get(st.target.id)
            new = self.value(st.value, env)
            if old is None or old[0] != "keys" or new[0] != "keys":
                fail(st, "+= (expected name lists)")
            env = dict(env)
            env[st.target.id] = ("keys", f"({old[1]} || {new[1]})")
            return self.exec(rest, env)
        fail(st, f"statement {type(st).__name__} in inspect_attributes")

    def value(self, node, env):
        if isinstance(node, ast.Name):
            if node.id in env:
                return env[node.id]
            fail(node, f"name `{node.id}`")
        if isinstance(node, ast.Call):
            f = dotted(node.func)
            if f == "inspect.getmembers" and len(node.args) == 2 and not node.keywords and \
                    isinstance(node.args[0], ast.Name) and node.args[0].id == self.agent and isinstance(node.args[1], ast.Lambda):
                lam = node.args[1]
                if len(lam.args.args) != 1:
                    fail(lam, "lambda of getmembers")
                return ("coll", self.cond(lam.body, {lam.args.args[0].arg: "value"}, env))
            if f == "list" and len(node.args) == 1 and not node.keywords:
                return self.value(node.args[0], env)
            if isinstance(node.func, ast.Attribute) and node.func.attr == "keys" and not node.args and not node.keywords:
                inner = node.func.value
                if isinstance(inner, ast.Call) and isinstance(inner.func, ast.Attribute) and inner.func.attr == "evolvable_attributes" \
                        and isinstance(inner.func.value, ast.Name) and inner.func.value.id == self.agent and not inner.args and not inner.keywords:
                    return ("keys", "a.evolvable")
                if isinstance(inner, ast.Attribute) and inner.attr == "parameters" and isinstance(inner.value, ast.Call) and \
                        dotted(inner.value.func) == "inspect.signature" and len(inner.value.args) == 1 and \
                        dotted(inner.value.args[0]) == f"{self.agent}.__init__":
                    return ("keys", "a.ctorParam")
            fail(node, "call in inspect_attributes")
        if isinstance(node, (ast.ListComp, ast.DictComp)) and len(node.generators) == 1:
            g = node.generators[0]
            base = self.value(g.iter, env)
            if base[0] != "coll" or g.is_async:
                fail(node, "comprehension (expected one over the members)")
            roles = self.roles(g.target)
            pred = base[1]
            for t in g.ifs:
                pred = f"({pred} && {self.cond(t, roles, env)})"
            if isinstance(node, ast.DictComp):
                if self.role_of(node.key, roles) != "name" or self.role_of(node.value, roles) != "value":
                    fail(node, "dict comprehension (expected {name: value …})")
                return ("coll", pred)
            r = self.role_of(node.elt, roles)
            if r == "member":
                return ("coll", pred)
            if r == "name":
                return ("keys", pred)
            fail(node, "element of the comprehension")
        fail(node, f"expression {type(node).__name__} in inspect_attributes")

    def roles(self, target) -> dict:
        if isinstance(target, ast.Name):
            return {target.id: "member"}
        if isinstance(target, ast.Tuple) and len(target.elts) == 2 and all(isinstance(e, ast.Name) for e in target.elts):
            return {target.elts[0].id: "name", target.elts[1].id: "value"}
        fail(target, "comprehension target")

    def role_of(self, node, roles):
        if isinstance(node, ast.Name) and node.id in roles:
            return roles[node.id]
        if isinstance(node, ast.Subscript) and isinstance(node.value, ast.Name) and roles.get(node.value.id) == "member" and \
                isinstance(node.slice, ast.Constant) and node.slice.value in (0, 1):
            return "name" if node.slice.value == 0 else "value"
        return None

    def cond(self, node, roles, env) -> str:
        if isinstance(node, ast.BoolOp):
            op = " || " if isinstance(node.op, ast.Or) else " && "
            return "(" + op.join(self.cond(v, roles, env) for v in node.values) + ")"
        if isinstance(node, ast.UnaryOp) and isinstance(node.op, ast.Not):
            return "(!" + self.cond(node.operand, roles, env) + ")"
        if isinstance(node, ast.Call) and not node.keywords:
            f = dotted(node.func)
            if f in ("isroutine", "inspect.isroutine") and len(node.args) == 1 and self.role_of(node.args[0], roles) == "value":
                return "a.routine"
            if f == "isinstance" and len(node.args) == 2 and self.role_of(node.args[0], roles) == "value" and \
                    class_names(node.args[1]) == ["TensorDict"]:
                return "a.tensorDict"
            if isinstance(node.func, ast.Attribute) and node.func.attr in ("startswith", "endswith") and len(node.args) == 1 and \
                    self.role_of(node.func.value, roles) == "name" and isinstance(node.args[0], ast.Constant) and node.args[0].value == "_":
                return "a.startsUnderscore" if node.func.attr == "startswith" else "a.endsUnderscore"
        if isinstance(node, ast.Compare) and len(node.ops) == 1 and isinstance(node.ops[0], (ast.In, ast.NotIn)) and \
                self.role_of(node.left, roles) == "name":
            s = self.value(node.comparators[0], env)
            if s[0] == "keys":
                return s[1] if isinstance(node.ops[0], ast.In) else f"(!{s[1]})"
        fail(node, "filter condition in inspect_attributes")


# ====================================================================================================================
# (L) the load paths: symbolic execution into guarded steps
# ====================================================================================================================
NONE = ("none",)
ROOT = ("file", (), False)
HARMLESS_FNS = ("warnings.warn", "torch.set_float32_matmul_precision")
IDENTITY_FNS = ("chkpt_attribute_to_device",)
SELF_CALLS = ("wrap_models", "recompile")
OUTPUT_KINDS = ("file", "arg", "selfattr", "selfattrnamed", "obj", "stored", "elem", "none", "pair", "ite", "nets",
                "opaque", "ckptargs")


def key_lean(k) -> str:
    if k[0] == "lit":
        return f".lit {lstr(k[1])}"
    if k[0] == "suf":
        return f".suffixed {lstr(k[1])}"
    return ".name"


def test_lean(t: str) -> str:
    return "." + t


def v_lean(v, node=None) -> str:
    k = v[0]
    if k == "file":
        return f"(.file {llist(key_lean(x) for x in v[1])} {lbool(v[2])})"
    if k == "arg":
        return f"(.arg {lstr(v[1])})"
    if k == "selfattr":
        return f"(.selfAttr ({key_lean(v[1])}) {lbool(v[2])})"
    if k == "selfattrnamed":
        return f"(.selfAttrNamed {v_lean(v[1], node)})"
    if k == "obj":
        return f"(.obj {v[1]})"
    if k == "stored":
        return f"(.stored {v[1]})"
    if k == "elem":
        return f"(.elem {v_lean(v[1], node)})"
    if k == "none":
        return ".none"
    if k == "pair":
        return f"(.pair {v_lean(v[1], node)} {v_lean(v[2], node)})"
    if k == "ite":
        return f"(.ite {test_lean(v[1])} {lbool(v[2])} {v_lean(v[3], node)} {v_lean(v[4], node)} {v_lean(v[5], node)})"
    if k == "nets":
        src = ".live" if v[3][0] == "live" else f"(.stored {v[3][1]})"
        return f"(.nets {v_lean(v[1], node)} {lbool(v[2])} {src})"
    if k == "opaque":
        return f"(.opaque {lstr(v[1])} {v_lean(v[2], node)})"
    if k == "ckptargs":
        return f"(.ckptArgs {v[1]})"
    if node is not None:
        fail(node, f"a value of kind `{k}` reaches the restored agent (not translatable)")
    raise Unsupported(f"{Ctx.rel}: a value of kind `{k}` reaches the restored agent (not translatable)")


def dom_lean(d) -> str:
    k = d[0]
    if k == "once":
        return ".once"
    if k == "names":
        return f"(.names {v_lean(d[1])})"
    if k == "ckptKeys":
        return f"(.ckptKeys {llist(map(lstr, d[1]))})"
    if k == "inspectSelf":
        return ".inspectSelf"
    if k == "storedIn":
        return f"(.storedIn {d[1]})"
    if k == "keysOf":
        return f"(.keysOf {v_lean(d[1])})"
    raise Unsupported(f"{Ctx.rel}: internal: no Lean form for domain {d!r}")


class State:
    """the part of the executor's state that forks at an `if`"""

    def __init__(self):
        self.env: dict = {}
        self.selfbind: dict = {}       # (key, domain identity) -> value
        self.store_vals: dict = {}     # local dict number -> value held under the loop's name
        self.list_elem: dict = {}      # list object -> element object

    def copy(self):
        s = State()
        s.env, s.selfbind, s.store_vals, s.list_elem = dict(self.env), dict(self.selfbind), dict(self.store_vals), dict(self.list_elem)
        return s


class LoadExec:
    def __init__(self, fn: ast.FunctionDef, is_classmethod: bool, wrapper: bool = False):
        self.fn = fn
        self.wrapper = wrapper
        self.params = params_of(fn)
        self.st = State()
        first = self.params[0]
        self.st.env[first] = ("clsref",) if is_classmethod else ("self",)
        for p in self.params[1:]:
            self.st.env[p] = ("arg", p)
        self.steps: list[str] = []
        self.path: list = []           # guards (test, subject, expect)
        self.loop = None               # (number, dom, identity)
        self.zipped = False
        self.nobj = 0
        self.nstore = 0
        self.nloops = 0
        self.objkind: dict = {}
        self.store_dom: dict = {}      # local dict number -> identity of the loop it was filled in
        self.overrides: dict = {}      # repr(dict value) -> keys set on it
        self.ckpt_version = 0
        self.popped: list[str] = []
        self.returned = False

    # ------------------------------------------------------------------ emission
    def emit(self, act: str, node):
        if self.loop is None:
            n, dom = 0, ("once",)
        else:
            n, dom = self.loop[0], self.loop[1]
        gs = llist(f"⟨{test_lean(t)}, {v_lean(s, node)}, {lbool(e)}⟩" for t, s, e in self.path)
        self.steps.append(f"⟨{n}, {dom_lean(dom)}, {lbool(self.zipped)}, {gs}, {act}⟩")

    def identity(self):
        return None if self.loop is None else self.loop[2]

    # ------------------------------------------------------------------ values
    def simp(self, v):
        """resolve conditionals decided by the path condition"""
        if v[0] == "ite":
            for t, s, e in self.path:
                if t == v[1] and s == v[3]:
                    return self.simp(v[4] if e == v[2] else v[5])
            return ("ite", v[1], v[2], v[3], self.simp(v[4]), self.simp(v[5]))
        if v[0] == "elem":
            inner = self.simp(v[1])
            if inner[0] == "obj" and self.objkind.get(inner[1]) == "list" and inner[1] in self.st.list_elem:
                return self.st.list_elem[inner[1]]
            return ("elem", inner)
        if v[0] == "stored" and v[1] in self.st.store_vals and self.loop is not None and self.store_dom.get(v[1]) == self.loop[2]:
            return self.simp(self.st.store_vals[v[1]])
        return v

    def as_key(self, v, node):
        if v[0] == "namevar":
            return ("name",)
        if v[0] == "str":
            return ("lit", v[1])
        if v[0] == "key":
            return v[1]
        fail(node, "key expression (expected a string, an f-string of the loop's name or the loop's name)")

    def file_item(self, d, k, node, opt=False):
        """d[k] / d.get(k) for a value held by the file"""
        if d[0] == "filtered":
            key = self.as_key(k, node)
            if key[0] != "suf":
                fail(node, "key of a dict filtered by `k.startswith(name)` (expected f\"{name}<suffix>\")")
            base = d[1]
            return ("file", base[1] + (key,), opt)
        if d[0] == "file":
            if k[0] == "zipindex":
                return ("elem", d)
            if k[0] == "const" and k[1] == 0:
                return ("index0", d)
            return ("file", d[1] + (self.as_key(k, node),), opt)
        fail(node, "subscript of this value")

    def expr(self, node):
        st = self.st
        if isinstance(node, ast.Name):
            if node.id in st.env:
                return self.simp(st.env[node.id])
            for known in ("OptimizerWrapper",):
                if node.id == known:
                    return ("classref", known)
            fail(node, f"name `{node.id}` (not assigned before)")
        if isinstance(node, ast.Constant):
            if node.value is None:
                return NONE
            if isinstance(node.value, str):
                return ("str", node.value)
            if isinstance(node.value, (bool, int)):
                return ("const", node.value)
            fail(node, "constant")
        if isinstance(node, ast.JoinedStr):
            if len(node.values) == 2 and isinstance(node.values[0], ast.FormattedValue) and node.values[0].conversion == -1 and \
                    node.values[0].format_spec is None and isinstance(node.values[1], ast.Constant):
                if self.expr(node.values[0].value)[0] == "namevar":
                    return ("key", ("suf", node.values[1].value))
            fail(node, "f-string (expected f\"{name}<suffix>\" with the loop's name)")
        if isinstance(node, ast.Attribute):
            base = self.expr(node.value)
            if base[0] == "self":
                if node.attr == "agent" and self.wrapper:
                    return ("selfagent",)
                key = ("lit", node.attr)
                return st.selfbind.get((key, None), ("selfattr", key, False))
            fail(node, f"attribute `.{node.attr}` of this value")
        if isinstance(node, ast.Subscript):
            d, k = self.expr(node.value), self.expr(node.slice)
            if d[0] == "localdict":
                if k[0] == "namevar":
                    return self.simp(("stored", d[1]))
                if k[0] == "index0":
                    return ("nets", k[1], True, ("stored", d[1]))
                fail(node, "key of a local dict")
            return self.file_item(d, k, node)
        if isinstance(node, ast.IfExp):
            c = self.cond(node.test)
            a, b = self.expr(node.body), self.expr(node.orelse)
            if c[0] == "bconst":
                return a if c[1] else b
            return ("ite", c[1], c[3], c[2], a, b)
        if isinstance(node, ast.DictComp):
            return self.dictcomp(node)
        if isinstance(node, ast.ListComp):
            return self.listcomp(node)
        if isinstance(node, ast.Dict) and not node.keys:
            self.nstore += 1
            return ("localdict", self.nstore - 1)
        if isinstance(node, ast.List) and not node.elts:
            return ("newlist",)
        if isinstance(node, ast.Tuple):
            return ("tuple", tuple(self.expr(e) for e in node.elts))
        if isinstance(node, ast.Call):
            return self.call(node, statement=False)
        fail(node, f"expression {type(node).__name__}")

    def dictcomp(self, node: ast.DictComp):
        if len(node.generators) != 1:
            fail(node, "dict comprehension")
        g = node.generators[0]
        ok = isinstance(g.target, ast.Tuple) and len(g.target.elts) == 2 and all(isinstance(e, ast.Name) for e in g.target.elts) \
            and isinstance(node.key, ast.Name) and isinstance(node.value, ast.Name) and not g.is_async and len(g.ifs) == 1
        if ok:
            kv, vv = g.target.elts[0].id, g.target.elts[1].id
            ok = node.key.id == kv and node.value.id == vv
        if not ok:
            fail(node, "dict comprehension (expected `{k: v for k, v in d.items() if <test of k>}`)")
        it = self.expr(g.iter)
        t = g.ifs[0]
        if it[0] == "items" and it[1][0] == "file":
            if isinstance(t, ast.Call) and isinstance(t.func, ast.Attribute) and t.func.attr == "startswith" and \
                    isinstance(t.func.value, ast.Name) and t.func.value.id == kv and len(t.args) == 1 and \
                    self.expr(t.args[0])[0] == "namevar" and it[1] != ROOT:
                return ("filtered", it[1])
            if isinstance(t, ast.Compare) and len(t.ops) == 1 and isinstance(t.ops[0], ast.In) and isinstance(t.left, ast.Name) and \
                    t.left.id == kv and self.expr(t.comparators[0])[0] == "ctorparams" and it[1] == ROOT:
                return ("ckptargs", self.ckpt_version)
        fail(node, "dict comprehension (expected a filter by `k.startswith(name)` or by `k in constructor_params`)")

    def listcomp(self, node: ast.ListComp):
        if len(node.generators) != 1 or node.generators[0].ifs or not isinstance(node.generators[0].target, ast.Name):
            fail(node, "list comprehension")
        g = node.generators[0]
        names = self.expr(g.iter)
        if names[0] != "file":
            fail(node, "list comprehension (expected one over a list of names held by the file)")
        var = g.target.id
        e = node.elt
        if isinstance(e, ast.Call) and dotted(e.func) == "getattr" and len(e.args) == 2 and not e.keywords and \
                self.expr(e.args[0])[0] == "self" and isinstance(e.args[1], ast.Name) and e.args[1].id == var:
            return ("nets", names, False, ("live",))
        if isinstance(e, ast.Subscript) and isinstance(e.slice, ast.Name) and e.slice.id == var:
            d = self.expr(e.value)
            if d[0] == "localdict":
                return ("nets", names, False, ("stored", d[1]))
        fail(node, "list comprehension (expected `[getattr(self, n) for n in names]` or `[<local dict>[n] for n in names]`)")

    # ------------------------------------------------------------------ conditions
    def cond(self, node):
        """("cond", test, subject, expect) or ("bconst", b)"""
        if isinstance(node, ast.UnaryOp) and isinstance(node.op, ast.Not):
            c = self.cond(node.operand)
            return ("bconst", not c[1]) if c[0] == "bconst" else ("cond", c[1], c[2], not c[3])
        if isinstance(node, ast.Compare) and len(node.ops) == 1:
            op, l, r = node.ops[0], node.left, node.comparators[0]
            if isinstance(op, (ast.Is, ast.IsNot)) and isinstance(r, ast.Constant) and r.value is None:
                v = self.expr(l)
                if v == NONE:
                    return ("bconst", isinstance(op, ast.Is))
                if v[0] == "obj":
                    return ("bconst", isinstance(op, ast.IsNot))
                self.check_out(v, l)
                return ("cond", "isNone", v, isinstance(op, ast.Is))
            if isinstance(op, ast.NotEq) or isinstance(op, ast.Eq):
                a, b = self.expr(l), self.expr(r)
                self.check_out(a, l), self.check_out(b, r)
                return ("cond", "ne", ("pair", a, b), isinstance(op, ast.NotEq))
            if isinstance(op, (ast.In, ast.NotIn)) and self.expr(r) == ROOT:
                k = self.as_key(self.expr(l), l)
                return ("cond", "inCkpt", ("file", (k,), False), isinstance(op, ast.In))
            fail(node, "comparison")
        if isinstance(node, ast.Call) and not node.keywords:
            f = dotted(node.func)
            if f == "isinstance" and len(node.args) == 2 and dotted(node.args[1]) == "list":
                return self.is_list(self.expr(node.args[0]), node)
            if f == "is_network_submodule" and len(node.args) == 2 and self.expr(node.args[0])[0] == "self":
                v = self.expr(node.args[1])
                self.check_out(v, node)
                return ("cond", "isSubmodule", v, True)
            fail(node, "call in a condition")
        if isinstance(node, (ast.Name, ast.Attribute, ast.Subscript)):
            v = self.expr(node)
            if v == NONE:
                return ("bconst", False)
            self.check_out(v, node)
            return ("cond", "truthy", v, True)
        fail(node, f"condition {type(node).__name__}")

    def is_list(self, v, node):
        v = self.simp(v)
        if v[0] == "obj":
            return ("bconst", self.objkind.get(v[1]) == "list")
        if v[0] == "file":
            return ("cond", "isList", v, True)
        if v[0] == "ite":
            a, b = self.is_list(v[4], node), self.is_list(v[5], node)
            if a[0] == "bconst" and b[0] == "bconst":
                if a[1] == b[1]:
                    return a
                return ("cond", v[1], v[3], v[2] if a[1] else not v[2])
        fail(node, "isinstance(…, list) of this value")

    def check_out(self, v, node):
        v_lean(v, node)

    # ------------------------------------------------------------------ calls
    def new_obj(self, kind: str) -> int:
        self.nobj += 1
        self.objkind[self.nobj - 1] = kind
        return self.nobj - 1

    def call(self, node: ast.Call, statement: bool):
        st = self.st
        f = dotted(node.func)
        args = node.args
        # ---- pure / structural
        if f == "torch.load":
            self.emit(".read", node)
            return ROOT
        if f == "zip":
            return ("zip", tuple(self.expr(a) for a in args))
        if f == "enumerate" and len(args) == 1:
            z = self.expr(args[0])
            if z[0] != "zip":
                fail(node, "enumerate (expected enumerate(zip(…)))")
            return ("enumzip", z[1])
        if f == "getattr" and 2 <= len(args) <= 3 and not node.keywords:
            if dotted(args[0]) == "torch.optim":
                v = self.expr(args[1])
                self.check_out(v, node)
                return ("opaque", "getattr:torch.optim", v)
            base = self.expr(args[0])
            if base[0] != "self":
                fail(node, "getattr (expected getattr(self, …) / getattr(torch.optim, …))")
            dflt = False
            if len(args) == 3:
                if self.expr(args[2]) != NONE:
                    fail(node, "default of getattr (expected None)")
                dflt = True
            k = self.expr(args[1])
            if k[0] == "index0":
                return ("nets", k[1], True, ("live",))
            if k[0] in ("file", "elem"):
                return ("selfattrnamed", k)
            key = self.as_key(k, node)
            ident = self.identity() if key[0] != "lit" else None
            bound = st.selfbind.get((key, ident))
            return self.simp(bound) if bound is not None else ("selfattr", key, dflt)
        if f in IDENTITY_FNS and len(args) == 2 and not node.keywords:
            v = self.expr(args[0])
            self.check_out(v, node)
            return ("opaque", f, v)
        if f == "inspect.signature" or (isinstance(node.func, ast.Attribute) and node.func.attr == "keys" and not args):
            if isinstance(node.func, ast.Attribute) and node.func.attr == "keys":
                inner = node.func.value
                if isinstance(inner, ast.Attribute) and inner.attr == "parameters" and isinstance(inner.value, ast.Call) and \
                        dotted(inner.value.func) == "inspect.signature" and len(inner.value.args) == 1:
                    a = inner.value.args[0]
                    if isinstance(a, ast.Attribute) and a.attr == "__init__" and self.expr(a.value)[0] == "clsref":
                        return ("ctorparams",)
                    fail(node, "inspect.signature (expected the constructor of cls)")
                v = self.expr(inner)
                if v == ROOT:
                    return ("ckptkeys",)
                if v[0] == "inspectself":
                    return ("inspectselfkeys",)
                fail(node, ".keys() of this value")
        if f is not None and f.split(".")[-1] == "inspect_attributes" and len(args) == 1 and not node.keywords and \
                self.expr(args[0])[0] == "self":
            return ("inspectself",)
        if isinstance(node.func, ast.Attribute) and node.func.attr == "items" and not args:
            v = self.expr(node.func.value)
            if v[0] in ("file", "localdict"):
                return ("items", v)
            fail(node, ".items() of this value")
        if isinstance(node.func, ast.Attribute) and node.func.attr == "get" and 1 <= len(args) <= 2 and not node.keywords:
            d = self.expr(node.func.value)
            if len(args) == 2 and self.expr(args[1]) != NONE:
                fail(node, "default of .get (expected None)")
            if d[0] in ("file", "filtered"):
                return self.file_item(d, self.expr(args[0]), node, opt=True)
            fail(node, ".get of this value")
        # ---- effects
        if f == "setattr" and len(args) == 3 and not node.keywords:
            if self.expr(args[0])[0] != "self":
                fail(node, "setattr (expected setattr(self, …))")
            key = self.as_key(self.expr(args[1]), node)
            self.do_setattr(key, self.expr(args[2]), node)
            return NONE
        if f == "load_detached_tensors" and len(args) == 2 and not node.keywords:
            a, b = self.expr(args[0]), self.expr(args[1])
            self.emit(f".fn {lstr(f)} [{v_lean(a, node)}, {v_lean(b, node)}]", node)
            return NONE
        if f in HARMLESS_FNS:
            self.emit(f".fn {lstr(f)} []", node)
            return NONE
        if isinstance(node.func, ast.Attribute):
            recv_node, m = node.func.value, node.func.attr
            recv = self.expr(recv_node)
            if recv[0] == "self":
                if args or node.keywords:
                    fail(node, f"self.{m}(…) with arguments")
                if m == "mutation_hook":
                    self.emit(".hook", node)
                    return NONE
                if m in SELF_CALLS:
                    self.emit(f".selfCall {lstr(m)}", node)
                    return NONE
                fail(node, f"call of self.{m}() (its effect on the restored agent is unknown)")
            if recv[0] == "selfagent":
                if m == "load_checkpoint" and len(args) == 1 and not node.keywords and self.expr(args[0])[0] == "arg":
                    self.emit(".agentLoad", node)
                    return NONE
                fail(node, f"call of self.agent.{m}")
            if recv == ROOT and m == "pop" and len(args) == 1 and not node.keywords:
                k = self.expr(args[0])
                if k[0] != "str":
                    fail(node, "key of checkpoint.pop")
                self.emit(f".ckptPop {lstr(k[1])}", node)
                self.popped.append(k[1])
                self.ckpt_version += 1
                return NONE
            if m == "append" and len(args) == 1 and recv[0] == "obj" and self.objkind.get(recv[1]) == "list":
                v = self.expr(args[0])
                self.emit(f".append {recv[1]} {v_lean(v, node)}", node)
                if v[0] == "obj":
                    st.list_elem[recv[1]] = v
                return NONE
            if recv[0] in ("obj", "ite", "elem", "stored") and len(args) == 1 and not node.keywords:
                v = self.expr(args[0])
                self.emit(f".call {v_lean(recv, node)} {lstr(m)} {v_lean(v, node)}", node)
                return NONE
            fail(node, f"method call .{m}(…) on this value")
        # ---- constructors
        fv = self.expr(node.func) if not isinstance(node.func, ast.Attribute) else None
        if fv is not None:
            star = [kw for kw in node.keywords if kw.arg is None]
            if fv[0] == "classref":
                if star:
                    fail(node, f"{fv[1]}(**…)")
                o = self.new_obj("opt")
                items = [(str(i), self.expr(a)) for i, a in enumerate(args)] + [(kw.arg, self.expr(kw.value)) for kw in node.keywords]
                self.emit(f".newOpt {o} {lstr(fv[1])} " + llist(f"({lstr(k)}, {v_lean(v, node)})" for k, v in items), node)
                return ("obj", o)
            if len(star) == 1 and len(node.keywords) == 1:
                kw = self.expr(star[0].value)
                if fv[0] == "clsref" and not args:
                    if kw[0] != "ckptargs":
                        fail(node, "cls(**…) (expected the checkpoint entries named like constructor parameters)")
                    self.emit(f".newAgent {v_lean(kw, node)}", node)
                    st.selfbind = {}
                    return ("self",)
                if fv[0] in ("file", "elem") and not args:
                    o = self.new_obj("module")
                    ov = self.overrides.get(repr(kw), [])
                    self.emit(f".construct {o} {v_lean(fv, node)} {v_lean(kw, node)} {llist(map(lstr, ov))}", node)
                    return ("obj", o)
                if fv[0] == "file" and len(args) == 1 and self.expr(args[0])[0] == "self":
                    self.emit(f".newWrapper {v_lean(fv, node)} {v_lean(kw, node)}", node)
                    st.selfbind = {}
                    return ("self",)
        fail(node, f"call of `{f or ast.dump(node.func)[:40]}`")

    def do_setattr(self, key, v, node):
        if v[0] == "newlist":
            fail(node, "setattr of a list display")
        self.emit(f".setattr ({key_lean(key)}) {v_lean(v, node)}", node)
        ident = self.identity() if key[0] != "lit" else None
        self.st.selfbind[(key, ident)] = v        # joins with the other branch are made at the end of the `if`

    # ------------------------------------------------------------------ statements
    def run(self):
        self.block(body_without_doc(self.fn))
        return self.steps

    def block(self, stmts):
        """executes the statements; returns None, or how the block ends on every path: "continue" | "raise" | "return" """
        pushed = 0
        terminated = None
        for st in stmts:
            if terminated:
                fail(st, "statement after continue / raise / return")
            if self.returned:
                fail(st, "statement after return")
            terminated, p = self.stmt(st)
            pushed += p
        for _ in range(pushed):
            self.path.pop()
        return terminated

    def stmt(self, st):
        if isinstance(st, ast.Expr):
            if isinstance(st.value, ast.Constant) and isinstance(st.value.value, str):
                return None, 0
            if isinstance(st.value, ast.Call):
                self.call(st.value, statement=True)
                return None, 0
            fail(st, "expression statement")
        if isinstance(st, ast.AnnAssign) and st.value is not None:
            self.assign(st.target, st.value, st)
            return None, 0
        if isinstance(st, ast.Assign) and len(st.targets) == 1:
            self.assign(st.targets[0], st.value, st)
            return None, 0
        if isinstance(st, ast.Continue):
            if self.loop is None:
                fail(st, "continue outside a loop over attributes")
            return "continue", 0
        if isinstance(st, ast.Raise):
            exc = st.exc
            name = dotted(exc.func) if isinstance(exc, ast.Call) else dotted(exc) if exc is not None else None
            if name is None:
                fail(st, "raise")
            self.emit(f".raise {lstr(name.split('.')[-1])}", st)
            return "raise", 0
        if isinstance(st, ast.Return):
            if self.loop is not None or self.path:
                fail(st, "return inside a loop / if")
            if st.value is not None and self.expr(st.value)[0] != "self":
                fail(st, "return value (expected self)")
            self.returned = True
            return "return", 0
        if isinstance(st, ast.If):
            return self.if_stmt(st)
        if isinstance(st, ast.For):
            self.for_stmt(st)
            return None, 0
        fail(st, f"statement {type(st).__name__}")

    def if_stmt(self, st: ast.If):
        c = self.cond(st.test)
        if c[0] == "bconst":
            t = self.block(st.body if c[1] else st.orelse)
            return t, 0
        g = (c[1], c[2], c[3])
        ng = (c[1], c[2], not c[3])
        snap = self.st.copy()
        self.path.append(g)
        ta = self.block(st.body)
        self.path.pop()
        sa = self.st
        self.st = snap.copy()
        self.path.append(ng)
        tb = self.block(st.orelse)
        self.path.pop()
        sb = self.st
        if ta and tb:
            return (ta if ta == tb else "continue"), 0
        # A branch that ends in `raise` is a CHECK: what follows runs on the assumption that the call did not raise,
        # so its negation is not repeated on every later step.  After `continue` the rest of the body is guarded.
        if ta:
            self.st = sb
            if ta == "raise":
                return None, 0
            self.path.append(ng)
            return None, 1
        if tb:
            self.st = sa
            if tb == "raise":
                return None, 0
            self.path.append(g)
            return None, 1
        self.st = self.merge(g, sa, sb, snap)
        return None, 0

    def merge(self, g, sa: State, sb: State, snap: State) -> State:
        out = State()
        for name in set(sa.env) & set(sb.env):
            out.env[name] = self.join(g, sa.env[name], sb.env[name])
        for k in set(sa.selfbind) | set(sb.selfbind):
            old = ("selfattr", k[0], False)
            out.selfbind[k] = self.join(g, sa.selfbind.get(k, old), sb.selfbind.get(k, old))
        for m in set(sa.store_vals) | set(sb.store_vals):
            if m in sa.store_vals and m in sb.store_vals:
                out.store_vals[m] = self.join(g, sa.store_vals[m], sb.store_vals[m])
            else:
                out.store_vals[m] = ("partial",)
        out.list_elem = {**sa.list_elem, **sb.list_elem}
        return out

    def join(self, g, a, b):
        if a == b:
            return a
        if a[0] in OUTPUT_KINDS and b[0] in OUTPUT_KINDS:
            return ("ite", g[0], g[2], g[1], a, b)
        return ("unmergeable", a[0], b[0])

    def assign(self, target, value, st):
        s = self.st
        if isinstance(target, ast.Name):
            v = self.expr(value)
            if v[0] == "newlist":
                o = self.new_obj("list")
                self.emit(f".newList {o}", st)
                v = ("obj", o)
            if target.id == self.params[0] and v[0] != "self":
                fail(st, f"assignment to `{target.id}`")
            s.env[target.id] = v
            return
        if isinstance(target, ast.Attribute):
            if self.expr(target.value)[0] != "self":
                fail(st, "attribute assignment (expected self.<name> = …)")
            self.do_setattr(("lit", target.attr), self.expr(value), st)
            return
        if isinstance(target, ast.Subscript):
            d, k = self.expr(target.value), self.expr(target.slice)
            if d == ROOT:
                if k[0] != "str":
                    fail(st, "key written into the checkpoint dict")
                self.emit(f".ckptSet {lstr(k[1])} {v_lean(self.expr(value), st)}", st)
                self.ckpt_version += 1
                return
            if d[0] == "localdict":
                if k[0] != "namevar" or self.loop is None:
                    fail(st, "store into a local dict (expected <dict>[name] = … inside a loop over names)")
                v = self.expr(value)
                if v[0] == "newlist":
                    o = self.new_obj("list")
                    self.emit(f".newList {o}", st)
                    v = ("obj", o)
                self.emit(f".store {d[1]} {v_lean(v, st)}", st)
                s.store_vals[d[1]] = v
                self.store_dom[d[1]] = self.loop[2]
                return
            if d[0] in ("file", "elem", "opaque") and k[0] == "str":
                # a key set on a dict taken from the file before it is used as **kwargs
                self.expr(value)
                self.overrides.setdefault(repr(d), []).append(k[1])
                return
        fail(st, "assignment target")

    def for_stmt(self, st: ast.For):
        if st.orelse:
            fail(st, "for … else")
        it = self.expr(st.iter)
        s = self.st
        if it[0] in ("zip", "enumzip"):
            if self.loop is None or self.zipped:
                fail(st, "zip loop (expected inside one loop over attribute names)")
            tg = st.target
            if it[0] == "enumzip":
                if not (isinstance(tg, ast.Tuple) and len(tg.elts) == 2 and isinstance(tg.elts[0], ast.Name)):
                    fail(st, "target of enumerate(zip(…))")
                s.env[tg.elts[0].id] = ("zipindex",)
                tg = tg.elts[1]
            if not (isinstance(tg, ast.Tuple) and len(tg.elts) == len(it[1]) and all(isinstance(e, ast.Name) for e in tg.elts)):
                fail(st, "target of zip(…)")
            for e, v in zip(tg.elts, it[1]):
                v = self.simp(v)
                if v[0] == "obj" and self.objkind.get(v[1]) == "list":
                    if v[1] not in s.list_elem:
                        fail(st, "zip over a list that was not filled before")
                    s.env[e.id] = s.list_elem[v[1]]
                elif v[0] in ("file", "opaque"):
                    s.env[e.id] = ("elem", v)
                else:
                    fail(st, "zip operand (expected per-module lists)")
            self.zipped = True
            t = self.block(st.body)
            self.zipped = False
            return
        if self.loop is not None:
            fail(st, "nested loop over attributes")
        tg = st.target
        if it[0] == "file":
            dom, binds = ("names", it), None
        elif it[0] == "ckptkeys":
            dom, binds = ("ckptKeys", list(self.popped)), None
        elif it[0] == "inspectselfkeys":
            dom, binds = ("inspectSelf",), None
        elif it[0] == "items" and it[1][0] == "localdict":
            dom, binds = ("storedIn", it[1][1]), ("stored", it[1][1])
        elif it[0] == "items" and it[1][0] == "file":
            dom, binds = ("keysOf", it[1]), ("file", it[1][1] + (("name",),), False)
        else:
            fail(st, "loop iterable")
        if binds is None:
            if not isinstance(tg, ast.Name):
                fail(st, "loop target")
            names = [tg.id]
        else:
            if not (isinstance(tg, ast.Tuple) and len(tg.elts) == 2 and all(isinstance(e, ast.Name) for e in tg.elts)):
                fail(st, "loop target (expected `name, value`)")
            names = [tg.elts[0].id, tg.elts[1].id]
        if dom[0] == "storedIn":
            ident = self.store_dom.get(dom[1])
            if ident is None:
                fail(st, "loop over a local dict that was never filled")
        else:
            ident = (dom[0], repr(dom[1]) if len(dom) > 1 and dom[0] != "ckptKeys" else "")
        self.nloops += 1
        self.loop = (self.nloops, dom, ident)
        s.env[names[0]] = ("namevar",)
        if binds is not None:
            s.env[names[1]] = binds
        self.block(st.body)
        self.loop = None
        for n in names:
            self.st.env.pop(n, None)



# ====================================================================================================================
# assembly
# ====================================================================================================================
PRELUDE = r'''
/-! ## vocabulary (fixed prelude: what the Python / AgileRL objects are, as far as the checkpoint code looks) -/

/-- the exception a call ends with -/
inductive Exn where
  | raised (cls : String)
deriving DecidableEq, Repr

/-- what the `isinstance` tests of `get_checkpoint_dict` can tell about the value of an evolvable attribute -/
inductive ObjCls where
  | optimizerWrapper
  | evolvableModule
  | optimizedModule                 -- torch.compile'd: `_orig_mod` is the EvolvableModule
  | moduleList (compiled : Bool)    -- a list of modules (`compiled`: of OptimizedModules)
  | other                           -- anything else `evolvable_attributes()` reports (e.g. a dict of modules)
deriving DecidableEq, Repr

/-- `isinstance(obj, (C1, C2, …))` by class NAME -/
def ObjCls.isinstance (o : ObjCls) (classes : List String) : Bool :=
  match o with
  | .optimizerWrapper => classes.contains "OptimizerWrapper"
  | .evolvableModule => classes.contains "EvolvableModule"
  | .optimizedModule => classes.contains "OptimizedModule"
  | .moduleList _ => classes.contains "list"
  | .other => false

/-- `is_module_list(obj)` -/
def ObjCls.isModuleList : ObjCls → Bool
  | .moduleList _ => true
  | _ => false

def ObjCls.isOptimizer : ObjCls → Bool
  | .optimizerWrapper => true
  | _ => false

/-- the module at hand (the object, or an element of the list) is an OptimizedModule -/
def ObjCls.compiled : ObjCls → Bool
  | .optimizedModule => true
  | .moduleList c => c
  | _ => false

/-- the parts of an attribute's state the checkpoint code handles one by one -/
inductive Part where
  | cls | init | weights | detached                                         -- a network
  | optCls | optState | optNetworks | optLr | optKwargs | optMultiagent     -- an optimizer: what is stored
  | optParams                                                               -- … the parameters it steps
  | value                                                                   -- any other attribute
deriving DecidableEq, Repr

/-- a value expression of `get_checkpoint_dict` over the attribute object -/
inductive Src where
  | obj                                        -- `getattr(agent, attr)`
  | elem                                       -- the comprehension variable ranging over a module list
  | attr (o : Src) (name : String)             -- `o.name`
  | call (o : Src) (method : String)           -- `o.method()`
  | fn (name : String) (arg : Src)             -- `name(arg)`
  | ite (subject : Src) (classes : List String) (a b : Src)   -- `a if isinstance(subject, classes) else b`
  | each (e : Src)                             -- `[e for m in obj_list]`
deriving Repr

def Src.isBase (inEach : Bool) : Src → Bool
  | .obj => !inEach
  | .elem => inEach
  | _ => false

/-- Which part of the attribute's state a value expression denotes (`none`: not a part, e.g. the class of
    the compile wrapper).  LIBRARY SEMANTICS assumed here: `init_dict`, `state_dict()`, `__class__`,
    `_orig_mod`, `get_detached_tensors`, `remove_compile_prefix` (identity on what it lists), the
    `OptimizerWrapper` fields. -/
def Src.part (isOpt compiled : Bool) (inEach : Bool) : Src → Option Part
  | .obj => none
  | .elem => none
  | .attr o n =>
    if o.isBase inEach then
      if isOpt then
        if n = "network_names" then some .optNetworks
        else if n = "lr_name" then some .optLr
        else if n = "optimizer_kwargs" then some .optKwargs
        else if n = "multiagent" then some .optMultiagent
        else none
      else if n = "init_dict" then some .init
      else if n = "__class__" && !compiled then some .cls
      else none
    else
      match o with
      | .attr o' m =>
        if o'.isBase inEach && isOpt && m = "optimizer_cls" && n = "__name__" then some .optCls
        else if o'.isBase inEach && !isOpt && compiled && m = "_orig_mod" && n = "__class__" then some .cls
        else if o'.isBase inEach && !isOpt && compiled && m = "_orig_mod" && n = "init_dict" then some .init
        else none
      | _ => none
  | .call o m =>
    if o.isBase inEach && m = "state_dict" then some (if isOpt then .optState else .weights) else none
  | .fn f a =>
    if f = "remove_compile_prefix" then
      match a.part isOpt compiled inEach with
      | some .weights => some .weights
      | _ => none
    else if f = "get_detached_tensors" then
      if a.isBase inEach && !isOpt then some .detached else none
    else none
  | .ite s classes a b =>
    if s.isBase inEach && !isOpt then
      if (if compiled then classes.contains "OptimizedModule" else classes.contains "EvolvableModule")
      then a.part isOpt compiled inEach else b.part isOpt compiled inEach
    else none
  | .each e => if inEach then none else e.part isOpt compiled true

def Src.isEach : Src → Bool
  | .each _ => true
  | _ => false

/-- one entry written into `network_info[dict]` under the key `f"{attr}{suffix}"` -/
structure Entry where
  dict : String
  suffix : String
  src : Src
deriving Repr

/-- `[name for name in agent.evolvable_attributes(networks_only=b) if isinstance(getattr(agent, name), classes)]` -/
structure NameSel where
  networksOnly : Bool
  classes : Option (List String)
deriving Repr

/-- ASSUMED: `evolvable_attributes(networks_only=True)` lists exactly the non-optimizer evolvable attributes -/
def NameSel.has (s : NameSel) (o : ObjCls) : Bool :=
  (!s.networksOnly || !o.isOptimizer) &&
  (match s.classes with
   | none => true
   | some cs => o.isinstance cs)

/-- a member of the agent object, as `inspect_attributes` looks at it -/
structure Attr where
  routine : Bool              -- `isroutine(value)`
  startsUnderscore : Bool     -- `name.startswith("_")`
  endsUnderscore : Bool       -- `name.endswith("_")`
  evolvable : Bool            -- `name in agent.evolvable_attributes()`
  tensorDict : Bool           -- `isinstance(value, TensorDict)`
  ctorParam : Bool            -- `name in inspect.signature(agent.__init__).parameters`
deriving DecidableEq, Repr

/-! ### top-level dict operations -/

inductive TopVal where
  | attrs (who : String) (inputArgsOnly : Bool)    -- `EvolvableAlgorithm.inspect_attributes(who[, input_args_only=True])`
  | ckptDict (who : String)                        -- `get_checkpoint_dict(who)`
  | networkInfo                                    -- the `network_info` dict built above
  | classOf (who : String)                         -- `who.__class__`
  | stateDictOf (who : String) (attr : String)     -- `who.attr.state_dict()`
  | opaque (what : String)                         -- any other call, e.g. `version("agilerl")`
deriving DecidableEq, Repr

inductive DictOp where
  | bulk (v : TopVal)                                      -- `d = v` / `d.update(v)` / `{**d, **v}`
  | set (k : String) (v : TopVal)                          -- `d[k] = v`
  | pop (k : String)                                       -- `d.pop(k[, None])`
  | setIfPoppedNotNone (k : String) (k' : String) (v : TopVal)   -- `if d.pop(k, None) is not None: d[k'] = v`
  | popIn (k : String) (inner : String)                    -- `d[k].pop(inner)`
deriving DecidableEq, Repr

/-- what the dict holds under one key after the operations -/
inductive Held where
  | absent
  | val (v : TopVal) (minus : List String)     -- the value written by `d[k] = v`, minus the keys popped from it
  | bulk (v : TopVal)                          -- the entry of the dict `v` under that key
  | ifNotNone (v : TopVal)                     -- `v` if the attribute was not None, else absent
deriving DecidableEq, Repr

/-- `has v`: does the bulk dict `v` have the key looked up? -/
def heldAfter (has : TopVal → Bool) (k : String) : List DictOp → Held → Held
  | [], h => h
  | .bulk v :: r, h => heldAfter has k r (if has v then .bulk v else h)
  | .set k' v :: r, h => heldAfter has k r (if k' = k then .val v [] else h)
  | .pop k' :: r, h => heldAfter has k r (if k' = k then .absent else h)
  | .setIfPoppedNotNone k0 k' v :: r, h =>
    heldAfter has k r (if k' = k then .ifNotNone v else if k0 = k then .absent else h)
  | .popIn k' inner :: r, h =>
    heldAfter has k r (if k' = k then
      (match h with
       | .val v minus => .val v (minus ++ [inner])
       | h' => h') else h)

/-! ### the load paths: guarded steps -/

/-- a key of one of the checkpoint's dicts -/
inductive Key where
  | lit (s : String)            -- "network_info"
  | suffixed (s : String)       -- f"{name}<s>", `name` the attribute the enclosing loop is at
  | name                        -- the loop's attribute name itself
deriving DecidableEq, BEq, Repr

inductive Test where
  | isList | truthy | isNone | inCkpt | isSubmodule | ne
deriving DecidableEq, BEq, Repr

inductive NetSrc where
  | live                        -- `getattr(self, <network name>)`
  | stored (m : Nat)            -- `<local dict m>[<network name>]`
deriving DecidableEq, BEq, Repr

/-- symbolic values of the load paths -/
inductive V where
  | file (path : List Key) (opt : Bool)       -- `checkpoint[k0][k1]…` (`opt`: last access by `.get`, None when missing)
  | arg (n : String)                          -- a parameter of the method
  | selfAttr (k : Key) (dflt : Bool)          -- `getattr(self, k[, None])`, nothing assigned to it before in this call
  | obj (i : Nat)                             -- the object created by step `construct i` / `newList i` / `newOpt i`
  | stored (m : Nat)                          -- what the local dict `m` holds under the loop's name
  | elem (v : V)                              -- the element of `v` at the position of the enclosing `zip`
  | none
  | pair (a b : V)
  | ite (t : Test) (expect : Bool) (subject : V) (a b : V)   -- `a if <test subject = expect> else b`
  | nets (names : V) (first : Bool) (src : NetSrc)           -- the networks named by `names` (`first`: only `names[0]`)
  | opaque (fn : String) (a : V)                             -- a pure helper applied to `a`
  | selfAttrNamed (name : V)                                 -- `getattr(self, <the name held in name>)`
  | ckptArgs (version : Nat)                                 -- `{k: v for k, v in checkpoint.items() if k in constructor_params}` after `version` writes to `checkpoint`
deriving BEq, Repr

structure Guard where
  test : Test
  subject : V
  expect : Bool
deriving BEq, Repr

inductive Dom where
  | once
  | names (v : V)                      -- `for name in v`
  | ckptKeys (popped : List String)    -- `for k in checkpoint.keys()` after the pops
  | inspectSelf                        -- `for k in EvolvableAlgorithm.inspect_attributes(self).keys()`
  | storedIn (m : Nat)                 -- `for name, x in <local dict m>.items()`
  | keysOf (v : V)                     -- `for k in v` / `for k, x in v.items()`, `v` a dict held by the file
deriving BEq, Repr

inductive Act where
  | read                                                        -- `checkpoint = torch.load(path, …)`
  | construct (o : Nat) (cls kwargs : V) (overrides : List String)   -- `o = cls(**kwargs)` after `kwargs[k] = …`
  | newList (o : Nat)                                           -- `o = []`
  | append (o : Nat) (v : V)                                    -- `o.append(v)`
  | newOpt (o : Nat) (cls : String) (args : List (String × V))  -- `o = OptimizerWrapper(…)`
  | newAgent (kwargs : V)                                       -- `self = cls(**{k: v for k, v in checkpoint.items() if k in constructor_params})`
  | newWrapper (cls kwargs : V)                                 -- `self = wrapper_cls(self, **init_dict)`
  | agentLoad                                                   -- `self.agent.load_checkpoint(path)`
  | setattr (k : Key) (v : V)                                   -- `setattr(self, k, v)` / `self.k = v`
  | store (m : Nat) (v : V)                                     -- `<local dict m>[name] = v`
  | call (recv : V) (method : String) (arg : V)                 -- `recv.method(arg)`
  | fn (name : String) (args : List V)                          -- `name(args…)`
  | hook                                                        -- `self.mutation_hook()`
  | selfCall (method : String)                                  -- `self.method()`
  | ckptSet (k : String) (v : V)                                -- `checkpoint[k] = v`
  | ckptPop (k : String)                                        -- `checkpoint.pop(k)`
  | raise (cls : String)
deriving Repr

structure Step where
  loop : Nat          -- 0: outside every loop over attributes; else the number of that loop in source order
  dom : Dom
  zipped : Bool
  guards : List Guard
  act : Act
deriving Repr

/-- where a part of the restored attribute comes from -/
inductive Prov where
  | old                                       -- untouched: what the receiver held before the call
  | ctor                                      -- whatever the constructor call left there
  | file (path : List Key) (perElem : Bool)   -- the value the file holds there
  | hook                                      -- installed by a mutation hook
  | arg (n : String)
  | liveNets (rebuilt : Bool)                 -- the receiver's networks (`rebuilt`: the ones re-created by this call)
  | absent
  | unresolved                                -- depends on a test the translation cannot decide
  | raised (cls : String)
deriving DecidableEq, Repr

/-! ## evaluation of a load path for one abstract attribute (fixed prelude) -/

/-- what `get_checkpoint_dict` / `AgentWrapper.save_checkpoint` write (the generated tables below) -/
structure SaveTbl where
  entries : ObjCls → Except Exn (List Entry)
  names : List (String × NameSel)          -- `network_info[k] = [names …]`
  top : List DictOp                        -- operations on the dict `get_checkpoint_dict` returns
  wrapperTop : List DictOp                 -- operations on the dict `AgentWrapper.save_checkpoint` saves

/-- the abstract attribute a load path is evaluated for -/
inductive Cls where
  | evolvable (o : ObjCls)    -- an evolvable attribute whose saved value was of class `o`
  | plain                     -- a public non-evolvable attribute of the saved agent and of the receiver
  | subRef                    -- … whose value in the receiver is a sub-module of one of its networks
  | wrapperAttr               -- an attribute of the AgentWrapper object (not `agent`)
deriving DecidableEq, Repr

def ObjCls.all : List ObjCls :=
  [.optimizerWrapper, .evolvableModule, .optimizedModule, .moduleList false, .moduleList true, .other]

inductive DomKind where
  | once | networks | optimizers | attrs | wrapperAttrs | unknown
deriving DecidableEq, Repr

/-- decided by what the selection CONTAINS, not by how it is written -/
def NameSel.kind (s : NameSel) : DomKind :=
  if ObjCls.all.all (fun o => s.has o == !o.isOptimizer) then .networks
  else if ObjCls.all.all (fun o => s.has o == o.isOptimizer) then .optimizers
  else .unknown

/-- the part stored under `network_info[dict][f"{attr}{suffix}"]` for an attribute of class `o`, and whether
    it is stored per element of a module list (a later `update` wins) -/
def savedPart (tbl : SaveTbl) (o : ObjCls) (dict suffix : String) : Option (Part × Bool) :=
  match tbl.entries o with
  | .ok es =>
    match (es.filter fun e => e.dict == dict && e.suffix == suffix).getLast? with
    | some e => (e.src.part o.isOptimizer o.compiled false).map fun p => (p, e.src.isEach)
    | none => none
  | .error _ => none

/-- what the file holds under the top-level key `k` (`wrapped`: a file written by `AgentWrapper.save_checkpoint`) -/
def fileHeld (tbl : SaveTbl) (wrapped : Bool) (k : String) : Held :=
  let inner := heldAfter (fun _ => false) k tbl.top .absent
  if wrapped then
    match heldAfter (fun v => match v with
                              | .ckptDict _ => inner != .absent
                              | _ => false) k tbl.wrapperTop .absent with
    | .bulk (.ckptDict _) => inner
    | h => h
  else inner

/-- `k` is the top-level key under which the `network_info` dict is saved -/
def isNetworkInfoKey (tbl : SaveTbl) (k : String) : Bool :=
  heldAfter (fun _ => false) k tbl.top .absent == .val .networkInfo []

/-- `checkpoint[k]["modules" | "optimizers"][f"{name}{suffix}"]` -/
def fileEntry (tbl : SaveTbl) : List Key → Option (String × String)
  | [.lit k, .lit d, .suffixed s] => if isNetworkInfoKey tbl k then some (d, s) else none
  | _ => none

/-- the file holds the wrapper's own attributes (minus `agent`) under the top-level key `k` -/
def isWrapperAttrsKey (tbl : SaveTbl) (k : String) : Bool :=
  heldAfter (fun _ => true) k tbl.wrapperTop .absent == .val (.attrs "self" false) ["agent"]

inductive ObjKind where
  | list (elem : Option Nat) | module | optimizer
deriving DecidableEq, Repr

structure ObjSt where
  kind : ObjKind
  parts : List (Part × Prov)

structure St where
  objs : List (Nat × ObjSt) := []
  bound : Option V := none                -- what `self.<name>` was last set to in this call
  stores : List (Nat × V) := []           -- local dicts: what they hold under the attribute's name
  baseline : Prov := .old                 -- where an attribute nobody assigns comes from
  raised : Option String := none
  netsBound : Bool := false               -- (global) the network attributes were set to newly built objects
  netsStored : List Nat := []             -- (global) local dicts filled with newly built networks
  storeKinds : List (Nat × DomKind) := [] -- (global) over which names each local dict was filled

def St.obj? (st : St) (i : Nat) : Option ObjSt := st.objs.lookup i

def St.updObj (st : St) (i : Nat) (f : ObjSt → ObjSt) : St :=
  { st with objs := st.objs.map fun jo => if jo.1 == i then (jo.1, f jo.2) else jo }

def setPart (ps : List (Part × Prov)) (p : Part) (v : Prov) : List (Part × Prov) :=
  (p, v) :: ps.filter (fun q => q.1 != p)

def getPart (ps : List (Part × Prov)) (p : Part) : Prov := (ps.lookup p).getD .absent

/-- replace `stored m` by what the local dict holds -/
def V.resolve (st : St) : V → V
  | .stored m => (st.stores.lookup m).getD (.stored m)
  | .elem v => .elem (v.resolve st)
  | .pair a b => .pair (a.resolve st) (b.resolve st)
  | .ite t e s a b => .ite t e (s.resolve st) (a.resolve st) (b.resolve st)
  | .nets n f s => .nets (n.resolve st) f s
  | .opaque f a => .opaque f (a.resolve st)
  | .selfAttrNamed n => .selfAttrNamed (n.resolve st)
  | v => v

/-- a test on a symbolic value, as far as the tables decide it (`none`: unknown) -/
def evalTest (tbl : SaveTbl) (c : Cls) (st : St) : Test → V → Option Bool
  | .isList, .obj i =>
    match st.obj? i with
    | some ⟨.list _, _⟩ => some true
    | some _ => some false
    | none => none
  | .isList, .file path _ =>
    match c, fileEntry tbl path with
    | .evolvable o, some (d, s) => (savedPart tbl o d s).map (·.2)
    | _, _ => none
  | .isNone, .file path opt =>
    match path with
    | [.lit k] =>
      match fileHeld tbl (c == .wrapperAttr) k with
      | .val _ _ => some false
      | .absent => if opt then some true else none
      | _ => none
    | _ =>
      match c, fileEntry tbl path with
      | .evolvable o, some (d, s) =>
        match savedPart tbl o d s with
        | some _ => some false
        | none => if opt then some true else none
      | _, _ => none
  | .isNone, .none => some true
  | .isNone, .obj _ => some false
  | .inCkpt, .file [.name] _ =>
    match c with
    | .plain => some true
    | .subRef => some true
    | _ => none
  | .isSubmodule, .selfAttr .name _ =>
    match c with
    | .plain => some false
    | .subRef => some true
    | _ => none
  | t, .ite t' e s a b =>
    match evalTest tbl c st t' s with
    | some r => if r == e then evalTest tbl c st t a else evalTest tbl c st t b
    | none =>
      match evalTest tbl c st t a, evalTest tbl c st t b with
      | some x, some y => if x == y then some x else none
      | _, _ => none
  | _, _ => none

/-- pure helpers ASSUMED to return their argument's value: moving tensors to a device, looking the optimizer
    class up by its saved name -/
def identityHelpers : List String := ["chkpt_attribute_to_device", "getattr:torch.optim"]

/-- where a symbolic value comes from -/
def provOf (tbl : SaveTbl) (c : Cls) (st : St) : V → Prov
  | .file path _ => .file path false
  | .elem (.file path _) => .file path true
  | .elem (.opaque f (.file path _)) => if identityHelpers.contains f then .file path true else .unresolved
  | .arg n => .arg n
  | .none => .absent
  | .ite t e s a b =>
    if t == .truthy && e && (a == s || a == .elem s) && b == .none then provOf tbl c st a     -- `x if x else None`
    else
      match evalTest tbl c st t s with
      | some r => if r == e then provOf tbl c st a else provOf tbl c st b
      | none => if provOf tbl c st a = provOf tbl c st b then provOf tbl c st a else .unresolved
  | .opaque f a => if identityHelpers.contains f then provOf tbl c st a else .unresolved
  | .nets _ _ src =>
    .liveNets (match src with
               | .live => st.netsBound
               | .stored m => st.netsStored.contains m)
  | _ => .unresolved

/-- the constructed object a symbolic value denotes -/
def objOf (tbl : SaveTbl) (c : Cls) (st : St) : V → Option Nat
  | .obj i => some i
  | .elem v =>
    match objOf tbl c st v with
    | some l =>
      match st.obj? l with
      | some ⟨.list e, _⟩ => e
      | _ => none
    | none => none
  | .ite t e s a b =>
    match evalTest tbl c st t s with
    | some r => if r == e then objOf tbl c st a else objOf tbl c st b
    | none => none
  | _ => none

/-- the object holding the state: a list object stands for its elements -/
def St.carrier (st : St) (i : Nat) : Nat :=
  match st.obj? i with
  | some ⟨.list (some e), _⟩ => e
  | _ => i

def Cls.isNet : Cls → Bool
  | .evolvable o => !o.isOptimizer
  | _ => false

def Cls.isOpt : Cls → Bool
  | .evolvable o => o.isOptimizer
  | _ => false

def Dom.kind (tbl : SaveTbl) (st : St) : Dom → DomKind
  | .once => .once
  | .names (.file [.lit k, .lit n] false) =>
    if isNetworkInfoKey tbl k then
      match tbl.names.lookup n with
      | some s => s.kind
      | none => .unknown
    else .unknown
  | .names (.file [.lit k] _) => if isWrapperAttrsKey tbl k then .wrapperAttrs else .unknown
  | .names _ => .unknown
  | .ckptKeys _ => .attrs
  | .inspectSelf => .attrs
  | .storedIn m => (st.storeKinds.lookup m).getD .unknown
  | .keysOf (.file [.lit k] _) => if isWrapperAttrsKey tbl k then .wrapperAttrs else .unknown
  | .keysOf _ => .unknown

/-- does the loop reach the attribute? -/
def Dom.has (tbl : SaveTbl) (st : St) (c : Cls) : Dom → Bool
  | .once => true
  | .names (.file [.lit k, .lit n] false) =>
    match c with
    | .evolvable o =>
      isNetworkInfoKey tbl k &&
      (match tbl.names.lookup n with
       | some s => s.has o
       | none => false)
    | _ => false
  | .names (.file [.lit k] _) => c == .wrapperAttr && isWrapperAttrsKey tbl k
  | .names _ => false
  | .ckptKeys _ => c == .plain || c == .subRef
  | .inspectSelf => c == .plain || c == .subRef
  | .storedIn m => (st.stores.lookup m).isSome
  | .keysOf (.file [.lit k] _) => c == .wrapperAttr && isWrapperAttrsKey tbl k
  | .keysOf _ => false

/-- the value an act loads (a guard `if x:` around loading `x` is neutral: loading nothing is a no-op) -/
def Act.payload : Act → Option V
  | .call _ _ a => some a
  | _ => none

def guardsHold (tbl : SaveTbl) (c : Cls) (st : St) (payload : Option V) : List Guard → Option Bool
  | [] => some true
  | g :: r =>
    let s := g.subject.resolve st
    let here : Option Bool :=
      if g.test == .truthy && g.expect && payload == some s then some true
      else (evalTest tbl c st g.test s).map (fun b => b == g.expect)
    match here, guardsHold tbl c st payload r with
    | some false, _ => some false
    | _, some false => some false
    | some true, some true => some true
    | _, _ => none

def argOf (args : List (String × V)) (k : String) : V := (args.lookup k).getD .none

/-- the effect of one act on the abstract attribute (`taint`: it runs under a test that could not be decided) -/
def applyAct (tbl : SaveTbl) (c : Cls) (taint zipped : Bool) (st : St) : Act → St
  | .construct o cls kwargs _ =>
    if c.isNet then
      let P := fun (v : V) => if taint then Prov.unresolved else provOf tbl c st (v.resolve st)
      { st with objs := (o, ⟨.module, [(.cls, P cls), (.init, P kwargs),
                                       (.weights, if taint then .unresolved else .ctor),
                                       (.detached, if taint then .unresolved else .ctor)]⟩) :: st.objs }
    else st
  | .newList o => { st with objs := (o, ⟨.list none, []⟩) :: st.objs }
  | .append o v =>
    st.updObj o fun ob => { ob with kind := .list (objOf tbl c st (v.resolve st)) }
  | .newOpt o cls args =>
    if c.isOpt then
      let P := fun (v : V) =>
        if taint || cls != "OptimizerWrapper" then Prov.unresolved else provOf tbl c st (v.resolve st)
      { st with objs := (o, ⟨.optimizer, [(.optCls, P (argOf args "0")), (.optParams, P (argOf args "networks")),
                                          (.optNetworks, P (argOf args "network_names")), (.optLr, P (argOf args "lr_name")),
                                          (.optKwargs, P (argOf args "optimizer_kwargs")),
                                          (.optMultiagent, P (argOf args "multiagent")),
                                          (.optState, if taint then .unresolved else .ctor)]⟩) :: st.objs }
    else st
  | .newAgent _ => { st with baseline := if taint then .unresolved else .ctor, bound := none }
  | .newWrapper _ _ => if c == .wrapperAttr then { st with baseline := if taint then .unresolved else .ctor, bound := none } else st
  | .setattr .name v => { st with bound := some (if taint then .pair .none .none else v.resolve st) }
  | .setattr _ _ => st
  | .store m v => { st with stores := (m, if taint then .pair .none .none else v.resolve st) :: st.stores.filter (fun e => e.1 != m) }
  | .call recv m arg =>
    match objOf tbl c st (recv.resolve st) with
    | some i =>
      let j := st.carrier i
      st.updObj j fun ob =>
        if m == "load_state_dict" && !taint then
          let v := provOf tbl c st (arg.resolve st)
          match ob.kind with
          | .module => { ob with parts := setPart ob.parts .weights v }
          | .optimizer => { ob with parts := setPart ob.parts .optState v }
          | .list _ => ob
        else { ob with parts := ob.parts.map fun q => (q.1, Prov.unresolved) }
    | none => { st with baseline := .unresolved }
  | .fn name args =>
    if name == "load_detached_tensors" then
      match args with
      | [recv, arg] =>
        match objOf tbl c st (recv.resolve st) with
        | some i =>
          st.updObj (st.carrier i) fun ob =>
            { ob with parts := setPart ob.parts .detached (if taint then .unresolved else provOf tbl c st (arg.resolve st)) }
        | none => { st with baseline := .unresolved }
      | _ => { st with baseline := .unresolved }
    else st
  | .hook =>
    if c.isNet then
      match st.bound with
      | some v =>
        match objOf tbl c st v with
        | some i => st.updObj (st.carrier i) fun ob => { ob with parts := setPart ob.parts .detached (if zipped then .unresolved else .hook) }
        | none => st
      | none => st
    else st
  | .raise cls => { st with raised := st.raised.or (some cls) }
  | _ => st

/-- class-independent bookkeeping of a step -/
def globalEffect (tbl : SaveTbl) (st : St) (s : Step) : St :=
  let k := s.dom.kind tbl st
  match s.act with
  | .setattr .name v =>
    match v with
    | .selfAttr _ _ => st
    | _ => if k == .networks then { st with netsBound := true } else st
  | .store m _ =>
    { st with storeKinds := (m, k) :: st.storeKinds.filter (fun e => e.1 != m),
              netsStored := if k == .networks then m :: st.netsStored else st.netsStored }
  | _ => st

def runStep (tbl : SaveTbl) (c : Cls) (st : St) (s : Step) : St :=
  let st1 :=
    if st.raised.isSome || !s.dom.has tbl st c then st
    else
      match guardsHold tbl c st (s.act.payload.map (·.resolve st)) s.guards with
      | some false => st
      | some true => applyAct tbl c false s.zipped st s.act
      | none =>
        match s.act with
        | .raise _ => st             -- a check the tables cannot decide: assumed to pass (listed in `checks`)
        | _ => applyAct tbl c true s.zipped st s.act
  globalEffect tbl st1 s

def run (tbl : SaveTbl) (c : Cls) (steps : List Step) : St := steps.foldl (runStep tbl c) {}

/-- where part `p` of the attribute comes from after the call -/
def restoredPart (tbl : SaveTbl) (c : Cls) (st : St) (p : Part) : Prov :=
  match st.raised with
  | some e => .raised e
  | none =>
    match c with
    | .evolvable _ =>
      match st.bound with
      | none => st.baseline
      | some v =>
        match objOf tbl c st v with
        | some i =>
          match st.obj? (st.carrier i) with
          | some ob => getPart ob.parts p
          | none => .unresolved
        | none => .unresolved
    | _ =>
      if p = .value then
        match st.bound with
        | none => st.baseline
        | some v => provOf tbl c st v
      else .absent

/-- the parts an attribute of that class has -/
def Cls.parts : Cls → List Part
  | .evolvable o =>
    if o.isOptimizer then [.optCls, .optState, .optNetworks, .optLr, .optKwargs, .optMultiagent, .optParams]
    else [.cls, .init, .weights, .detached]
  | _ => [.value]

inductive Outcome where
  | saved                 -- the file holds the saved agent's value of this very part, and it is what the part is restored from
  | other (p : Prov)
deriving DecidableEq, Repr

/-- save ∘ load for one part -/
def roundtrip (tbl : SaveTbl) (c : Cls) (p : Part) (pr : Prov) : Outcome :=
  match c, pr with
  | .evolvable o, .file path perElem =>
    match fileEntry tbl path with
    | some (d, s) => if savedPart tbl o d s = some (p, perElem) then .saved else .other pr
    | none => .other pr
  | .evolvable _, .liveNets true => if p = .optParams then .saved else .other pr
  | .plain, .file [.name] false =>
    -- the generic attribute name: a key no literal of the save code mentions
    if heldAfter (fun _ => true) "" tbl.top .absent = .bulk (.attrs "agent" false) then .saved else .other pr
  | .wrapperAttr, .file [.lit k, .name] false => if isWrapperAttrsKey tbl k then .saved else .other pr
  | _, _ => .other pr

/-! ### the rule table of saving -/

/-- attribute names the save code may mention literally -/
inductive AttrName where
  | generic | accelerator | lrScheduler | networkInfo | agilerlVersion
deriving DecidableEq, Repr

def AttrName.key : AttrName → String
  | .generic => ""
  | .accelerator => "accelerator"
  | .lrScheduler => "lr_scheduler"
  | .networkInfo => "network_info"
  | .agilerlVersion => "agilerl_version"

inductive AKind where
  | evolvable (o : ObjCls)
  | member (name : AttrName) (a : Attr)
deriving DecidableEq, Repr

inductive Saved where
  | byValue (parts : List Part)      -- these parts are in the file, by value (dill)
  | notSaved
  | stateDictIfNotNone               -- replaced by its `state_dict()` when not None
  | shadowed                         -- the key is overwritten by file metadata
  | error (cls : String)             -- `get_checkpoint_dict` raises
deriving DecidableEq, Repr

def ckptRuleOf (tbl : SaveTbl) (keep : Bool → Attr → Bool) : AKind → Saved
  | .evolvable o =>
    match tbl.entries o with
    | .error (.raised c) => .error c
    | .ok es => .byValue (es.filterMap fun e => e.src.part o.isOptimizer o.compiled false)
  | .member name a =>
    if !keep false a then .notSaved
    else
      match heldAfter (fun v => v == .attrs "agent" false) name.key tbl.top .absent with
      | .bulk _ => .byValue [.value]
      | .absent => .notSaved
      | .ifNotNone _ => .stateDictIfNotNone
      | .val _ _ => .shadowed

/-! ### phases -/

inductive Phase where
  | readFile | buildNetworks | setNetworks | hook | loadWeights | loadDetached
  | buildOptimizers | loadOptState | setOptimizers | setAttributes
  | newAgent | setKey (k : String) | ckptSet (k : String) | ckptPop (k : String)
  | check (cls : String) | selfCall (m : String) | agentLoad | buildWrapper | setWrapperAttrs
  | other (what : String)
deriving DecidableEq, Repr

def stepPhase (k : DomKind) : Act → Option Phase
  | .read => some .readFile
  | .construct _ _ _ _ => some (if k == .networks then .buildNetworks else .other "construct")
  | .newOpt _ _ _ => some (if k == .optimizers then .buildOptimizers else .other "newOpt")
  | .newAgent _ => some .newAgent
  | .newWrapper _ _ => some .buildWrapper
  | .agentLoad => some .agentLoad
  | .setattr key _ =>
    match key with
    | .name =>
      some (match k with
            | .networks => .setNetworks
            | .optimizers => .setOptimizers
            | .attrs => .setAttributes
            | .wrapperAttrs => .setWrapperAttrs
            | _ => .other "setattr")
    | .lit s => some (.setKey s)
    | .suffixed s => some (.other ("setattr" ++ s))
  | .call _ m _ =>
    some (if m == "load_state_dict" then
            (match k with
             | .networks => .loadWeights
             | .optimizers => .loadOptState
             | _ => .other m)
          else .other m)
  | .fn n _ => if n == "load_detached_tensors" then some .loadDetached else none
  | .hook => some .hook
  | .selfCall m => some (.selfCall m)
  | .ckptSet k _ => some (.ckptSet k)
  | .ckptPop k => some (.ckptPop k)
  | .raise cls => some (.check cls)
  | _ => none

/-- the phases of a load path in execution order: one entry per act outside the loops, the distinct acts of a loop
    in order of first occurrence -/
def phases (tbl : SaveTbl) (steps : List Step) : List Phase :=
  let r := steps.foldl (fun (acc : St × List (Nat × Phase)) s =>
      let k := s.dom.kind tbl acc.1
      (globalEffect tbl acc.1 s,
       match stepPhase k s.act with
       | some p => if s.loop != 0 && acc.2.contains (s.loop, p) then acc.2 else acc.2 ++ [(s.loop, p)]
       | none => acc.2)) (({} : St), [])
  r.2.map (·.2)
'''

DERIVED = r'''
/-! ## derived definitions (fixed text over the generated tables) -/

def tbl : SaveTbl := ⟨save_entries, save_names, save_top, wrapper_save_top⟩

/-- THE RULE TABLE OF SAVING: attribute kind → saved by value (which parts) / not saved -/
def ckptRule : AKind → Saved := ckptRuleOf tbl inspect_keep

inductive LoadPath where
  | inplace            -- `agent.load_checkpoint(path)`
  | new                -- `Algo.load(path)`
  | wrapperInplace     -- `wrapper.load_checkpoint(path)`: the agent's in-place path spliced in at `self.agent.load_checkpoint`
deriving DecidableEq, Repr

def wrapper_inplace_steps : List Step :=
  wrapper_load_checkpoint_steps.flatMap fun s =>
    match s.act with
    | .agentLoad => load_checkpoint_steps
    | _ => [{ s with loop := if s.loop == 0 then 0 else s.loop + 100 }]

def stepsOf : LoadPath → List Step
  | .inplace => load_checkpoint_steps
  | .new => load_steps
  | .wrapperInplace => wrapper_inplace_steps

/-- where part `part` of an attribute of class `c` comes from after loading by path `p` -/
def restored (p : LoadPath) (c : Cls) (part : Part) : Prov := restoredPart tbl c (run tbl c (stepsOf p)) part

/-- save ∘ load: `.saved` iff the part is restored from the file entry that holds the saved agent's value of it -/
def fate (p : LoadPath) (c : Cls) (part : Part) : Outcome := roundtrip tbl c part (restored p c part)

def load_checkpoint_phases : List Phase := phases tbl load_checkpoint_steps
def load_phases : List Phase := phases tbl load_steps
def wrapper_load_checkpoint_phases : List Phase := phases tbl wrapper_load_checkpoint_steps

/-- WRAPPER MERGE ORDER: what the file of a wrapped agent holds under key `k` (`agentHas`: the inner agent has an
    attribute of that name, e.g. left there by an earlier `load_checkpoint`) -/
def wrapper_file (agentHas : Bool) (k : String) : Held :=
  heldAfter (fun v => match v with
                      | .ckptDict _ => agentHas
                      | _ => true) k wrapper_save_top .absent
'''


def helper_signatures(tree: ast.Module) -> list[tuple[str, list[str]]]:
    out = []
    for h in HELPERS:
        out.append((h, params_of(find_function(tree, h))))
    return out


def render_steps(name: str, doc: str, steps: list[str]) -> list[str]:
    out = [f"/-- {doc} -/", f"def {name} : List Step := ["]
    out += ["  " + s + ("," if i < len(steps) - 1 else "") for i, s in enumerate(steps)]
    return out + ["]", ""]


def render_ops(name: str, doc: str, ops: list) -> list[str]:
    out = [f"/-- {doc} -/", f"def {name} : List DictOp := ["]
    out += ["  " + dictop_lean(o) + ("," if i < len(ops) - 1 else "") for i, o in enumerate(ops)]
    return out + ["]", ""]


def translate(repo: Path) -> tuple[str, str]:
    '''returns (lean text, sha256 over the three source files); raises Unsupported'''
    h = hashlib.sha256()
    trees = {}
    for rel in REL_SOURCES:
        path = Path(repo) / rel
        try:
            raw = path.read_bytes()
        except OSError as e:
            raise Unsupported(f"cannot read {path}: {e}") from e
        h.update(rel.encode() + b"\0" + raw + b"\0")
        try:
            trees[rel] = ast.parse(raw.decode("utf-8"))
        except SyntaxError as e:
            raise Unsupported(f"{rel}:{e.lineno}: not parseable: {e.msg}") from e
    sha = h.hexdigest()
    try:
        Ctx.rel = REL_BASE
        base = trees[REL_BASE]
        gcd = DictBuilder(find_function(base, "get_checkpoint_dict"), True).run()
        if gcd.tree is None:
            raise Unsupported(f"{REL_BASE}: get_checkpoint_dict has no loop over agent.evolvable_attributes()")
        insp_fn = find_method(base, "EvolvableAlgorithm", "inspect_attributes")
        if decorators_of(insp_fn) != ["staticmethod"]:
            fail(insp_fn, "decorators of inspect_attributes (expected @staticmethod)")
        insp = InspectFilter(insp_fn)
        keep = insp.run()
        sv_fn = find_method(base, "EvolvableAlgorithm", "save_checkpoint")
        sv = DictBuilder(sv_fn, False).run()
        lc_fn = find_method(base, "EvolvableAlgorithm", "load_checkpoint")
        ld_fn = find_method(base, "EvolvableAlgorithm", "load")
        if decorators_of(lc_fn) or decorators_of(sv_fn):
            fail(lc_fn, "decorated save_checkpoint / load_checkpoint")
        if decorators_of(ld_fn) != ["classmethod"]:
            fail(ld_fn, "decorators of load (expected @classmethod)")
        lc = LoadExec(lc_fn, False).run()
        ld = LoadExec(ld_fn, True).run()
        Ctx.rel = REL_WRAP
        wrap = trees[REL_WRAP]
        wsv_fn = find_method(wrap, "AgentWrapper", "save_checkpoint")
        wlc_fn = find_method(wrap, "AgentWrapper", "load_checkpoint")
        if decorators_of(wsv_fn) or decorators_of(wlc_fn):
            fail(wsv_fn, "decorated AgentWrapper.save_checkpoint / load_checkpoint")
        wsv = DictBuilder(wsv_fn, False).run()
        wlc = LoadExec(wlc_fn, False, wrapper=True).run()
        Ctx.rel = REL_UTIL
        sigs = helper_signatures(trees[REL_UTIL])
    except RecursionError as e:
        raise Unsupported(f"{Ctx.rel}: expression nested too deeply") from e
    if len(sv.result) != 1 or sv.result[0][0] != "bulk":
        raise Unsupported(f"{REL_BASE}: EvolvableAlgorithm.save_checkpoint does not save one dict")
    g: list[str] = ["", "/-! ## generated from the source -/", ""]
    g += [f"/-- `get_checkpoint_dict`: the entries written for one evolvable attribute whose value is `obj` "
          f"(loop `for {gcd.attr_var} in {gcd.agent_var}.evolvable_attributes()`) -/",
          "def save_entries (obj : ObjCls) : Except Exn (List Entry) :="]
    g += tree_lean(gcd.tree, "  ") + [""]
    g += ["/-- `get_checkpoint_dict`: the name lists stored in the nested dict -/",
          "def save_names : List (String × NameSel) := " +
          llist(f"({lstr(k)}, ⟨{lbool(n)}, {'none' if c is None else 'some ' + llist(map(lstr, c))}⟩)" for k, n, c in gcd.names), ""]
    g += render_ops("save_top", "`get_checkpoint_dict`: operations on the dict it returns, in source order", gcd.result)
    g += [f"/-- `EvolvableAlgorithm.inspect_attributes({insp.agent}, {insp.flag})`: is the member `a` in the result? -/",
          f"def inspect_keep ({insp.flag} : Bool) (a : Attr) : Bool :=", "  " + keep, ""]
    g += ["/-- `EvolvableAlgorithm.save_checkpoint`: what is handed to `torch.save`, and the pickle module -/",
          f"def save_checkpoint_value : TopVal := {topval_lean(sv.result[0][1])}",
          f"def save_checkpoint_pickle : String := {lstr(sv.pickle)}", ""]
    g += render_ops("wrapper_save_top", "`AgentWrapper.save_checkpoint`: operations on the dict it saves, in source order "
                    "(DICT-MERGE ORDER = list order)", wsv.result)
    g += [f"def wrapper_save_pickle : String := {lstr(wsv.pickle)}", ""]
    g += render_steps("load_checkpoint_steps", "`EvolvableAlgorithm.load_checkpoint` (in-place path)", lc)
    g += render_steps("load_steps", "`EvolvableAlgorithm.load` (new-agent path, classmethod)", ld)
    g += render_steps("wrapper_load_checkpoint_steps", "`AgentWrapper.load_checkpoint`", wlc)
    g += ["/-- parameter lists of the helpers whose contracts the prelude assumes (agilerl/utils/algo_utils.py) -/",
          "def helper_signatures : List (String × List String) := " +
          llist(f"({lstr(n)}, {llist(map(lstr, ps))})" for n, ps in sigs), ""]
    header = "\n".join([
        "/-",
        "  Gen/CkptGen.lean — GENERATED by harness/py2lean_ckpt.py from the checkpoint code of AgileRL:",
        f"  get_checkpoint_dict, EvolvableAlgorithm.{{inspect_attributes, save_checkpoint, load_checkpoint, load}} ({REL_BASE}),",
        f"  AgentWrapper.{{save_checkpoint, load_checkpoint}} ({REL_WRAP}), helper signatures ({REL_UTIL});",
        "  do not edit.  Core Lean only.  The part up to `generated from the source` is a fixed prelude: the assumed",
        "  Python / AgileRL semantics and a small evaluator of guarded steps.  NOT translated: tensors, numerics, pickling",
        "  (dill = by value), bodies of the helpers, mutation hooks, accelerator / torch.compile wrapping.",
        "  `Proofs/CkptGenEq.lean` proves the tables below equal to the explicit tables of `Model/HeapCkpt.lean`.",
        "-/",
        SHA_PREFIX + sha,
        "set_option linter.unusedVariables false",
        "",
        "namespace CkptGen",
    ])
    text = header + "\n" + PRELUDE.rstrip("\n") + "\n" + "\n".join(g).rstrip() + "\n" + DERIVED.rstrip("\n") + "\n\nend CkptGen\n"
    return text, sha


def strip_sha(text: str) -> str:
    return "\n".join(ln for ln in text.split("\n") if not ln.startswith(SHA_PREFIX))


def write_if_changed(text: str, out: Path, force: bool = False) -> bool:
    '''writes `text` unless the file already holds the same translation (sha line ignored)'''
    out = Path(out)
    old = out.read_text() if out.exists() else None
    if old is not None and not force and strip_sha(old) == strip_sha(text):
        return False
    if old == text:
        return False
    out.parent.mkdir(parents=True, exist_ok=True)
    tmp = out.with_suffix(".lean.tmp")
    tmp.write_text(text)
    os.replace(tmp, out)
    return True


def main(argv: list[str]) -> int:
    import argparse
    ap = argparse.ArgumentParser()
    ap.add_argument("--repo", default=None)
    ap.add_argument("--out", default=str(DEFAULT_OUT))
    ap.add_argument("--stdout", action="store_true")
    ap.add_argument("--force", action="store_true", help="rewrite even if only the sha256 line differs")
    a = ap.parse_args(argv)
    try:
        text, sha = translate(repo_dir(a.repo))
    except Unsupported as e:
        print(f"py2lean_ckpt: {e}", file=sys.stderr)
        return 1
    if a.stdout:
        sys.stdout.write(text)
        return 0
    changed = write_if_changed(text, Path(a.out), a.force)
    print(f"{a.out}: {'written' if changed else 'unchanged'} (source sha256 {sha[:16]}…, "
          f"translation sha256 {hashlib.sha256(strip_sha(text).encode()).hexdigest()[:16]}…)")
    return 0


if __name__ == "__main__":
    sys.exit(main(sys.argv[1:]))
