#!/usr/bin/env python3
"""
py2lean_ckpthelp.py — translate the CHECKPOINT HELPERS of AgileRL from the *source text* into Lean 4:

    agilerl/utils/algo_utils.py   get_detached_tensors, load_detached_tensors, remove_compile_prefix

    python3 harness/py2lean_ckpthelp.py [--repo DIR] [--out FILE] [--stdout] [--force]

Python `ast` only (agilerl / torch are never imported).  Writes lean/Gen/CkptHelpGen.lean (namespace CkptHelpGen,
core Lean only, imports nothing).  `Proofs/CkptHelpGenEq.lean` proves every generated function equal to the
hand-written model (`Model/HeapCkpt.lean`, namespace `HeapCkpt.Mod`: `getDetached`, `loadDetached`,
`removeCompilePrefix`) for all inputs; `Props/C07.lean` restates the helper theorems over the generated definitions
(`C07_source_translation_helpers_*`).  The control structure of the callers (`get_checkpoint_dict`, `load_checkpoint`,
`load`: hook BEFORE `load_state_dict` BEFORE `load_detached_tensors`) is translated by py2lean_ckpt.py.

Values and their Lean types (fixed prelude of the output; the prelude does not depend on the source)
    str                       `Name`  = `List Char`; a literal becomes a list of character literals
    tensor                    `Tensor` = (shape : List Nat) × (contents id : Nat) — contents are only moved
    value in `vars()` / dict  `Val`   = `Option Tensor` (`none`: anything that is not a tensor)
    sub-module                `Sub`   = (tensors `state_dict()` lists for it by name, `vars(sub).items()`)
    module                    `Obj`   = (`isinstance(·, OptimizedModule)`, `named_modules()` of the uncompiled module:
                                         dotted prefix ↦ `Sub`, root first)
    dict                      `Dict α` = insertion-ordered association list; `Optional[dict]` = `Option (Dict Val)`
    a function that can raise  `Except Exn …`
Typing is by binding form: parameters by NAME of their annotation (`Module` → Obj, `Optional[Dict[...]]` → optional
dict, `Dict[...]` → dict), loop targets by the iterable (`X.named_modules()` → (str, Sub); `vars(S).items()` →
(str, Val); `D.items()` → (str, Val) or (str, α)), `k.rpartition(c)` → three str, f-strings → str,
`getattr(S, n, None)` → Val, `{}` → dict.

Supported subset
  statements   docstring; `x = e` (re-binding allowed); `a, b, c = k.rpartition("c")` (`_` allowed);
               `d[k] = e` on a local dict; `for a, b in <iterable>:` (nested); `if c:` without else inside loops;
               `if not d: return` as a guard at the top of a function that returns nothing; `with torch.no_grad():`
               (transparent); `cur.copy_(v)` where `cur` was bound by `getattr(M.get_submodule(P), N, None)` (becomes
               an in-place write at (P, N) of M, `pyCopyInto`); `return e` as last statement.
  expressions  names; string literals; `a if c else b`; `not`, `and`; `isinstance(x, OptimizedModule)`,
               `isinstance(v, torch.Tensor)` (narrows `v` in the rest of the conjunction and in the guarded branch);
               `x._orig_mod`; `s.startswith("lit")`; truth value of a str / an optional dict; f-strings of names and
               literals; `v.detach().clone()` (identity on values, only on a narrowed tensor); `a.shape == b.shape`;
               `k.split("c", 1)[i]` (IndexError → `.error`); tuples `(a, b)` as elements of a list comprehension;
               `[e for k, v in D.items()]` with e = tuple or `t1 if c else t2`; `OrderedDict(<list>)` / `dict(<list>)`;
               `M.get_submodule(p)` (AttributeError → `.error`), `getattr(S, n, None)`.
  Every operator, constant, condition, statement order and loop nesting flows from the AST into the output.
  Locals are renamed canonically (`a<i>` parameters, `v<i>` in order of first binding), so renaming a local does not
  change the text.  Anything else raises `Unsupported` naming the construct and the line.

Shape of the output:  one `def <python name> …` per function.  A `for` loop is a `List.foldl` (or `List.foldlM` in
`Except Exn` when the body can raise) over the iterable, carrying THE variable the body mutates (a dict by `d[k] = e`,
the module by `copy_`); a function that returns nothing returns the final state of its module parameter.

Assumptions (in the prelude / header of the generated file)
  * torch: `named_modules()` lists every sub-module once under its dotted path, root first with prefix ""; a compiled
    module lists the same under `_orig_mod`; `state_dict()` keys are `prefix.name`; `get_submodule` resolves the same
    dotted paths; `getattr(sub, n, None)` looks in the instance `__dict__` first, then in parameters / buffers;
    `Tensor.copy_` under `no_grad` overwrites the contents in place, `.detach().clone()` copies them;
  * entries of `detached` are tensors or non-tensors (`Val`); `value.shape` of a non-tensor compares unequal instead
    of raising AttributeError (entries come from `get_detached_tensors`, which stores tensors only);
  * non-persistent buffers are not modelled (no module of /repo registers one; the harness's independent walk lists
    all `_buffers`).
The header carries the sha256 of the source file; `write_if_changed` compares everything *but* that line.
"""
from __future__ import annotations

import ast
import hashlib
import os
import sys
from pathlib import Path

HERE = Path(__file__).resolve().parent
DEFAULT_OUT = HERE.parent / "lean" / "Gen" / "CkptHelpGen.lean"
REL_SOURCE = "agilerl/utils/algo_utils.py"
SHA_PREFIX = "-- sha256(source) = "
FUNCS = ("get_detached_tensors", "load_detached_tensors", "remove_compile_prefix")


class Unsupported(Exception):
    pass


def repo_dir(arg: str | None = None) -> Path:
    if arg:
        return Path(arg)
    return Path(os.environ.get("VERIF_REPO", "/repo"))


def fail(node, what: str):
    line = getattr(node, "lineno", "?")
    raise Unsupported(f"{REL_SOURCE}:{line}: unsupported construct: {what}")


def chars(s: str) -> str:
    out = []
    for c in s:
        if c == "'":
            out.append("'\\''")
        elif c == "\\":
            out.append("'\\\\'")
        elif c == "\n":
            out.append("'\\n'")
        elif " " <= c <= "~":
            out.append(f"'{c}'")
        else:
            raise Unsupported(f"{REL_SOURCE}: non-ASCII character in a string literal")
    return "[" + ",".join(out) + "]"


def dotted(node) -> str | None:
    if isinstance(node, ast.Name):
        return node.id
    if isinstance(node, ast.Attribute):
        b = dotted(node.value)
        return None if b is None else b + "." + node.attr
    return None


# types: "obj" "sub" "str" "val" "tensor" (narrowed val) "dict" "optdict" "pairs" "bool" "dictA" (dict of arbitrary α)
class Var:
    def __init__(self, lean: str, ty: str, prov=None):
        self.lean, self.ty, self.prov = lean, ty, prov


class Fn:
    """translation of one function body"""

    def __init__(self, fdef: ast.FunctionDef):
        self.fdef = fdef
        self.nlocal = 0
        self.nres = 0
        self.fallible = False

    def fresh(self) -> str:
        self.nlocal += 1
        return f"v{self.nlocal - 1}"

    def res(self) -> str:
        self.nres += 1
        return f"r{self.nres - 1}"

    # ------------------------------------------------------------------ expressions
    # expr() returns (lean text, type, binds) where binds = list of (result name, fallible lean expr) to be
    # matched before the expression is evaluated (Python evaluation order)
    def expr(self, e, env, narrowed=frozenset()):
        if isinstance(e, ast.Name):
            if e.id not in env:
                fail(e, f"name `{e.id}` that is not a parameter or local")
            v = env[e.id]
            ty = "tensor" if (v.ty == "val" and e.id in narrowed) else v.ty
            return v.lean, ty, []
        if isinstance(e, ast.Constant) and isinstance(e.value, str):
            return chars(e.value), "str", []
        if isinstance(e, ast.IfExp):
            c, cb = self.cond(e.test, env, narrowed)
            a, ta, ba = self.expr(e.body, env, narrowed)
            b, tb, bb = self.expr(e.orelse, env, narrowed)
            if ba or bb:
                fail(e, "a call that can raise inside a conditional expression")
            if ta != tb:
                fail(e, f"conditional expression with branches of different kinds ({ta} / {tb})")
            return f"(if {c} then {a} else {b})", ta, cb
        if isinstance(e, ast.Attribute) and e.attr == "_orig_mod":
            x, tx, bx = self.expr(e.value, env, narrowed)
            if tx != "obj":
                fail(e, "`._orig_mod` of something that is not a module")
            return f"(pyOrigMod {x})", "obj", bx
        if isinstance(e, ast.JoinedStr):
            parts, binds = [], []
            for p in e.values:
                if isinstance(p, ast.Constant) and isinstance(p.value, str):
                    parts.append(chars(p.value))
                elif isinstance(p, ast.FormattedValue) and p.conversion == -1 and p.format_spec is None:
                    x, tx, bx = self.expr(p.value, env, narrowed)
                    if tx != "str":
                        fail(p, "f-string field that is not a str")
                    parts.append(x)
                    binds += bx
                else:
                    fail(p, "f-string field with conversion / format spec")
            if not parts:
                return "[]", "str", binds
            return "(" + " ++ ".join(parts) + ")", "str", binds
        if isinstance(e, ast.Tuple) and len(e.elts) == 2:
            a, ta, ba = self.expr(e.elts[0], env, narrowed)
            b, tb, bb = self.expr(e.elts[1], env, narrowed)
            if ta != "str":
                fail(e, "pair whose first component is not a str")
            return f"({a}, {b})", "pair", ba + bb
        if isinstance(e, ast.Dict) and not e.keys:
            return "([] : Dict Val)", "dict", []
        if isinstance(e, ast.Subscript):
            # k.split("c", 1)[i]
            v = e.value
            if (isinstance(v, ast.Call) and isinstance(v.func, ast.Attribute) and v.func.attr == "split"
                    and len(v.args) == 2 and not v.keywords and isinstance(e.slice, ast.Constant)
                    and isinstance(e.slice.value, int) and e.slice.value >= 0):
                s, ts, bs = self.expr(v.func.value, env, narrowed)
                sep, n = v.args
                if ts != "str" or not (isinstance(sep, ast.Constant) and isinstance(sep.value, str) and len(sep.value) == 1):
                    fail(e, "`split` with a separator that is not a one-character literal")
                if not (isinstance(n, ast.Constant) and n.value == 1):
                    fail(e, "`split` with maxsplit other than 1")
                r = self.res()
                self.fallible = True
                return r, "str", bs + [(r, f"pyIndex (pySplit1 {s} {chars(sep.value)[1:-1]}) {e.slice.value}")]
            fail(e, "subscript")
        if isinstance(e, ast.Call):
            return self.call(e, env, narrowed)
        fail(e, type(e).__name__)

    def call(self, e: ast.Call, env, narrowed):
        f = e.func
        name = dotted(f)
        if e.keywords:
            fail(e, "keyword arguments")
        # v.detach().clone()
        if (isinstance(f, ast.Attribute) and f.attr == "clone" and not e.args and isinstance(f.value, ast.Call)
                and isinstance(f.value.func, ast.Attribute) and f.value.func.attr == "detach" and not f.value.args):
            x, tx, bx = self.expr(f.value.func.value, env, narrowed)
            if tx != "tensor":
                fail(e, "`.detach().clone()` of a value not known to be a tensor (no enclosing isinstance test)")
            return x, "val", bx
        if name == "getattr" and len(e.args) == 3:
            s, ts, bs = self.expr(e.args[0], env, narrowed)
            n, tn, bn = self.expr(e.args[1], env, narrowed)
            if not (isinstance(e.args[2], ast.Constant) and e.args[2].value is None):
                fail(e, "getattr with a default other than None")
            if ts != "sub" or tn != "str":
                fail(e, "getattr on something that is not a sub-module / with a name that is not a str")
            return f"(pyGetattr {s} {n})", "val", bs + bn
        if isinstance(f, ast.Attribute) and f.attr == "get_submodule" and len(e.args) == 1:
            m, tm, bm = self.expr(f.value, env, narrowed)
            p, tp, bp = self.expr(e.args[0], env, narrowed)
            if tm != "obj" or tp != "str":
                fail(e, "get_submodule on something that is not a module / with a path that is not a str")
            r = self.res()
            self.fallible = True
            self.last_submodule = (r, f.value.id if isinstance(f.value, ast.Name) else None, p)
            return r, "sub", bm + bp + [(r, f"pyGetSubmodule {m} {p}")]
        if name in ("OrderedDict", "dict") and len(e.args) == 1:
            x, tx, bx = self.expr(e.args[0], env, narrowed)
            if tx != "pairs":
                fail(e, f"`{name}(…)` of something that is not a list of pairs")
            return f"(pyDictOf {x})", "dictA", bx
        fail(e, f"call of `{name or ast.dump(f)[:40]}`")

    def cond(self, e, env, narrowed=frozenset()):
        """boolean expression -> (lean Bool text, binds); also returns nothing about narrowing (see narrow())"""
        if isinstance(e, ast.UnaryOp) and isinstance(e.op, ast.Not):
            c, b = self.cond(e.operand, env, narrowed)
            return f"(!{c})", b
        if isinstance(e, ast.BoolOp) and isinstance(e.op, ast.And):
            out, binds, nar = [], [], set(narrowed)
            for v in e.values:
                c, b = self.cond(v, env, frozenset(nar))
                if b and out:
                    fail(v, "a call that can raise after the first operand of `and` (short-circuit not modelled)")
                out.append(c)
                binds += b
                nar |= self.narrow(v)
            return "(" + " && ".join(out) + ")", binds
        if isinstance(e, ast.Call) and dotted(e.func) == "isinstance" and len(e.args) == 2 and not e.keywords:
            x, tx, bx = self.expr(e.args[0], env, narrowed)
            cls = dotted(e.args[1])
            if cls == "OptimizedModule" and tx == "obj":
                return f"(pyIsOptimizedModule {x})", bx
            if cls == "torch.Tensor" and tx in ("val", "tensor"):
                return f"(pyIsTensor {x})", bx
            fail(e, f"isinstance test against `{cls}` of a {tx}")
        if isinstance(e, ast.Call) and isinstance(e.func, ast.Attribute) and e.func.attr == "startswith" \
                and len(e.args) == 1 and not e.keywords:
            s, ts, bs = self.expr(e.func.value, env, narrowed)
            p, tp, bp = self.expr(e.args[0], env, narrowed)
            if ts != "str" or tp != "str":
                fail(e, "startswith on / with something that is not a str")
            return f"(pyStartsWith {s} {p})", bs + bp
        if isinstance(e, ast.Compare) and len(e.ops) == 1 and isinstance(e.ops[0], (ast.Eq, ast.NotEq)):
            l, r = e.left, e.comparators[0]
            if all(isinstance(x, ast.Attribute) and x.attr == "shape" for x in (l, r)):
                a, ta, ba = self.expr(l.value, env, narrowed)
                b, tb, bb = self.expr(r.value, env, narrowed)
                if ta not in ("val", "tensor") or tb not in ("val", "tensor"):
                    fail(e, "`.shape` of something that is not a value")
                if "tensor" not in (ta, tb):
                    fail(e, "`.shape` comparison where neither side is known to be a tensor")
                op = "==" if isinstance(e.ops[0], ast.Eq) else "!="
                return f"(pyShape {a} {op} pyShape {b})", ba + bb
            fail(e, "comparison other than of two `.shape`s")
        if isinstance(e, ast.Name):
            x, tx, _ = self.expr(e, env, narrowed)
            if tx == "str":
                return f"(pyTruthy {x})", []
            if tx == "optdict":
                return f"(pyOptDictTruthy {x})", []
            if tx == "dict":
                return f"(pyDictTruthy {x})", []
            fail(e, f"truth value of a {tx}")
        fail(e, f"condition {type(e).__name__}")

    def narrow(self, e) -> set:
        """names known to be tensors when `e` is true"""
        if isinstance(e, ast.Call) and dotted(e.func) == "isinstance" and len(e.args) == 2 \
                and dotted(e.args[1]) == "torch.Tensor" and isinstance(e.args[0], ast.Name):
            return {e.args[0].id}
        if isinstance(e, ast.BoolOp) and isinstance(e.op, ast.And):
            s = set()
            for v in e.values:
                s |= self.narrow(v)
            return s
        return set()

    # ------------------------------------------------------------------ statements
    def wrap(self, binds, inner: str, ind: str, fallible_ctx: bool) -> str:
        """bind fallible sub-expressions (in order) around `inner`"""
        if binds and not fallible_ctx:
            raise Unsupported(f"{REL_SOURCE}: internal: fallible expression in a context that cannot raise")
        out = inner
        for r, ex in reversed(binds):
            out = f"match {ex} with\n{ind}| .error e => .error e\n{ind}| .ok {r} =>\n{ind}  " + out.replace("\n", "\n  ")
        return out

    def mutated(self, stmts, env) -> list:
        """names of outer variables the statements mutate / re-bind, in order of first occurrence"""
        out = []

        def add(n):
            if n in env and n not in out:
                out.append(n)
        local_prov = {}
        for s in ast.walk(ast.Module(body=list(stmts), type_ignores=[])):
            if isinstance(s, ast.Assign):
                for t in s.targets:
                    if isinstance(t, ast.Subscript) and isinstance(t.value, ast.Name):
                        add(t.value.id)
                    elif isinstance(t, ast.Name):
                        add(t.id)
                        v = s.value
                        if (isinstance(v, ast.Call) and dotted(v.func) == "getattr" and v.args
                                and isinstance(v.args[0], ast.Call) and isinstance(v.args[0].func, ast.Attribute)
                                and v.args[0].func.attr == "get_submodule" and isinstance(v.args[0].func.value, ast.Name)):
                            local_prov[t.id] = v.args[0].func.value.id
            elif isinstance(s, ast.Expr) and isinstance(s.value, ast.Call) and isinstance(s.value.func, ast.Attribute) \
                    and s.value.func.attr == "copy_" and isinstance(s.value.func.value, ast.Name):
                cid = s.value.func.value.id
                if cid in local_prov:
                    add(local_prov[cid])
                elif cid in env and env[cid].prov is not None:
                    add(env[cid].prov[0])
                else:
                    add(cid)
        return out

    def can_raise(self, stmts) -> bool:
        for s in ast.walk(ast.Module(body=list(stmts), type_ignores=[])):
            if isinstance(s, ast.Call) and isinstance(s.func, ast.Attribute) and s.func.attr in ("get_submodule",):
                return True
            if isinstance(s, ast.Subscript) and isinstance(s.ctx, ast.Load) and isinstance(s.value, ast.Call):
                return True
        return False

    def block(self, stmts, env, carried: str | None, ind: str, fallible_ctx: bool, narrowed=frozenset(),
              tail=None) -> str:
        """translate a statement list; the value of the block is the final state of `carried` (or `tail`)"""
        if not stmts:
            if tail is not None:
                return tail(env)
            val = env[carried].lean
            return f".ok {val}" if fallible_ctx else val
        s, rest = stmts[0], stmts[1:]
        nxt = lambda env2: self.block(rest, env2, carried, ind, fallible_ctx, narrowed, tail)
        if isinstance(s, ast.Expr) and isinstance(s.value, ast.Constant) and isinstance(s.value.value, str):
            return nxt(env)
        if isinstance(s, ast.With):
            if not (len(s.items) == 1 and dotted(s.items[0].context_expr.func if isinstance(s.items[0].context_expr, ast.Call) else None) == "torch.no_grad"
                    and s.items[0].optional_vars is None):
                fail(s, "`with` other than `with torch.no_grad():`")
            return self.block(list(s.body) + list(rest), env, carried, ind, fallible_ctx, narrowed, tail)
        if isinstance(s, ast.Assign) and len(s.targets) == 1:
            t = s.targets[0]
            if isinstance(t, ast.Name):
                prov = None
                v = s.value
                if isinstance(v, ast.Call) and dotted(v.func) == "getattr" and len(v.args) == 3 and \
                        isinstance(v.args[0], ast.Call) and isinstance(v.args[0].func, ast.Attribute) and \
                        v.args[0].func.attr == "get_submodule" and isinstance(v.args[0].func.value, ast.Name):
                    self.last_submodule = None
                x, tx, bx = self.expr(v, env, narrowed)
                if isinstance(v, ast.Call) and dotted(v.func) == "getattr" and getattr(self, "last_submodule", None):
                    _, mod_name, path = self.last_submodule
                    n, _, _ = self.expr(v.args[1], env, narrowed)
                    prov = (mod_name, path, n)
                nm = self.fresh()
                env2 = dict(env)
                env2[t.id] = Var(nm, "val" if tx == "tensor" else tx, prov)
                inner = f"let {nm} := {x}\n{ind}" + self.block(rest, env2, carried, ind, fallible_ctx, narrowed - {t.id}, tail)
                return self.wrap(bx, inner, ind, fallible_ctx)
            if isinstance(t, ast.Tuple) and isinstance(s.value, ast.Call) and isinstance(s.value.func, ast.Attribute) \
                    and s.value.func.attr == "rpartition" and len(s.value.args) == 1 and len(t.elts) == 3:
                k, tk, bk = self.expr(s.value.func.value, env, narrowed)
                sep = s.value.args[0]
                if tk != "str" or not (isinstance(sep, ast.Constant) and isinstance(sep.value, str) and len(sep.value) == 1):
                    fail(s, "rpartition of a non-str / with a separator that is not a one-character literal")
                tn = self.fresh()
                env2 = dict(env)
                lets = [f"let {tn} := pyRpartition {k} {chars(sep.value)[1:-1]}"]
                for el, proj in zip(t.elts, (f"{tn}.1", f"{tn}.2.1", f"{tn}.2.2")):
                    if not isinstance(el, ast.Name):
                        fail(s, "unpacking target that is not a name")
                    if el.id == "_":
                        continue
                    nm = self.fresh()
                    env2[el.id] = Var(nm, "str")
                    lets.append(f"let {nm} := {proj}")
                inner = f"\n{ind}".join(lets) + f"\n{ind}" + nxt(env2)
                return self.wrap(bk, inner, ind, fallible_ctx)
            if isinstance(t, ast.Subscript) and isinstance(t.value, ast.Name):
                d = t.value.id
                if d not in env or env[d].ty != "dict":
                    fail(s, "item assignment into something that is not a local dict")
                if d != carried:
                    fail(s, f"item assignment into `{d}`, which is not the variable the enclosing loop carries")
                k, tk, bk = self.expr(t.slice, env, narrowed)
                x, tx, bx = self.expr(s.value, env, narrowed)
                if tk != "str" or tx not in ("val", "tensor"):
                    fail(s, "dict item that is not str ↦ value")
                nm = self.fresh()
                env2 = dict(env)
                env2[d] = Var(nm, "dict")
                inner = f"let {nm} := pyDictSet {env[d].lean} {k} {x}\n{ind}" + nxt(env2)
                return self.wrap(bx + bk, inner, ind, fallible_ctx)
            fail(s, "assignment target")
        if isinstance(s, ast.Expr) and isinstance(s.value, ast.Call) and isinstance(s.value.func, ast.Attribute) \
                and s.value.func.attr == "copy_" and len(s.value.args) == 1 and isinstance(s.value.func.value, ast.Name):
            cur = s.value.func.value.id
            if cur not in env or env[cur].prov is None:
                fail(s, "`copy_` into a tensor that was not bound by `getattr(M.get_submodule(P), N, None)`")
            if cur not in narrowed:
                fail(s, "`copy_` into a value not known to be a tensor (no enclosing isinstance test)")
            mod_name, path, n = env[cur].prov
            if mod_name != carried:
                fail(s, f"`copy_` into a tensor of `{mod_name}`, which is not the variable the enclosing loop carries")
            x, tx, bx = self.expr(s.value.args[0], env, narrowed)
            if tx not in ("val", "tensor"):
                fail(s, "`copy_` of something that is not a value")
            nm = self.fresh()
            env2 = dict(env)
            env2[mod_name] = Var(nm, "obj")
            inner = f"let {nm} := pyCopyInto {env[mod_name].lean} {path} {n} {x}\n{ind}" + nxt(env2)
            return self.wrap(bx, inner, ind, fallible_ctx)
        if isinstance(s, ast.If) and not s.orelse:
            c, bc = self.cond(s.test, env, narrowed)
            mut = self.mutated(s.body, env)
            if any(m != carried for m in mut):
                fail(s, f"`if` whose body changes {mut}, not only the carried variable `{carried}`")
            nar = narrowed | frozenset(self.narrow(s.test))
            ind2 = ind + "  "
            body_tail = self.block(list(s.body) + list(rest), env, carried, ind2, fallible_ctx, nar, tail)
            else_tail = self.block(list(rest), env, carried, ind2, fallible_ctx, narrowed, tail)
            inner = f"if {c} then\n{ind2}{body_tail}\n{ind}else\n{ind2}{else_tail}"
            return self.wrap(bc, inner, ind, fallible_ctx)
        if isinstance(s, ast.For) and not s.orelse:
            return self.loop(s, rest, env, carried, ind, fallible_ctx, narrowed, tail)
        fail(s, type(s).__name__)

    def iterable(self, it, env):
        """-> (lean list text, type of first target, type of second target)"""
        if isinstance(it, ast.Call) and isinstance(it.func, ast.Attribute) and not it.args and not it.keywords:
            if it.func.attr == "named_modules":
                m, tm, bm = self.expr(it.func.value, env)
                if tm != "obj" or bm:
                    fail(it, "named_modules() of something that is not a module")
                return f"(pyNamedModules {m})", "str", "sub"
            if it.func.attr == "items":
                v = it.func.value
                if isinstance(v, ast.Call) and dotted(v.func) == "vars" and len(v.args) == 1:
                    s, ts, bs = self.expr(v.args[0], env)
                    if ts != "sub" or bs:
                        fail(it, "vars() of something that is not a sub-module")
                    return f"(pyVars {s})", "str", "val"
                d, td, bd = self.expr(v, env)
                if bd:
                    fail(it, "items() of a fallible expression")
                if td == "dict":
                    return f"(pyItems {d})", "str", "val"
                if td == "optdict":
                    return f"(pyOptItems {d})", "str", "val"
                if td == "dictA":
                    return f"(pyItems {d})", "str", "any"
        fail(it, "loop over something other than named_modules() / vars(sub).items() / dict.items()")

    def loop(self, s: ast.For, rest, env, carried, ind, fallible_ctx, narrowed, tail):
        if not (isinstance(s.target, ast.Tuple) and len(s.target.elts) == 2 and all(isinstance(x, ast.Name) for x in s.target.elts)):
            fail(s, "loop target that is not a pair of names")
        lst, t1, t2 = self.iterable(s.iter, env)
        mut = self.mutated(s.body, env)
        if len(mut) != 1:
            fail(s, f"loop body must change exactly one outer variable, changes {mut}")
        cv = mut[0]
        if carried is not None and cv != carried:
            fail(s, f"nested loop changes `{cv}` but the enclosing loop carries `{carried}`")
        raises = self.can_raise(s.body)
        if raises and not fallible_ctx:
            fail(s, "loop body that can raise in a function translated as total")
        acc, item = self.fresh(), self.fresh()
        env2 = dict(env)
        env2[cv] = Var(acc, env[cv].ty)
        a, b = self.fresh(), self.fresh()
        env2[s.target.elts[0].id] = Var(a, t1)
        env2[s.target.elts[1].id] = Var(b, t2)
        ind2 = ind + "    "
        body = self.block(list(s.body), env2, cv, ind2, raises, frozenset())
        fold = "List.foldlM (m := Except Exn)" if raises else "List.foldl"
        call = f"{fold} (fun {acc} {item} =>\n{ind2}let {a} := {item}.1\n{ind2}let {b} := {item}.2\n{ind2}{body}) {env[cv].lean} {lst}"
        env3 = dict(env)
        if raises:
            r = self.res()
            env3[cv] = Var(r, env[cv].ty)
            after = self.block(rest, env3, carried, ind, fallible_ctx, narrowed, tail)
            return f"match {call} with\n{ind}| .error e => .error e\n{ind}| .ok {r} =>\n{ind}  " + after.replace("\n", "\n  ")
        nm = self.fresh()
        env3[cv] = Var(nm, env[cv].ty)
        after = self.block(rest, env3, carried, ind, fallible_ctx, narrowed, tail)
        return f"let {nm} := {call}\n{ind}{after}"

    # ------------------------------------------------------------------ functions
    def param_type(self, a: ast.arg) -> str:
        ann = ast.unparse(a.annotation) if a.annotation is not None else ""
        if ann in ("Module", "nn.Module", "torch.nn.Module"):
            return "obj"
        if ann.startswith("Optional[Dict["):
            return "optdict"
        if ann.startswith("Dict["):
            return "dictA"
        fail(a, f"parameter `{a.arg}` with annotation `{ann}`")

    def translate(self) -> str:
        f = self.fdef
        if f.args.vararg or f.args.kwarg or f.args.kwonlyargs or f.args.defaults or f.decorator_list:
            fail(f, "function with defaults / *args / decorators")
        env, sig = {}, []
        lean_ty = {"obj": "Obj", "optdict": "Option (Dict Val)", "dictA": "Dict α"}
        generic = False
        for i, a in enumerate(f.args.args):
            ty = self.param_type(a)
            env[a.arg] = Var(f"a{i}", ty)
            sig.append(f"(a{i} : {lean_ty[ty]})")
            generic |= ty == "dictA"
        body = list(f.body)
        if body and isinstance(body[0], ast.Expr) and isinstance(body[0].value, ast.Constant) and isinstance(body[0].value.value, str):
            body = body[1:]
        if not body:
            fail(f, "empty function")
        last = body[-1]
        ind = "  "
        head = "{α : Type} " if generic else ""
        if isinstance(last, ast.Return) and last.value is not None:
            # a function that returns a value
            ret = last.value
            stmts = body[:-1]
            if isinstance(ret, ast.Name):
                # total function building a local
                if self.can_raise(stmts):
                    fail(f, "function returning a local whose body can raise")
                text = self._value_fn(stmts, ret, env, ind)
                return f"def {f.name} {head}{' '.join(sig)} : Dict Val :=\n{ind}{text}"
            text, ty = self._return_expr(ret, env, ind)
            if stmts:
                fail(stmts[0], "statements before a `return <expression>`")
            return f"def {f.name} {head}{' '.join(sig)} : {ty} :=\n{ind}{text}"
        # a function that returns nothing: the final state of its module parameter
        mods = [a.arg for a in f.args.args if env[a.arg].ty == "obj"]
        if len(mods) != 1:
            fail(f, "procedure without exactly one module parameter")
        if any(isinstance(n, ast.Return) and n.value is not None for n in ast.walk(f)):
            fail(f, "`return <value>` that is not the last statement")
        self.fallible = True
        text = self._proc(body, env, mods[0], ind)
        return f"def {f.name} {head}{' '.join(sig)} : Except Exn Obj :=\n{ind}{text}"

    def _value_fn(self, stmts, ret: ast.Name, env, ind) -> str:
        """straight-line statements and loops, then `return <local>`"""
        def tail(env2):
            if ret.id not in env2 or env2[ret.id].ty != "dict":
                fail(ret, "returned name that is not a local dict")
            return env2[ret.id].lean
        return self.block(list(stmts), env, None, ind, False, frozenset(), tail)

    def _return_expr(self, ret, env, ind):
        """`return OrderedDict([... for k, v in d.items()])`"""
        if not (isinstance(ret, ast.Call) and dotted(ret.func) in ("OrderedDict", "dict") and len(ret.args) == 1
                and not ret.keywords and isinstance(ret.args[0], ast.ListComp)):
            fail(ret, "returned expression other than OrderedDict([<comprehension>])")
        lc = ret.args[0]
        if len(lc.generators) != 1 or lc.generators[0].ifs or lc.generators[0].is_async:
            fail(lc, "comprehension with more than one generator / with a filter")
        g = lc.generators[0]
        if not (isinstance(g.target, ast.Tuple) and len(g.target.elts) == 2 and all(isinstance(x, ast.Name) for x in g.target.elts)):
            fail(lc, "comprehension target that is not a pair of names")
        lst, t1, t2 = self.iterable(g.iter, env)
        item, a, b = self.fresh(), self.fresh(), self.fresh()
        env2 = dict(env)
        env2[g.target.elts[0].id] = Var(a, t1)
        env2[g.target.elts[1].id] = Var(b, t2)
        ind2 = ind + "    "

        def elem(e, ind3):
            if isinstance(e, ast.IfExp):
                c, bc = self.cond(e.test, env2)
                if bc:
                    fail(e, "fallible condition")
                return f"if {c} then\n{ind3}  {elem(e.body, ind3 + '  ')}\n{ind3}else\n{ind3}  {elem(e.orelse, ind3 + '  ')}"
            x, tx, bx = self.expr(e, env2)
            if tx != "pair":
                fail(e, "comprehension element that is not a pair")
            return self.wrap(bx, f".ok {x}", ind3, True)
        body = elem(lc.elt, ind2)
        r = self.res()
        text = (f"match List.mapM (m := Except Exn) (fun {item} =>\n{ind2}let {a} := {item}.1\n{ind2}let {b} := {item}.2\n{ind2}{body}) {lst} with\n"
                f"{ind}| .error e => .error e\n{ind}| .ok {r} => .ok (pyDictOf {r})")
        return text, "Except Exn (Dict α)"

    def _proc(self, body, env, mod: str, ind) -> str:
        """`if not d: return` guards, re-bindings, one loop"""
        if not body:
            return f".ok {env[mod].lean}"
        s, rest = body[0], body[1:]
        if isinstance(s, ast.If) and not s.orelse and len(s.body) == 1 and isinstance(s.body[0], ast.Return) and s.body[0].value is None:
            c, bc = self.cond(s.test, env)
            if bc:
                fail(s, "fallible guard")
            return f"if {c} then\n{ind}  .ok {env[mod].lean}\n{ind}else\n{ind}  " + self._proc(rest, env, mod, ind + "  ")
        if isinstance(s, ast.Assign) and len(s.targets) == 1 and isinstance(s.targets[0], ast.Name):
            x, tx, bx = self.expr(s.value, env)
            if bx:
                fail(s, "fallible expression at the top level of a procedure")
            nm = self.fresh()
            env2 = dict(env)
            env2[s.targets[0].id] = Var(nm, tx)
            return f"let {nm} := {x}\n{ind}" + self._proc(rest, env2, mod, ind)
        if isinstance(s, ast.For) and not s.orelse:
            return self.loop(s, rest, env, mod, ind, True, frozenset(), None) if self._loop_mutates(s, env, mod) else fail(s, "loop that does not change the module")
        fail(s, f"{type(s).__name__} at the top level of a procedure")

    def _loop_mutates(self, s, env, mod) -> bool:
        return self.mutated(s.body, env) == [mod]


PRELUDE = r"""
abbrev Name := List Char
/-- (shape, contents id) -/
abbrev Tensor := List Nat × Nat
/-- a value found in `vars(sub)` / in a saved dict: a tensor, or anything else -/
abbrev Val := Option Tensor
/-- (what `state_dict()` lists for this sub-module, `vars(sub).items()`) -/
abbrev Sub := List (Name × Tensor) × List (Name × Val)
/-- `named_modules()` of an uncompiled module -/
abbrev Tree := List (Name × Sub)
/-- (`isinstance(·, OptimizedModule)`, tree of the underlying module) -/
abbrev Obj := Bool × Tree
abbrev Dict (α : Type) := List (Name × α)

/-- the class name of the exception raised -/
abbrev Exn := String

def pyStartsWith (s p : Name) : Bool := p.isPrefixOf s
def pyTruthy (s : Name) : Bool := !s.isEmpty
def pyDictTruthy {α} (d : Dict α) : Bool := !d.isEmpty
def pyOptDictTruthy {α} (d : Option (Dict α)) : Bool := match d with | none => false | some d => !d.isEmpty
def pyItems {α} (d : Dict α) : List (Name × α) := d
def pyOptItems {α} (d : Option (Dict α)) : List (Name × α) := d.getD []
def pyRpartition (s : Name) (c : Char) : Name × Name × Name :=
  match s.reverse.dropWhile (· != c) with
  | [] => ([], [], s)
  | _ :: before => (before.reverse, [c], (s.reverse.takeWhile (· != c)).reverse)
def pySplit1 (s : Name) (c : Char) : List Name :=
  match s.dropWhile (· != c) with
  | [] => [s]
  | _ :: after => [s.takeWhile (· != c), after]
def pyIndex {α} (l : List α) (i : Nat) : Except Exn α :=
  match l[i]? with
  | some x => .ok x
  | none => .error "IndexError"
def pyDictSet {α} (d : Dict α) (k : Name) (v : α) : Dict α :=
  if d.any (·.1 == k) then d.map (fun e => if e.1 == k then (k, v) else e) else d ++ [(k, v)]
def pyDictOf {α} (pairs : List (Name × α)) : Dict α := pairs.foldl (fun d e => pyDictSet d e.1 e.2) []
def pyIsTensor (v : Val) : Bool := v.isSome
def pyShape (v : Val) : Option (List Nat) := v.map (·.1)
def pyIsOptimizedModule (o : Obj) : Bool := o.1
def pyOrigMod (o : Obj) : Obj := (false, o.2)
def pyVars (s : Sub) : List (Name × Val) := s.2
def origPrefix (p : Name) : Name :=
  if p.isEmpty then ['_','o','r','i','g','_','m','o','d'] else ['_','o','r','i','g','_','m','o','d'] ++ '.' :: p
def pyNamedModules (o : Obj) : Tree :=
  if o.1 then ([], ([], [])) :: o.2.map (fun ps => (origPrefix ps.1, ps.2)) else o.2
def pyGetSubmodule (o : Obj) (p : Name) : Except Exn Sub :=
  match (pyNamedModules o).lookup p with
  | some s => .ok s
  | none => .error "AttributeError"
def pyGetattr (s : Sub) (n : Name) : Val :=
  match s.2.lookup n with
  | some v => v
  | none => s.1.lookup n
def subCopy (s : Sub) (n : Name) (v : Tensor) : Sub :=
  match s.2.lookup n with
  | some _ => (s.1, s.2.map fun e => if e.1 == n then (e.1, e.2.map fun _ => v) else e)
  | none => (s.1.map (fun e => if e.1 == n then (e.1, v) else e), s.2)
def treeCopy (t : Tree) (p n : Name) (v : Tensor) : Tree :=
  t.map fun ps => if ps.1 == p then (ps.1, subCopy ps.2 n v) else ps
def pyCopyInto (o : Obj) (p n : Name) (v : Val) : Obj :=
  match v with
  | none => o
  | some t =>
    if o.1 then
      (if p == ['_','o','r','i','g','_','m','o','d'] then (true, treeCopy o.2 [] n t)
       else if pyStartsWith p ['_','o','r','i','g','_','m','o','d','.'] then (true, treeCopy o.2 (p.drop 10) n t)
       else o)
    else (false, treeCopy o.2 p n t)
"""


def translate_source(src: str) -> list[str]:
    tree = ast.parse(src)
    defs = {n.name: n for n in tree.body if isinstance(n, ast.FunctionDef)}
    out = []
    for name in FUNCS:
        if name not in defs:
            raise Unsupported(f"{REL_SOURCE}: function `{name}` not found")
        out.append(Fn(defs[name]).translate())
    return out


def translate(repo: Path) -> tuple[str, str]:
    p = Path(repo) / REL_SOURCE
    try:
        raw = p.read_bytes()
    except OSError as e:
        raise Unsupported(f"cannot read {p}: {e}") from e
    sha = hashlib.sha256(raw).hexdigest()
    try:
        defs = translate_source(raw.decode("utf-8"))
    except SyntaxError as e:
        raise Unsupported(f"{REL_SOURCE}:{e.lineno}: not parseable: {e.msg}") from e
    header = "\n".join([
        "/-",
        "  Gen/CkptHelpGen.lean — GENERATED by harness/py2lean_ckpthelp.py from the source text of",
        f"  `{', '.join(FUNCS)}` ({REL_SOURCE}); do not edit.",
        "  Core Lean only.  `Proofs/CkptHelpGenEq.lean` proves the definitions equal to `HeapCkpt.Mod.getDetached`,",
        "  `loadDetached`, `removeCompilePrefix` of `Model/HeapCkpt.lean`.",
        "  Assumed: the prelude's reading of torch (`named_modules`, `get_submodule`, `getattr` on a module, `copy_`,",
        "  `.detach().clone()` = identity on values) and of Python's `str` / `dict` methods; entries of `detached` are",
        "  values (`Val`); non-persistent buffers are not modelled.  See the docstring of the translator.",
        "-/",
        SHA_PREFIX + sha,
        "set_option linter.unusedVariables false",
        "namespace CkptHelpGen",
    ])
    text = header + "\n" + PRELUDE + "\n" + "\n\n".join(defs) + "\n\nend CkptHelpGen\n"
    return text, sha


def strip_sha(text: str) -> str:
    return "\n".join(ln for ln in text.split("\n") if not ln.startswith(SHA_PREFIX))


def write_if_changed(text: str, out: Path, force: bool = False) -> bool:
    """writes `text` unless the file already holds the same translation (sha line ignored)"""
    out = Path(out)
    old = out.read_text() if out.exists() else None
    if old is not None and not force and strip_sha(old) == strip_sha(text):
        return False
    if old == text:
        return False
    out.parent.mkdir(parents=True, exist_ok=True)
    tmp = out.with_suffix(".lean.tmp")
    tmp.write_text(text)
    os.replace(tmp, out)
    return True


def main(argv: list[str]) -> int:
    import argparse
    ap = argparse.ArgumentParser()
    ap.add_argument("--repo", default=None)
    ap.add_argument("--out", default=str(DEFAULT_OUT))
    ap.add_argument("--stdout", action="store_true")
    ap.add_argument("--force", action="store_true", help="rewrite even if only the sha256 line differs")
    a = ap.parse_args(argv)
    try:
        text, sha = translate(repo_dir(a.repo))
    except Unsupported as e:
        print(f"py2lean_ckpthelp: {e}", file=sys.stderr)
        return 1
    if a.stdout:
        sys.stdout.write(text)
        return 0
    changed = write_if_changed(text, Path(a.out), a.force)
    print(f"{a.out}: {'written' if changed else 'unchanged'} (source sha256 {sha[:16]}…, "
          f"translation sha256 {hashlib.sha256(strip_sha(text).encode()).hexdigest()[:16]}…)")
    return 0


if __name__ == "__main__":
    sys.exit(main(sys.argv[1:]))
