#!/usr/bin/env python3
"""
py2lean_clone.py — translate what `clone()` does to each attribute of an agent, from the source text of

    REPO/agilerl/algorithms/core/base.py   EvolvableAlgorithm.{inspect_attributes, copy_attributes, clone}
    REPO/agilerl/wrappers/agent.py         AgentWrapper.clone

into Lean 4 (property C01: a cloned agent is a faithful and fully independent copy).

    python3 harness/py2lean_clone.py [--repo DIR] [--out FILE] [--stdout] [--force]

Reads the *source text* only (Python `ast`; agilerl / torch / numpy are never imported) and writes
lean/Gen/CloneGen.lean (namespace CloneGen, core Lean only, imports nothing).  `Proofs/CloneGenEq.lean`
proves the generated decision function and phase lists equal to the explicit clone semantics of the hand-written
model `Model/Heap.lean` (`copyAction`, `copyAbsent`, `clonePhases false`, `wrapperPhases`, `inspectListed`), and
— through `Heap.ruleOf_eq_derive` — the rule table derived from the generated text equal to the rule table
`Heap.ruleOf false` that the driver's `heap` protocol uses.  `Props/C01.lean` restates the C01 theorems for the
clone operation instantiated with the generated table (`C01_source_translation_*`).

What is read and what it becomes
--------------------------------
The object of the translation is PROVENANCE, not numbers: for every value the source hands to the new agent,
the expression that computes it is turned into a term of

    Val ::= attr who | elem | param name | config | field v name | deepcopy v | torchClone v | moduleClone v
          | stateDict v | listOf elem src | cloned | choice a b | inspect who inputArgsOnly added dropped
          | typeOf who | innerClone                        (who ::= self | clone)

so that `copy.deepcopy(x)` and `x` are different terms.  The fixed prelude of the generated file states the
PYTHON SEMANTICS assumed of these constructors (`Val.shareWith`: deepcopy / torch.clone / EvolvableModule.clone
return objects sharing no mutable cell with their argument; state_dict() and attribute access return references;
a list comprehension builds a new list of what its element expression yields) and classifies an assignment as
`freshDeep | freshPerElement | byRef | keepOwn` (`Val.action`, `Act.action`).

(A) `copy_attributes(agent, clone)` (static; first parameter ↦ `self`, second ↦ `clone`):
    `for attribute in EvolvableAlgorithm.inspect_attributes(<who>[, input_args_only=<const>]).keys(): <body>`
    `return <who>`.  The loop body becomes ONE decision tree

        def copyAttr (agentHas cloneHas : Bool) (ka kc : Cls) (eq : Bool) : Act

    `ka` / `kc` = runtime class of the parent's / the clone's value (`Cls`: callable, algorithm, tensor, ndarray,
    list, registry, other), `eq` = outcome of the equality test between the two values.  Supported in the body:
      * `a, b = getattr(w1, attribute), getattr(w2, attribute)` / `a = getattr(w, attribute)` (aliases; renaming
        them changes nothing);
      * `if / elif / else` in source order; an `if` must be the last statement of its block (so that the first
        branch taken decides the iteration); a missing `else` is `.keep`;
      * conditions: `and`, `or`, `not`, `hasattr(w, attribute)` → `agentHas` / `cloneHas`, `callable(x)` →
        `k.isCallable`, `isinstance(x, C)` / `isinstance(x, (C1, C2))` with C ∈ {torch.Tensor, np.ndarray, list,
        MutationRegistry, EvolvableAlgorithm} → `k.isInstance .c`, `torch.equal(a, b)` / `np.array_equal(a, b)` /
        `a == b` → `eq`, `a != b` → `!eq` (a, b = the two values, in either order);
      * `continue` → `.skip`; `pass` → `.keep`; `setattr(w, attribute, E)` → `.assign w E`;
        `try: S except <one handler>: S'` → `.attempt S S'`;
      * value expressions E: the aliases, `getattr(w, attribute)`, `copy.deepcopy(E)`, `torch.clone(E)`,
        `E.clone()`, `[E(el) for el in E']` (one generator, no filter).
    Derived (generated one-liners): `copyRule k eq := (copyAttr true true k k eq).action`,
    `copyAbsent := (copyAttr true false k k eq).action`, `copyAttrDomain`, `copyAttrReturns`.

(B) `clone(self, index, wrap)` and `AgentWrapper.clone`: straight-line symbolic execution; every statement with
    an effect on the new agent emits one `Phase` record, IN SOURCE ORDER:
      * `d = EvolvableAlgorithm.inspect_attributes(w, input_args_only=<const>)`; `d["k"] = <parameter>`;
        `d.pop("k", None)` — the constructor-argument dict with added / dropped keys;
      * `x = type(self)(*pos, **d)` / `self.__class__(*pos, **d)` → `.construct cls pos kwargs`, `x` becomes the
        handle of the new agent;
      * `agent_clone = self.agent.clone(<parameters>)` → `.innerClone`;
      * `w.m()` for m ∈ {mutation_hook, unwrap_models, wrap_models, recompile} → `.call w m guarded`
        (`guarded`: the statement sits under an `if`; the CONDITIONS of such ifs are not translated — these calls
        and `torch.set_float32_matmul_precision(…)` are accelerator / compiler plumbing, see Assumptions);
      * `acc = {}` and `for name, obj in self.evolvable_attributes(networks_only=<const>).items():` whose body
        assigns `acc[name] = E` (optionally under `if isinstance(obj, list): … else: …`) and calls
        `setattr(x, name, acc[name] | E)` → `.setNetworks src dst networksOnly single list`;
      * `for cfg in self.registry.optimizers:` whose body binds locals (`getattr(self, cfg.name)`, `cfg.<field>`,
        `acc[…]`, `[acc[n] for n in cfg.networks]`, `a if cfg.<field> else b`), builds
        `opt = OptimizerWrapper(<args>)`, calls `opt.load_state_dict(E)` and `setattr(x, cfg.name, opt)`
        → `.setOptimizers src dst networks state kwargs` (kwargs sorted by keyword);
      * `x = EvolvableAlgorithm.copy_attributes(a, b)` (or as a bare call) → `.copyAttributes a b`, `x` is re-bound
        to what copy_attributes returns per (A);
      * `x.<field> = <parameter>` → `.setField`; `return x` (must be the handle of the new agent).
    The fixed prelude maps each record to what the heap semantics keeps of it (`Phase.sem`): how constructor
    arguments / modules / optimizer state are shared, where the hook and `copy_attributes` sit.

(C) `inspect_attributes(agent, input_args_only)`: a small abstract interpretation over "collections of members",
    each collection = a Boolean predicate over `Member` (routine, evolvable, tensorDict, leading / trailing
    underscore, ctorParam) + the provenance of the values: `inspect.getmembers(agent, lambda a: <cond>)`,
    `list(agent.evolvable_attributes().keys())`, `xs += [n for n, v in ys if <cond>]`, list / dict comprehensions
    with a filter, `inspect.signature(agent.__init__).parameters.keys()`, `k in xs` / `k not in xs`,
    `s.startswith("_")` / `s.endswith("_")`, `isinstance(v, TensorDict)`, `isroutine(v)`, one
    `if input_args_only: … else: …`, `return`.  Output: `inspectListed inputArgsOnly m : Bool` and
    `inspectValue inputArgsOnly : Val` (the dict VALUE expression: `v` is the parent's object by reference,
    `copy.deepcopy(v)` would be fresh — this is where "constructor arguments are passed by reference" comes from).

Anything else raises `Unsupported` naming the construct and line.

Assumptions (listed again in the header of the generated file)
  * the classes tested by `copy_attributes` are disjoint; a value of none of them (numbers, strings, dicts, spaces)
    is `other`; parent and clone hold values of the same class under the same name;
  * `torch.equal`, `np.array_equal` and `!=` are one abstract equality test `eq`;
  * the constructor stores an argument as it is given (so a constructor argument of the clone IS the parent's
    object) and builds every other attribute anew;
  * `unwrap_models`, `wrap_models`, `recompile`, `torch.set_float32_matmul_precision` do not change which
    mutable cells an agent reaches (the conditions guarding them are not translated);
  * what `mutation_hook` does is algorithm-specific and a parameter of the semantics (`Heap.stepSlot`: a
    re-synchronised target copies the clone's online network; `hookWrites`).

Shape of the output: prelude (types + Python semantics), then `copyAttrDomain`, `copyAttrReturns`, `copyAttr`,
`copyRule`, `copyAbsent`, `inspectListed`, `inspectValue`, `clonePhases`, `cloneSem`, `wrapperClonePhases`,
`wrapperCloneSem`.  Local names never reach the output.  The header carries the sha256 of the two source files;
`write_if_changed` compares everything *but* that line.
"""
from __future__ import annotations

import ast
import hashlib
import os
import sys
from pathlib import Path

HERE = Path(__file__).resolve().parent
DEFAULT_OUT = HERE.parent / "lean" / "Gen" / "CloneGen.lean"
BASE_SOURCE = "agilerl/algorithms/core/base.py"
WRAP_SOURCE = "agilerl/wrappers/agent.py"
REL_SOURCES = (BASE_SOURCE, WRAP_SOURCE)
REL_SOURCE = "agilerl/{algorithms/core/base.py,wrappers/agent.py}"      # messages only
SHA_PREFIX = "-- sha256(source) = "

_current = [BASE_SOURCE]


class Unsupported(Exception):
    pass


def fail(node, what: str):
    line = getattr(node, "lineno", "?")
    raise Unsupported(f"{_current[0]}:{line}: unsupported construct: {what}")


def dotted(node) -> str | None:
    """`a.b.c` as a string, None if the expression is not a dotted name"""
    parts = []
    while isinstance(node, ast.Attribute):
        parts.append(node.attr)
        node = node.value
    if isinstance(node, ast.Name):
        parts.append(node.id)
        return ".".join(reversed(parts))
    return None


def lean_str(s: str) -> str:
    return '"' + s.replace("\\", "\\\\").replace('"', '\\"') + '"'


def lean_bool(b: bool) -> str:
    return "true" if b else "false"


def neg(c: str) -> str:
    """Boolean negation of a Lean Bool term (`!` binds tighter than application: parenthesise)"""
    simple = c.replace(".", "").replace("_", "").isalnum()
    if not simple and c.startswith("(") and c.endswith(")"):
        depth = 0
        for i, ch in enumerate(c):
            depth += ch == "("
            depth -= ch == ")"
            if depth == 0 and i < len(c) - 1:
                break
        else:
            simple = True           # one parenthesised group
    return "!" + c if simple else "!(" + c + ")"


# ---------------------------------------------------------------------------------------------- provenance terms
class V:
    """a term of `CloneGen.Val`"""

    def __init__(self, tag: str, *args):
        self.tag, self.args = tag, args

    def __eq__(self, other):
        return isinstance(other, V) and self.tag == other.tag and self.args == other.args

    def __hash__(self):
        return hash((self.tag, self.args))

    def lean(self, atom: bool = False) -> str:
        t, a = self.tag, self.args
        if t in ("elem", "config", "cloned", "innerClone"):
            return "." + t
        if t in ("attr", "typeOf"):
            s = f".{t} .{a[0]}"
        elif t == "param":
            s = f".param {lean_str(a[0])}"
        elif t == "field":
            s = f".field {a[0].lean(True)} {lean_str(a[1])}"
        elif t in ("deepcopy", "torchClone", "moduleClone", "stateDict"):
            s = f".{t} {a[0].lean(True)}"
        elif t in ("listOf", "choice"):
            s = f".{t} {a[0].lean(True)} {a[1].lean(True)}"
        elif t == "inspect":
            s = (f".inspect .{a[0]} {lean_bool(a[1])} [{', '.join(lean_str(x) for x in a[2])}] "
                 f"[{', '.join(lean_str(x) for x in a[3])}]")
        else:  # pragma: no cover
            raise Unsupported(f"internal: no Lean form for {t}")
        return f"({s})" if atom else s


# symbolic objects of the executors ------------------------------------------------------------------------------
class SWho:
    def __init__(self, who: str):
        self.who = who


class SVal:
    def __init__(self, v: V):
        self.v = v


class SKey:
    """the name of the attribute at hand (loop variable / `cfg.name`)"""


class SCfg:
    """an optimizer config of the parent's registry (loop variable)"""


class SInspect:
    def __init__(self, who: str, only: bool):
        self.who, self.only, self.added, self.dropped = who, only, [], []

    def val(self) -> V:
        return V("inspect", self.who, self.only, tuple(self.added), tuple(self.dropped))


class SAcc:
    """`{}` filled per evolvable attribute by the module loop"""

    def __init__(self):
        self.single: V | None = None
        self.list: V | None = None
        self.filled = False


class SOpt:
    def __init__(self, kwargs: dict, positional: list):
        self.kwargs, self.positional, self.state = kwargs, positional, None


CLASSES = {"torch.Tensor": "tensor", "np.ndarray": "ndarray", "numpy.ndarray": "ndarray", "list": "list",
           "MutationRegistry": "registry", "EvolvableAlgorithm": "algorithm"}
METHODS = {"mutation_hook": "mutationHook", "unwrap_models": "unwrapModels", "wrap_models": "wrapModels",
           "recompile": "recompile"}
IGNORED_CALLS = {"torch.set_float32_matmul_precision"}


def is_docstring(st) -> bool:
    return isinstance(st, ast.Expr) and isinstance(st.value, ast.Constant) and isinstance(st.value.value, str)


def const_bool(node, default=None):
    if node is None:
        return default
    if isinstance(node, ast.Constant) and isinstance(node.value, bool):
        return node.value
    fail(node, "a flag that is not a literal True / False")


def inspect_call(node, env):
    """`EvolvableAlgorithm.inspect_attributes(w[, input_args_only=c])` → (who, only) or None"""
    if not (isinstance(node, ast.Call) and dotted(node.func) in ("EvolvableAlgorithm.inspect_attributes",
                                                                  "inspect_attributes")):
        return None
    args = list(node.args)
    kws = {k.arg: k.value for k in node.keywords}
    if not args or len(args) > 2 or set(kws) - {"input_args_only"} or (len(args) == 2 and kws):
        fail(node, "inspect_attributes called with an unexpected argument list")
    w = env.get(args[0].id) if isinstance(args[0], ast.Name) else None
    if not isinstance(w, SWho):
        fail(node, "inspect_attributes of something that is neither the agent nor its clone")
    only = const_bool(args[1] if len(args) == 2 else kws.get("input_args_only"), False)
    return w.who, only


# ---------------------------------------------------------------------------------------------- value expressions
class Exec:
    """shared expression evaluator: env maps local names to symbolic objects"""

    def __init__(self, params: dict, clone_ctx: bool):
        self.env: dict = dict(params)
        self.clone_ctx = clone_ctx          # `.clone()` is a module clone (clone methods) or a tensor clone

    def who(self, node) -> str:
        o = self.env.get(node.id) if isinstance(node, ast.Name) else None
        if not isinstance(o, SWho):
            fail(node, "expected the agent or its clone here")
        return o.who

    def is_key(self, node) -> bool:
        if isinstance(node, ast.Name) and isinstance(self.env.get(node.id), SKey):
            return True
        return (isinstance(node, ast.Attribute) and node.attr == "name" and isinstance(node.value, ast.Name)
                and isinstance(self.env.get(node.value.id), SCfg))

    def val(self, node) -> V:
        o = self.ev(node)
        if isinstance(o, SVal):
            return o.v
        if isinstance(o, SInspect):
            return o.val()
        if isinstance(o, SCfg):
            return V("config")
        fail(node, "an expression whose provenance this translator cannot express")

    def ev(self, node):
        if isinstance(node, ast.Name):
            if node.id in self.env:
                return self.env[node.id]
            fail(node, f"unknown name `{node.id}`")
        if isinstance(node, ast.Attribute):
            base = self.ev(node.value) if not isinstance(node.value, ast.Name) or node.value.id in self.env \
                else fail(node, f"unknown name `{node.value.id}`")
            if isinstance(base, SCfg):
                return SVal(V("config"))
            if isinstance(base, SVal):
                return SVal(V("field", base.v, node.attr))
            fail(node, f"attribute `.{node.attr}` of the agent itself")
        if isinstance(node, ast.Subscript):
            base = self.ev(node.value)
            if isinstance(base, SAcc):
                if self.is_key(node.slice):
                    return base
                self.val(node.slice)                      # index must be expressible (config-derived)
                return SVal(V("cloned"))
            if isinstance(base, SVal) and base.v.tag in ("config",):
                return SVal(V("config"))
            fail(node, "subscript of an unsupported object")
        if isinstance(node, ast.Call):
            return self.call(node)
        if isinstance(node, ast.ListComp):
            if len(node.generators) != 1 or node.generators[0].ifs or node.generators[0].is_async \
                    or not isinstance(node.generators[0].target, ast.Name):
                fail(node, "list comprehension other than `[e for x in xs]`")
            g = node.generators[0]
            src = self.val(g.iter)
            saved = self.env.get(g.target.id, None)
            self.env[g.target.id] = SVal(V("elem"))
            try:
                e = self.val(node.elt)
            finally:
                if saved is None:
                    self.env.pop(g.target.id, None)
                else:
                    self.env[g.target.id] = saved
            return SVal(V("listOf", e, src))
        if isinstance(node, ast.IfExp):
            t = self.val(node.test)
            if t != V("config"):
                fail(node, "conditional expression whose test is not a field of the optimizer config")
            a, b = self.val(node.body), self.val(node.orelse)
            return SVal(a if a == b else V("choice", a, b))
        fail(node, f"expression `{ast.unparse(node)[:60]}`")

    def call(self, node: ast.Call):
        fn = dotted(node.func)
        kws = {k.arg: k.value for k in node.keywords}
        if fn == "getattr":
            if len(node.args) != 2 or kws:
                fail(node, "getattr with a default / keywords")
            if dotted(node.args[0]) == "torch.optim":
                self.val(node.args[1])
                return SVal(V("config"))
            w = self.who(node.args[0])
            if not self.is_key(node.args[1]):
                fail(node, "getattr whose name is not the attribute at hand")
            return SVal(V("attr", w))
        if fn == "copy.deepcopy" or fn == "deepcopy":
            if len(node.args) != 1 or kws:
                fail(node, "deepcopy with a memo / keywords")
            return SVal(V("deepcopy", self.val(node.args[0])))
        if fn == "torch.clone":
            if len(node.args) != 1 or kws:
                fail(node, "torch.clone with extra arguments")
            return SVal(V("torchClone", self.val(node.args[0])))
        if isinstance(node.func, ast.Attribute) and node.func.attr in ("clone", "state_dict") \
                and not node.args and not kws:
            base = self.val(node.func.value)
            if node.func.attr == "state_dict":
                return SVal(V("stateDict", base))
            return SVal(V("moduleClone" if self.clone_ctx else "torchClone", base))
        ic = inspect_call(node, self.env)
        if ic is not None:
            return SInspect(*ic)
        fail(node, f"call `{ast.unparse(node)[:70]}`")


# ---------------------------------------------------------------------------------------------- (A) copy_attributes
class CopyAttr(Exec):
    def __init__(self, fn: ast.FunctionDef):
        ps = [a.arg for a in fn.args.args]
        if len(ps) != 2 or fn.args.vararg or fn.args.kwarg or fn.args.kwonlyargs:
            fail(fn, "copy_attributes must take exactly (agent, clone)")
        super().__init__({ps[0]: SWho("self"), ps[1]: SWho("clone")}, clone_ctx=False)
        body = [s for s in fn.body if not is_docstring(s)]
        if len(body) != 2 or not isinstance(body[0], ast.For) or not isinstance(body[1], ast.Return):
            fail(fn, "copy_attributes must be `for attribute in …: …` followed by `return …`")
        loop, ret = body
        if loop.orelse or not isinstance(loop.target, ast.Name):
            fail(loop, "loop with else / a tuple target")
        it = loop.iter
        if not (isinstance(it, ast.Call) and isinstance(it.func, ast.Attribute) and it.func.attr == "keys"
                and not it.args and not it.keywords):
            fail(loop, "the loop must run over `inspect_attributes(…).keys()`")
        dom = inspect_call(it.func.value, self.env)
        if dom is None:
            fail(loop, "the loop must run over `EvolvableAlgorithm.inspect_attributes(…).keys()`")
        self.domain = dom
        self.env[loop.target.id] = SKey()
        self.branch_classes: list[list[str]] = []       # per `if` test on the PARENT's value, in source order
        self.tree = self.block(loop.body, 1)
        self.returns = self.who(ret.value) if ret.value is not None else fail(ret, "bare return")

    # conditions ------------------------------------------------------------------------------------------
    def side(self, node) -> str:
        v = self.val(node)
        if v == V("attr", "self"):
            return "ka"
        if v == V("attr", "clone"):
            return "kc"
        fail(node, "a class test of something that is not the attribute value of the agent or its clone")

    def cond(self, node, seen: list) -> str:
        if isinstance(node, ast.BoolOp):
            op = " && " if isinstance(node.op, ast.And) else " || "
            return "(" + op.join(self.cond(v, seen) for v in node.values) + ")"
        if isinstance(node, ast.UnaryOp) and isinstance(node.op, ast.Not):
            return neg(self.cond(node.operand, []))
        if isinstance(node, ast.Compare) and len(node.ops) == 1:
            a, b = self.val(node.left), self.val(node.comparators[0])
            if {a, b} != {V("attr", "self"), V("attr", "clone")}:
                fail(node, "comparison of something other than the two attribute values")
            if isinstance(node.ops[0], ast.Eq):
                return "eq"
            if isinstance(node.ops[0], ast.NotEq):
                return "!eq"
            fail(node, f"comparison operator {type(node.ops[0]).__name__}")
        if isinstance(node, ast.Call):
            fn = dotted(node.func)
            if fn == "hasattr" and len(node.args) == 2 and not node.keywords and self.is_key(node.args[1]):
                return "agentHas" if self.who(node.args[0]) == "self" else "cloneHas"
            if fn == "callable" and len(node.args) == 1 and not node.keywords:
                s = self.side(node.args[0])
                if s == "ka":
                    seen.append("callable")
                return f"{s}.isCallable"
            if fn == "isinstance" and len(node.args) == 2 and not node.keywords:
                s = self.side(node.args[0])
                cs = node.args[1].elts if isinstance(node.args[1], ast.Tuple) else [node.args[1]]
                out = []
                for c in cs:
                    name = dotted(c)
                    if name not in CLASSES:
                        fail(c, f"isinstance test against the class `{ast.unparse(c)}` (not one of {sorted(CLASSES)})")
                    out.append(f"{s}.isInstance .{CLASSES[name]}")
                    if s == "ka":
                        seen.append(CLASSES[name])
                return out[0] if len(out) == 1 else "(" + " || ".join(out) + ")"
            if fn in ("torch.equal", "np.array_equal", "numpy.array_equal") and len(node.args) == 2 \
                    and not node.keywords:
                a, b = self.val(node.args[0]), self.val(node.args[1])
                if {a, b} != {V("attr", "self"), V("attr", "clone")}:
                    fail(node, "equality test of something other than the two attribute values")
                return "eq"
        fail(node, f"condition `{ast.unparse(node)[:70]}`")

    # statements ------------------------------------------------------------------------------------------
    def block(self, stmts, ind: int) -> str:
        pad = "  " * ind
        stmts = [s for s in stmts if not is_docstring(s)]
        for i, st in enumerate(stmts):
            last = i == len(stmts) - 1
            if isinstance(st, ast.Assign) and len(st.targets) == 1:
                tgt = st.targets[0]
                if isinstance(tgt, ast.Tuple) and isinstance(st.value, ast.Tuple) and len(tgt.elts) == len(st.value.elts) \
                        and all(isinstance(t, ast.Name) for t in tgt.elts):
                    vals = [SVal(self.val(v)) for v in st.value.elts]
                    for t, v in zip(tgt.elts, vals):
                        self.env[t.id] = v
                    continue
                if isinstance(tgt, ast.Name):
                    self.env[tgt.id] = SVal(self.val(st.value))
                    continue
                fail(st, "assignment target")
            if not last:
                fail(stmts[i + 1], "a statement after the deciding statement of a block (only aliases may precede it)")
            if isinstance(st, ast.If):
                seen: list = []
                c = self.cond(st.test, seen)
                if seen:
                    self.branch_classes.append(seen)
                saved = dict(self.env)
                then = self.block(st.body, ind + 1)
                self.env = dict(saved)
                chain = len(st.orelse) == 1 and isinstance(st.orelse[0], ast.If)
                els = self.block(st.orelse, ind if chain else ind + 1) if st.orelse else ".keep"
                self.env = saved
                if then.startswith("if "):
                    then = "(" + then + ")"
                return f"if {c} then\n{pad}  {then}\n{pad}else {els}"
            if isinstance(st, ast.Continue):
                return ".skip"
            if isinstance(st, ast.Pass):
                return ".keep"
            if isinstance(st, ast.Try):
                if st.orelse or st.finalbody or len(st.handlers) != 1:
                    fail(st, "try with else / finally / several handlers")
                a = self.block(st.body, ind + 1)
                b = self.block(st.handlers[0].body, ind + 1)
                return f".attempt ({a}) ({b})"
            if isinstance(st, ast.Expr) and isinstance(st.value, ast.Call) and dotted(st.value.func) == "setattr":
                c = st.value
                if len(c.args) != 3 or c.keywords or not self.is_key(c.args[1]):
                    fail(st, "setattr that does not assign the attribute at hand")
                return f".assign .{self.who(c.args[0])} {self.val(c.args[2]).lean(True)}"
            fail(st, f"statement `{ast.unparse(st)[:60]}`")
        return ".keep"


# ---------------------------------------------------------------------------------------------- (C) inspect_attributes
class Members:
    def __init__(self, pred: str, val: V):
        self.pred, self.val = pred, val


class Names:
    def __init__(self, pred: str):
        self.pred = pred


class Inspect:
    def __init__(self, fn: ast.FunctionDef):
        ps = [a.arg for a in fn.args.args]
        if len(ps) != 2 or fn.args.vararg or fn.args.kwarg or fn.args.kwonlyargs:
            fail(fn, "inspect_attributes must take exactly (agent, input_args_only)")
        self.agent, self.flag = ps
        env: dict = {}
        res = self.run([s for s in fn.body if not is_docstring(s)], env)
        if res is None:
            fail(fn, "inspect_attributes does not end with a return")
        self.listed, self.value = res

    # names / values inside comprehension filters ---------------------------------------------------------
    def is_name(self, node, kv) -> bool:
        k, v, pair = kv
        if isinstance(node, ast.Name) and node.id == k:
            return True
        return (isinstance(node, ast.Subscript) and isinstance(node.value, ast.Name) and node.value.id == pair
                and isinstance(node.slice, ast.Constant) and node.slice.value == 0)

    def is_value(self, node, kv) -> bool:
        k, v, pair = kv
        if isinstance(node, ast.Name) and node.id == v:
            return True
        return (isinstance(node, ast.Subscript) and isinstance(node.value, ast.Name) and node.value.id == pair
                and isinstance(node.slice, ast.Constant) and node.slice.value == 1)

    def cond(self, node, kv, env) -> str:
        if isinstance(node, ast.BoolOp):
            op = " && " if isinstance(node.op, ast.And) else " || "
            return "(" + op.join(self.cond(x, kv, env) for x in node.values) + ")"
        if isinstance(node, ast.UnaryOp) and isinstance(node.op, ast.Not):
            return neg(self.cond(node.operand, kv, env))
        if isinstance(node, ast.Compare) and len(node.ops) == 1 and isinstance(node.ops[0], (ast.In, ast.NotIn)):
            if not self.is_name(node.left, kv):
                fail(node, "membership test of something that is not the member's name")
            c = node.comparators[0]
            col = env.get(c.id) if isinstance(c, ast.Name) else None
            if not isinstance(col, Names):
                fail(node, "membership test in something that is not a collection of names")
            return col.pred if isinstance(node.ops[0], ast.In) else neg(col.pred)
        if isinstance(node, ast.Call):
            fn = dotted(node.func)
            if isinstance(node.func, ast.Attribute) and node.func.attr in ("startswith", "endswith") \
                    and self.is_name(node.func.value, kv):
                if len(node.args) != 1 or node.keywords or not (isinstance(node.args[0], ast.Constant)
                                                                and node.args[0].value == "_"):
                    fail(node, 'startswith / endswith of something other than "_"')
                return "m.leadingUnderscore" if node.func.attr == "startswith" else "m.trailingUnderscore"
            if fn in ("isroutine", "inspect.isroutine") and len(node.args) == 1 and self.is_value(node.args[0], kv):
                return "m.routine"
            if fn == "isinstance" and len(node.args) == 2 and self.is_value(node.args[0], kv):
                if dotted(node.args[1]) != "TensorDict":
                    fail(node, f"isinstance test against `{ast.unparse(node.args[1])}` (only TensorDict is supported)")
                return "m.tensorDict"
        fail(node, f"filter condition `{ast.unparse(node)[:70]}`")

    def comp(self, node, env):
        """list / dict comprehension over a Members collection → (kind, pred, value)"""
        if len(node.generators) != 1 or node.generators[0].is_async:
            fail(node, "comprehension with several generators")
        g = node.generators[0]
        src = env.get(g.iter.id) if isinstance(g.iter, ast.Name) else None
        if not isinstance(src, Members):
            fail(node, "comprehension over something that is not a collection of members")
        if isinstance(g.target, ast.Tuple) and len(g.target.elts) == 2 and all(isinstance(t, ast.Name) for t in g.target.elts):
            kv = (g.target.elts[0].id, g.target.elts[1].id, None)
        elif isinstance(g.target, ast.Name):
            kv = (None, None, g.target.id)
        else:
            fail(node, "comprehension target")
        pred = src.pred
        for c in g.ifs:
            pred = f"({pred} && {self.cond(c, kv, env)})"
        return src, kv, pred

    def value_of(self, node, kv, src: Members) -> V:
        if self.is_value(node, kv):
            return src.val
        if isinstance(node, ast.Call) and dotted(node.func) in ("copy.deepcopy", "deepcopy") and len(node.args) == 1 \
                and not node.keywords:
            return V("deepcopy", self.value_of(node.args[0], kv, src))
        fail(node, f"dict value `{ast.unparse(node)[:60]}`")

    def expr(self, node, env):
        if isinstance(node, ast.Call):
            fn = dotted(node.func)
            if fn in ("inspect.getmembers", "getmembers"):
                if not node.args or not (isinstance(node.args[0], ast.Name) and node.args[0].id == self.agent) \
                        or node.keywords or len(node.args) > 2:
                    fail(node, "getmembers of something other than the agent")
                pred = "true"
                if len(node.args) == 2:
                    lam = node.args[1]
                    if not isinstance(lam, ast.Lambda) or len(lam.args.args) != 1:
                        fail(node, "getmembers predicate that is not a one-argument lambda")
                    pred = self.cond(lam.body, (None, lam.args.args[0].arg, None), env)
                return Members(pred, V("attr", "self"))
            if fn == "list" and len(node.args) == 1 and not node.keywords:
                return self.expr(node.args[0], env)
            if isinstance(node.func, ast.Attribute) and node.func.attr == "keys" and not node.args and not node.keywords:
                inner = node.func.value
                if isinstance(inner, ast.Call) and dotted(inner.func) == f"{self.agent}.evolvable_attributes" \
                        and not inner.args and not inner.keywords:
                    return Names("m.evolvable")
                if dotted(inner) == "inspect.signature" or (
                        isinstance(inner, ast.Attribute) and inner.attr == "parameters"
                        and isinstance(inner.value, ast.Call) and dotted(inner.value.func) in ("inspect.signature", "signature")
                        and len(inner.value.args) == 1 and dotted(inner.value.args[0]) == f"{self.agent}.__init__"):
                    return Names("m.ctorParam")
            fail(node, f"call `{ast.unparse(node)[:70]}`")
        if isinstance(node, ast.ListComp):
            src, kv, pred = self.comp(node, env)
            if self.is_name(node.elt, kv):
                return Names(pred)
            if isinstance(node.elt, ast.Name) and node.elt.id == kv[2]:
                return Members(pred, src.val)
            if isinstance(node.elt, ast.Tuple) and len(node.elt.elts) == 2 and self.is_name(node.elt.elts[0], kv):
                return Members(pred, self.value_of(node.elt.elts[1], kv, src))
            fail(node, "list comprehension element")
        if isinstance(node, ast.DictComp):
            src, kv, pred = self.comp(node, env)
            if not self.is_name(node.key, kv):
                fail(node, "dict comprehension whose key is not the member's name")
            return Members(pred, self.value_of(node.value, kv, src))
        if isinstance(node, ast.Name) and node.id in env:
            return env[node.id]
        fail(node, f"expression `{ast.unparse(node)[:60]}`")

    def run(self, stmts, env):
        """returns (listed : str, value : str) once a return is met"""
        for i, st in enumerate(stmts):
            if isinstance(st, ast.Assign) and len(st.targets) == 1 and isinstance(st.targets[0], ast.Name):
                env[st.targets[0].id] = self.expr(st.value, env)
            elif isinstance(st, ast.AugAssign) and isinstance(st.op, ast.Add) and isinstance(st.target, ast.Name):
                old, new = env.get(st.target.id), self.expr(st.value, env)
                if not isinstance(old, Names) or not isinstance(new, Names):
                    fail(st, "`+=` of something other than two collections of names")
                env[st.target.id] = Names(f"({old.pred} || {new.pred})")
            elif isinstance(st, ast.If):
                if not (isinstance(st.test, ast.Name) and st.test.id == self.flag) or not st.orelse:
                    fail(st, "an `if` other than `if input_args_only: … else: …`")
                e1, e2 = dict(env), dict(env)
                r1 = self.run(st.body + stmts[i + 1:], e1)
                r2 = self.run(st.orelse + stmts[i + 1:], e2)
                if r1 is None or r2 is None:
                    fail(st, "a path without return")
                return (f"if inputArgsOnly then {r1[0]} else {r2[0]}",
                        f"if inputArgsOnly then {r1[1]} else {r2[1]}")
            elif isinstance(st, ast.Return):
                res = self.expr(st.value, env) if st.value is not None else None
                if not isinstance(res, Members):
                    fail(st, "return of something that is not a collection of members")
                return res.pred, res.val.lean()
            else:
                fail(st, f"statement `{ast.unparse(st)[:60]}`")
        return None


# ---------------------------------------------------------------------------------------------- (B) clone methods
class CloneExec(Exec):
    def __init__(self, fn: ast.FunctionDef, copy_returns: str):
        ps = [a.arg for a in fn.args.args]
        if not ps or fn.args.vararg or fn.args.kwarg or fn.args.kwonlyargs:
            fail(fn, "clone with *args / **kwargs")
        params = {ps[0]: SWho("self")}
        for p in ps[1:]:
            params[p] = SVal(V("param", p))
        super().__init__(params, clone_ctx=True)
        self.copy_returns = copy_returns
        self.phases: list[str] = []
        self.returned = False
        self.constructed = False
        self.stmts([s for s in fn.body if not is_docstring(s)], guarded=False, top=True)
        if not self.returned:
            fail(fn, "clone does not end with `return <the new agent>`")

    def emit(self, text: str):
        self.phases.append(text)

    def construct_call(self, node):
        """`type(self)(…)` / `self.__class__(…)` → Val of the class, else None"""
        f = node.func
        if isinstance(f, ast.Call) and dotted(f.func) == "type" and len(f.args) == 1 and not f.keywords:
            return V("typeOf", self.who(f.args[0]))
        if isinstance(f, ast.Attribute) and f.attr == "__class__" and isinstance(f.value, ast.Name) \
                and isinstance(self.env.get(f.value.id), SWho):
            return V("typeOf", self.who(f.value))
        return None

    def copy_call(self, node):
        if isinstance(node, ast.Call) and dotted(node.func) in ("EvolvableAlgorithm.copy_attributes", "copy_attributes"):
            if len(node.args) != 2 or node.keywords:
                fail(node, "copy_attributes called with an unexpected argument list")
            a, b = self.who(node.args[0]), self.who(node.args[1])
            self.emit(f".copyAttributes .{a} .{b}")
            return a if self.copy_returns == "self" else b
        return None

    def assign(self, st, tgt, value, guarded: bool):
        if isinstance(tgt, ast.Name):
            if isinstance(value, ast.Dict) and not value.keys:
                self.env[tgt.id] = SAcc()
                return
            if isinstance(value, ast.Call):
                cls = self.construct_call(value)
                if cls is not None:
                    if guarded or self.constructed:
                        fail(st, "a second / conditional construction of the new agent")
                    pos, kw = [], None
                    for a in value.args:
                        if isinstance(a, ast.Starred):
                            fail(st, "*args in the constructor call")
                        pos.append(self.val(a))
                    for k in value.keywords:
                        if k.arg is not None or kw is not None:
                            fail(st, "constructor keywords other than one `**<dict>`")
                        kw = self.val(k.value)
                    if kw is None:
                        fail(st, "constructor call without `**<constructor-argument dict>`")
                    self.emit(f".construct {cls.lean(True)} [{', '.join(p.lean() for p in pos)}] {kw.lean(True)}")
                    self.env[tgt.id] = SWho("clone")
                    self.constructed = True
                    return
                r = self.copy_call(value)
                if r is not None:
                    self.env[tgt.id] = SWho(r)
                    return
                f = value.func
                if isinstance(f, ast.Attribute) and f.attr == "clone" and isinstance(f.value, ast.Attribute) \
                        and f.value.attr == "agent" and isinstance(f.value.value, ast.Name) \
                        and isinstance(self.env.get(f.value.value.id), SWho) and self.who(f.value.value) == "self":
                    if value.keywords:
                        fail(st, "keywords in the inner clone call")
                    args = [self.val(a) for a in value.args]
                    self.emit(f".innerClone [{', '.join(a.lean() for a in args)}]")
                    self.env[tgt.id] = SVal(V("innerClone"))
                    return
                if dotted(f) == "OptimizerWrapper":
                    pos = [self.val(a) for a in value.args]
                    kws = {}
                    for k in value.keywords:
                        if k.arg is None:
                            fail(st, "**kwargs in the OptimizerWrapper call")
                        kws[k.arg] = self.val(k.value)
                    self.env[tgt.id] = SOpt(kws, pos)
                    return
            o = self.ev(value)
            self.env[tgt.id] = o if isinstance(o, (SInspect, SAcc)) else SVal(self.val(value))
            return
        if isinstance(tgt, ast.Subscript) and isinstance(tgt.value, ast.Name):
            d = self.env.get(tgt.value.id)
            if isinstance(d, SInspect) and isinstance(tgt.slice, ast.Constant) and isinstance(tgt.slice.value, str):
                v = self.val(value)
                if v.tag != "param":
                    fail(st, "a constructor argument that is not a parameter of clone")
                d.added.append(tgt.slice.value)
                return
            if isinstance(d, SAcc) and self.is_key(tgt.slice):
                v = self.val(value)
                br = getattr(self, "_branch", None)
                if br in (None, "single"):
                    d.single = v
                if br in (None, "list"):
                    d.list = v
                d.filled = True
                return
        if isinstance(tgt, ast.Attribute) and isinstance(tgt.value, ast.Name) and isinstance(self.env.get(tgt.value.id), SWho):
            self.emit(f".setField .{self.who(tgt.value)} {lean_str(tgt.attr)} {self.val(value).lean(True)} {lean_bool(guarded)}")
            return
        fail(st, f"assignment `{ast.unparse(st)[:60]}`")

    def expr_stmt(self, st, guarded: bool, loop: str | None):
        c = st.value
        if not isinstance(c, ast.Call):
            fail(st, "expression statement")
        fn = dotted(c.func)
        if fn in IGNORED_CALLS:
            return
        if self.copy_call(c) is not None:
            return
        if fn == "setattr":
            if len(c.args) != 3 or c.keywords:
                fail(st, "setattr with an unexpected argument list")
            dst = self.who(c.args[0])
            if not self.is_key(c.args[1]) or loop is None:
                fail(st, "setattr outside the module / optimizer loops or of another attribute")
            if loop == "net":
                o = self.ev(c.args[2])
                if isinstance(o, SAcc):
                    if o.single is None or o.list is None:
                        fail(st, "the module dict is not filled on every path")
                    single, lst = o.single, o.list
                else:
                    single = lst = self.val(c.args[2])
                src, only = self._loop_info
                self.emit(f".setNetworks .{src} .{dst} {lean_bool(only)} {single.lean(True)} {lst.lean(True)}")
                self._set_done = True
                return
            o = self.env.get(c.args[2].id) if isinstance(c.args[2], ast.Name) else None
            if not isinstance(o, SOpt):
                fail(st, "the optimizer attribute is assigned something that is not a new OptimizerWrapper")
            kws = dict(o.kwargs)
            if o.positional:
                kws["<positional>"] = o.positional[0] if len(o.positional) == 1 else fail(st, "several positional arguments")
            nets = kws.pop("networks", None)
            if nets is None:
                fail(st, "OptimizerWrapper without `networks=`")
            state = o.state if o.state is not None else fail(st, "the new optimizer never loads a state")
            kw = ", ".join(f"({lean_str(k)}, {kws[k].lean()})" for k in sorted(kws))
            self.emit(f".setOptimizers .{self._loop_info[0]} .{dst} {nets.lean(True)} {state.lean(True)} [{kw}]")
            self._set_done = True
            return
        if isinstance(c.func, ast.Attribute) and isinstance(c.func.value, ast.Name):
            o = self.env.get(c.func.value.id)
            m = c.func.attr
            if isinstance(o, SWho) and m in METHODS and not c.args and not c.keywords:
                self.emit(f".call .{o.who} .{METHODS[m]} {lean_bool(guarded)}")
                return
            if isinstance(o, SInspect) and m == "pop" and c.args and isinstance(c.args[0], ast.Constant) \
                    and isinstance(c.args[0].value, str):
                o.dropped.append(c.args[0].value)
                return
            if isinstance(o, SOpt) and m == "load_state_dict" and len(c.args) == 1 and not c.keywords:
                o.state = self.val(c.args[0])
                return
        fail(st, f"call `{ast.unparse(st)[:70]}`")

    def stmts(self, body, guarded: bool, top: bool = False, loop: str | None = None):
        for i, st in enumerate(body):
            if self.returned:
                fail(st, "a statement after return")
            if isinstance(st, ast.Assign) and len(st.targets) == 1:
                self.assign(st, st.targets[0], st.value, guarded)
            elif isinstance(st, ast.AnnAssign) and st.value is not None:
                self.assign(st, st.target, st.value, guarded)
            elif isinstance(st, ast.Expr):
                self.expr_stmt(st, guarded, loop)
            elif isinstance(st, ast.If):
                if loop == "net" and isinstance(st.test, ast.Call) and dotted(st.test.func) == "isinstance" \
                        and len(st.test.args) == 2 and dotted(st.test.args[1]) == "list" \
                        and self.val(st.test.args[0]) == V("attr", self._loop_info[0]):
                    self._branch = "list"
                    self.stmts(st.body, guarded, loop=loop)
                    self._branch = "single"
                    self.stmts(st.orelse, guarded, loop=loop)
                    self._branch = None
                elif loop is None:
                    self.stmts(st.body, True)
                    self.stmts(st.orelse, True)
                else:
                    fail(st, "a conditional inside the optimizer loop")
            elif isinstance(st, ast.For):
                if loop is not None or guarded or st.orelse:
                    fail(st, "nested / conditional loop")
                self.loop(st)
            elif isinstance(st, ast.Return):
                if not top or guarded or st.value is None or not isinstance(st.value, ast.Name) \
                        or not isinstance(self.env.get(st.value.id), SWho) or self.who(st.value) != "clone":
                    fail(st, "a return that does not return the new agent at the end of clone")
                self.returned = True
            else:
                fail(st, f"statement `{ast.unparse(st)[:60]}`")

    def loop(self, st: ast.For):
        it = st.iter
        if isinstance(it, ast.Call) and isinstance(it.func, ast.Attribute) and it.func.attr == "items" \
                and not it.args and not it.keywords and isinstance(it.func.value, ast.Call) \
                and isinstance(it.func.value.func, ast.Attribute) and it.func.value.func.attr == "evolvable_attributes" \
                and isinstance(it.func.value.func.value, ast.Name):
            inner = it.func.value
            src = self.who(inner.func.value)
            kws = {k.arg: k.value for k in inner.keywords}
            if set(kws) - {"networks_only"} or len(inner.args) > 1 or (inner.args and kws):
                fail(st, "evolvable_attributes called with an unexpected argument list")
            only = const_bool(inner.args[0] if inner.args else kws.get("networks_only"), False)
            if not (isinstance(st.target, ast.Tuple) and len(st.target.elts) == 2
                    and all(isinstance(t, ast.Name) for t in st.target.elts)):
                fail(st, "the module loop must bind `name, obj`")
            self.env[st.target.elts[0].id] = SKey()
            self.env[st.target.elts[1].id] = SVal(V("attr", src))
            self._loop_info = (src, only)
            kind = "net"
        elif dotted(it) is not None and dotted(it).endswith(".registry.optimizers") and isinstance(st.target, ast.Name) \
                and isinstance(self.env.get(dotted(it).split(".")[0]), SWho) and dotted(it).count(".") == 2:
            src = self.env[dotted(it).split(".")[0]].who
            self.env[st.target.id] = SCfg()
            self._loop_info = (src, False)
            kind = "opt"
        else:
            fail(st, f"loop over `{ast.unparse(it)[:60]}`")
        self._set_done = False
        self._branch = None
        self.stmts(st.body, guarded=False, loop=kind)
        if not self._set_done:
            fail(st, "a loop that assigns nothing to the new agent")


# ---------------------------------------------------------------------------------------------- files
def find_class(tree, name: str):
    cs = [n for n in tree.body if isinstance(n, ast.ClassDef) and n.name == name]
    if len(cs) != 1:
        raise Unsupported(f"{_current[0]}: expected exactly one class `{name}`, found {len(cs)}")
    return cs[0]


def find_method(cls: ast.ClassDef, name: str, static: bool):
    fs = [n for n in cls.body if isinstance(n, ast.FunctionDef) and n.name == name]
    if len(fs) != 1:
        raise Unsupported(f"{_current[0]}: expected exactly one `{cls.name}.{name}`, found {len(fs)}")
    decos = [dotted(d) for d in fs[0].decorator_list]
    if decos != (["staticmethod"] if static else []):
        fail(fs[0], f"`{name}` decorated with {decos}")
    return fs[0]


PRELUDE = r'''
namespace CloneGen

/-- runtime class of an attribute value as `callable(...)` / `isinstance(...)` see it; the classes are taken
    to be disjoint, `other` is an object of none of them (dict, space, number, …) -/
inductive Cls where
  | callable | algorithm | tensor | ndarray | list | registry | other
deriving DecidableEq, Repr

def Cls.isCallable (k : Cls) : Bool := k == .callable
def Cls.isInstance (k c : Cls) : Bool := k == c

/-- `self` = the agent being cloned (first parameter of the static methods), `clone` = the new agent -/
inductive Who where
  | self | clone
deriving DecidableEq, Repr

/-- provenance of a value, read off the expression that computes it -/
inductive Val where
  | attr (w : Who)                 -- the object `w` holds under the attribute at hand: `getattr(w, name)`, loop item
  | elem                           -- the variable of the enclosing comprehension
  | param (name : String)          -- a parameter of the method (`index`, `wrap`)
  | config                         -- read from the registry's optimizer config (`opt_config.<field>`, `getattr(torch.optim, …)`)
  | field (v : Val) (name : String)  -- `v.<name>`
  | deepcopy (v : Val)             -- `copy.deepcopy(v)`
  | torchClone (v : Val)           -- `torch.clone(v)` / tensor `.clone()`
  | moduleClone (v : Val)          -- `v.clone()` of an evolvable module
  | stateDict (v : Val)            -- `v.state_dict()`
  | listOf (elem src : Val)        -- `[elem for el in src]`
  | cloned                         -- an entry of the dict filled by the module loop (`cloned_modules[…]`)
  | choice (a b : Val)             -- `a if <test on the config> else b`
  | inspect (w : Who) (inputArgsOnly : Bool) (added dropped : List String)  -- `inspect_attributes(w, …)` ± keys
  | typeOf (w : Who)               -- `type(w)` / `w.__class__`
  | innerClone                     -- result of `self.agent.clone(…)` (AgentWrapper)
deriving DecidableEq, Repr

/-- does the object share mutable cells: with nobody (`fresh`), with the parent (`parent`), or is it what the
    clone already holds (`own`) -/
inductive Share where
  | fresh | parent | own
deriving DecidableEq, Repr

/-- PYTHON SEMANTICS assumed: `copy.deepcopy`, `torch.clone`, `EvolvableModule.clone` return objects that share
    no mutable cell with their argument; `state_dict()` and attribute access return references into their
    argument; a list comprehension builds a new list whose elements are what the element expression yields. -/
def Val.shareWith (el : Share) : Val → Share
  | .attr .self => .parent
  | .attr .clone => .own
  | .elem => el
  | .param _ => .fresh
  | .config => .parent
  | .field v _ => v.shareWith el
  | .deepcopy _ => .fresh
  | .torchClone _ => .fresh
  | .moduleClone _ => .fresh
  | .stateDict v => v.shareWith el
  | .listOf e src => e.shareWith (src.shareWith el)
  | .cloned => .fresh
  | .choice a b => if a.shareWith el = b.shareWith el then a.shareWith el else .parent
  | .inspect .self _ _ _ => .parent
  | .inspect .clone _ _ _ => .own
  | .typeOf _ => .fresh
  | .innerClone => .fresh

def Val.share (v : Val) : Share := v.shareWith .parent

/-- one iteration of the loop of `copy_attributes`, as a tree -/
inductive Act where
  | skip                           -- `continue`
  | keep                           -- no statement assigns the attribute
  | assign (dst : Who) (v : Val)   -- `setattr(dst, attribute, v)`
  | attempt (a b : Act)            -- `try: a  except …: b`
deriving DecidableEq, Repr

/-- what happens to the clone's attribute -/
inductive Action where
  | skip | keepOwn | freshDeep | freshPerElement | byRef
  | invalid                        -- writes the parent, or a try / except whose arms disagree
deriving DecidableEq, Repr

def Val.action (v : Val) : Action :=
  match v with
  | .listOf e src =>
    if e.shareWith .parent = .fresh ∧ src.share = .parent then .freshPerElement
    else match (Val.listOf e src).share with
      | .fresh => .freshDeep | .parent => .byRef | .own => .keepOwn
  | v => match v.share with
    | .fresh => .freshDeep | .parent => .byRef | .own => .keepOwn

def Act.action : Act → Action
  | .skip => .skip
  | .keep => .keepOwn
  | .assign .clone v => v.action
  | .assign .self _ => .invalid
  | .attempt a b =>
    let x := a.action
    let y := b.action
    if x = y then x
    else if (x = .freshDeep ∨ x = .freshPerElement) ∧ (y = .freshDeep ∨ y = .freshPerElement) then x
    else if x = .byRef ∨ y = .byRef then .byRef
    else .invalid

inductive Method where
  | mutationHook | unwrapModels | wrapModels | recompile
deriving DecidableEq, Repr

/-- one effect of `clone` on the new agent, in source order -/
inductive Phase where
  | construct (cls : Val) (positional : List Val) (kwargs : Val)   -- `<cls>(*positional, **kwargs)`
  | call (w : Who) (m : Method) (guarded : Bool)                   -- `w.m()`; guarded: under an `if`
  | setNetworks (src dst : Who) (networksOnly : Bool) (single list : Val)
      -- for every evolvable attribute of `src`: `setattr(dst, name, <list> if it is a list else <single>)`
  | setOptimizers (src dst : Who) (networks state : Val) (kwargs : List (String × Val))
      -- for every optimizer config of `src`'s registry: new OptimizerWrapper over `networks`, `load_state_dict(state)`
  | copyAttributes (src dst : Who)                                 -- `copy_attributes(src, dst)`
  | setField (w : Who) (field : String) (v : Val) (guarded : Bool) -- `w.<field> = v`
  | innerClone (args : List Val)                                   -- `self.agent.clone(*args)`
deriving Repr

/-- what the heap semantics keeps of a phase -/
inductive Sem where
  | construct (args : Share)
  | modules (single list : Share)
  | hook
  | optimizers (netsCloned : Bool) (state : Share)
  | copyAttrs
  | index
  | identity           -- no effect on which cells the clone reaches (accelerator / compiler plumbing, inner clone)
  | unknown            -- an effect this reading of the source does not understand
deriving DecidableEq, Repr

def Val.isCloned : Val → Bool
  | .cloned => true
  | .listOf .cloned _ => true
  | .choice a b => a.isCloned && b.isCloned
  | _ => false

/-- `inspectValue`: the value `inspect_attributes(·, input_args_only=True)` puts under each name -/
def Phase.sem (inspectValue : Val) : Phase → Sem
  | .construct (.typeOf .self) pos (.inspect .self true _ _) =>
    if pos.all (· == .innerClone) then .construct inspectValue.share else .unknown
  | .construct _ _ _ => .unknown
  | .call .clone .mutationHook false => .hook
  | .call _ .mutationHook _ => .unknown
  | .call _ _ _ => .identity
  | .setNetworks .self .clone true single list => .modules single.share list.share
  | .setNetworks _ _ _ _ _ => .unknown
  | .setOptimizers .self .clone nets state _ => .optimizers nets.isCloned state.share
  | .setOptimizers _ _ _ _ _ => .unknown
  | .copyAttributes .self .clone => .copyAttrs
  | .copyAttributes _ _ => .unknown
  | .setField .clone field _ _ => if field = "index" then .index else .unknown
  | .setField .self _ _ _ => .unknown
  | .innerClone _ => .identity

/-- a member of an object as `inspect_attributes` sees it -/
structure Member where
  routine : Bool              -- `inspect.isroutine(value)`
  evolvable : Bool            -- name ∈ `agent.evolvable_attributes()`
  tensorDict : Bool           -- `isinstance(value, TensorDict)`
  leadingUnderscore : Bool    -- `name.startswith("_")`
  trailingUnderscore : Bool   -- `name.endswith("_")`
  ctorParam : Bool            -- name ∈ `inspect.signature(agent.__init__).parameters`
deriving DecidableEq, Repr
'''

ASSUMED = [
    "the classes tested by copy_attributes are disjoint; a value of none of them is `other`; parent and clone hold "
    "values of the same class under the same name",
    "torch.equal, np.array_equal and != are one abstract equality test `eq`",
    "copy.deepcopy / torch.clone / EvolvableModule.clone return objects sharing no mutable cell with their argument; "
    "state_dict() and attribute access return references (`Val.shareWith`)",
    "the constructor stores an argument as it is given and builds every other attribute anew",
    "unwrap_models / wrap_models / recompile / torch.set_float32_matmul_precision do not change which mutable cells "
    "an agent reaches; the conditions guarding them are not translated",
    "what mutation_hook does is a parameter of the semantics (Heap.stepSlot)",
]


def repo_dir(arg: str | None) -> Path:
    if arg:
        return Path(arg)
    return Path(os.environ.get("VERIF_REPO", "/repo"))


def _parse(repo: Path, rel: str, h) -> ast.Module:
    path = Path(repo) / rel
    try:
        raw = path.read_bytes()
    except OSError as e:
        raise Unsupported(f"cannot read {path}: {e}") from e
    h.update(rel.encode() + b"\0" + raw + b"\0")
    _current[0] = rel
    try:
        return ast.parse(raw.decode("utf-8"))
    except SyntaxError as e:
        raise Unsupported(f"{rel}:{e.lineno}: not parseable: {e.msg}") from e


def analyse(repo: Path):
    """(CopyAttr, Inspect, CloneExec of EvolvableAlgorithm.clone, CloneExec of AgentWrapper.clone, sha256)"""
    h = hashlib.sha256()
    try:
        base = _parse(repo, BASE_SOURCE, h)
        algo = find_class(base, "EvolvableAlgorithm")
        insp = Inspect(find_method(algo, "inspect_attributes", True))
        cp = CopyAttr(find_method(algo, "copy_attributes", True))
        cl = CloneExec(find_method(algo, "clone", False), cp.returns)
        wrap = _parse(repo, WRAP_SOURCE, h)
        wcl = CloneExec(find_method(find_class(wrap, "AgentWrapper"), "clone", False), cp.returns)
    except RecursionError as e:
        raise Unsupported(f"{_current[0]}: expression too deep") from e
    return cp, insp, cl, wcl, h.hexdigest()


def branch_classes(repo: Path) -> list[list[str]]:
    """the class tests on the PARENT's value in the if-chain of copy_attributes, in source order, e.g.
    [['callable', 'algorithm'], ['tensor'], ['ndarray'], ['list'], ['registry']] — for the consistency check
    between walker.classify and the generated decision table"""
    cp, *_ = analyse(repo)
    return [list(b) for b in cp.branch_classes]


def translate(repo: Path) -> tuple[str, str]:
    """returns (lean text, sha256 over the two source files); raises Unsupported"""
    cp, insp, cl, wcl, sha = analyse(repo)
    out: list[str] = PRELUDE.split("\n")

    def phase_list(name: str, doc: str, phases: list[str]):
        out.append(f"/-- {doc} -/")
        out.append(f"def {name} : List Phase := [")
        out.extend("  " + p + ("," if i < len(phases) - 1 else "") for i, p in enumerate(phases))
        out.append("]")
        out.append("")

    out += [
        f"/-! ## `EvolvableAlgorithm.copy_attributes` ({BASE_SOURCE}) -/",
        "",
        "/-- whose attributes the loop runs over: `inspect_attributes(<who>, input_args_only=<flag>).keys()` -/",
        f"def copyAttrDomain : Who × Bool := (.{cp.domain[0]}, {lean_bool(cp.domain[1])})",
        "",
        "/-- what `copy_attributes` returns -/",
        f"def copyAttrReturns : Who := .{cp.returns}",
        "",
        "/-- one iteration of the loop: `agentHas` / `cloneHas` = `hasattr(agent | clone, attribute)`, `ka` / `kc` = class of",
        "    the parent's / the clone's value, `eq` = outcome of the equality test between the two values -/",
        "def copyAttr (agentHas cloneHas : Bool) (ka kc : Cls) (eq : Bool) : Act :=",
        "  " + cp.tree,
        "",
        "/-- the decision table for an attribute both agents have, values of the same class -/",
        "def copyRule (k : Cls) (equalToCloneOwn : Bool) : Action := (copyAttr true true k k equalToCloneOwn).action",
        "",
        "/-- … and for an attribute the clone's constructor did not create -/",
        "def copyAbsent (k : Cls) (eq : Bool) : Action := (copyAttr true false k k eq).action",
        "",
        f"/-! ## `EvolvableAlgorithm.inspect_attributes` ({BASE_SOURCE}) -/",
        "",
        "/-- is the member listed -/",
        "def inspectListed (inputArgsOnly : Bool) (m : Member) : Bool :=",
        "  " + insp.listed,
        "",
        "/-- the value stored under a listed name -/",
        "def inspectValue (inputArgsOnly : Bool) : Val :=",
        "  " + insp.value,
        "",
        f"/-! ## `EvolvableAlgorithm.clone` ({BASE_SOURCE}) -/",
        "",
    ]
    phase_list("clonePhases", "the effects of `clone` on the new agent, in source order", cl.phases)
    out += ["def cloneSem : List Sem := clonePhases.map (Phase.sem (inspectValue true))", "",
            f"/-! ## `AgentWrapper.clone` ({WRAP_SOURCE}) -/", ""]
    phase_list("wrapperClonePhases", "the effects of `AgentWrapper.clone` on the new wrapper, in source order", wcl.phases)
    out += ["def wrapperCloneSem : List Sem := wrapperClonePhases.map (Phase.sem (inspectValue true))", ""]
    header = "\n".join([
        "/-",
        "  Gen/CloneGen.lean — GENERATED by harness/py2lean_clone.py from `EvolvableAlgorithm.{inspect_attributes,",
        "  copy_attributes, clone}` and `AgentWrapper.clone` of",
        "  " + REL_SOURCE + "; do not edit.  Core Lean only.",
        "  `Proofs/CloneGenEq.lean` proves the definitions equal to the explicit clone semantics of `Model/Heap.lean`.",
        "  Assumed:",
    ] + [f"    * {a}" for a in ASSUMED] + [
        "-/",
        SHA_PREFIX + sha,
        "set_option linter.unusedVariables false",
        "",
    ])
    return header + "\n".join(out).rstrip() + "\n\nend CloneGen\n", sha


def strip_sha(text: str) -> str:
    return "\n".join(ln for ln in text.split("\n") if not ln.startswith(SHA_PREFIX))


def write_if_changed(text: str, out: Path, force: bool = False) -> bool:
    """writes `text` unless the file already holds the same translation (sha line ignored)"""
    out = Path(out)
    old = out.read_text() if out.exists() else None
    if old is not None and not force and strip_sha(old) == strip_sha(text):
        return False
    if old == text:
        return False
    out.parent.mkdir(parents=True, exist_ok=True)
    tmp = out.with_suffix(".lean.tmp")
    tmp.write_text(text)
    os.replace(tmp, out)
    return True


def main(argv: list[str]) -> int:
    import argparse
    ap = argparse.ArgumentParser()
    ap.add_argument("--repo", default=None)
    ap.add_argument("--out", default=str(DEFAULT_OUT))
    ap.add_argument("--stdout", action="store_true")
    ap.add_argument("--force", action="store_true", help="rewrite even if only the sha256 line differs")
    a = ap.parse_args(argv)
    try:
        text, sha = translate(repo_dir(a.repo))
    except Unsupported as e:
        print(f"py2lean_clone: {e}", file=sys.stderr)
        return 1
    if a.stdout:
        sys.stdout.write(text)
        return 0
    changed = write_if_changed(text, Path(a.out), a.force)
    print(f"{a.out}: {'written' if changed else 'unchanged'} (source sha256 {sha[:16]}…, "
          f"translation sha256 {hashlib.sha256(strip_sha(text).encode()).hexdigest()[:16]}…)")
    return 0


if __name__ == "__main__":
    sys.exit(main(sys.argv[1:]))
