#!/usr/bin/env python3
"""
py2lean_dist.py — translate the FORMULA STRUCTURE of log-probability, entropy, masking and squashing in
REPO/agilerl/networks/distributions.py (`sum_independent_tensor`, `apply_action_mask_discrete`, the four handler
classes, `TorchDistribution`, `EvolvableDistribution`) and of `StochasticActor.{__init__, scale_action, forward,
action_log_prob, action_entropy}` in REPO/agilerl/networks/actors.py into Lean 4.

    python3 harness/py2lean_dist.py [--repo DIR] [--out FILE] [--stdout] [--force]

Reads the *source text* only (Python `ast`; agilerl, torch, numpy, gymnasium are never imported) and writes
lean/Gen/DistGen.lean (namespace DistGen, one sub-namespace per action-space kind; core Lean only).
`Proofs/DistGenEq.lean` proves the generated definitions equal to the composition functions of the hand-written
`Model/Dist.lean` (`maskLogits`, `maskSplit`, `multiCatLogProb`, `bernLogProb`, `indepLogProb`, `sumEntropy`,
`TorchDist.sample / logProbFixed / entropy`, `evalStoredFixed`) and `Action.rescaleWith`; `Props/C16.lean` restates
the C16 theorems over the generated definitions (`C16_source_translation_*`).

How.  distributions.py is dynamic Python (handler objects looked up in a class-level dict by `isinstance`, Python lists
of distributions, optional values, attributes that cache the last sample), so the translator is a *symbolic executor*
(as py2lean_bandit.py) and not a statement-by-statement transliteration.  For every action-space kind
(Box, Discrete, MultiDiscrete, MultiBinary and "any other class") it builds a `StochasticActor` object by executing
`StochasticActor.__init__` and `EvolvableDistribution.__init__` on symbolic arguments and then executes the methods
named below on it, statement by statement, call by call (every call of a function / method / constructor defined in
the two files is inlined).  Values are symbolic: per batch ROW, a rank-1 tensor is a number (`α` / `Nat`), a rank-2
tensor a list (`List α`, `List Nat`, `List Bool`), a Python list / tuple of tensors a list of those.  Every operator,
constant, comparison, operand order, keyword argument, branch condition and the order of the `isinstance` chains and of
the `_handlers` dict flows from the AST:
  * a condition that is decided by what is known (the class of the action space, of a distribution object, `x is
    None`, the rank in `len(tensor.shape) > 1`, the keys of the literal dict `_handlers`) selects the branch that is
    executed — so WHICH distribution is built for WHICH space and WHICH handler serves it is read off the chain in
    source order;
  * a condition on a symbolic boolean (`squash_output`, `action is self._squashed_sample` for an action that comes
    from outside) forks the execution; the outcomes are emitted as an `if` tree over these atoms;
  * a condition that only asks for the container of a value (`isinstance(action_mask, (np.ndarray, list))`,
    `action_mask.dtype == np.object_`, `isinstance(action, np.ndarray)`) forks too, and both sides must give the same
    result (the translated text is rejected otherwise).
Locals are substituted by their values, so renaming a local, introducing a temporary, `x -= y` ↔ `x = x - y` and
reordering independent statements do not change the output.

Output per kind K (namespace `DistGen.K`; a definition whose every path raises is emitted as
`def <name>_raises : String := "<ExceptionClass>"`; a mix of raising and returning paths is Unsupported):
    squash_flag     `head_net.squash_output` after the constructors
    log_std_init    `head_net.log_std` after the constructors (Box)
    masked_logits   `head_net.apply_mask(logits, mask)`
    distribution    `head_net.get_distribution(logits).distribution` as a `Distr α`
    forward         `actor.forward(obs)`                : (action, log_prob, entropy)
    forward_masked  `actor.forward(obs, action_mask)`   : (action, log_prob, entropy)
    log_prob_stored `actor.forward(obs)` (fresh draw), then `actor.action_log_prob(action)` for an action from outside
    entropy_stored  `actor.forward(obs)`, then `actor.action_entropy()`
    scale_action    `actor.scale_action(action)` (Box)
After the constructors `head_net.log_std` is replaced by an input `log_std` (it is a trained Parameter).

Elementary functions are NOT translated: `torch.log / exp / tanh / atanh`, `Tensor.clamp`, and the log-densities /
entropies of `torch.distributions.{Normal, Categorical, Bernoulli}` are fields of the structure `Prims α`
(`log exp tanh atanh clamp normalLogPdf normalEntropy categoricalLogProb categoricalEntropy bernoulliLogProb
bernoulliEntropy`, plus `lit : Rat → α` for the literals: a Python float literal is read as the decimal the source
writes, `1e-6` = 1/1000000) — explicit parameters of every generated definition, exactly as the hand model treats them.

Supported subset (anything else met on an executed path raises `Unsupported` naming the construct and line):
  * statements: docstring; `x = e`, `self.a = e`, `a, b = e`; `x op= e` for `+ - *`; `if / elif / else`; `return`;
    `raise C(...)` (the class name is the outcome); `assert e`; an expression statement that is a call;
    `for <targets> in <static sequence>:` (unrolled: `.items()` of a literal dict); `acc = []` … `for <targets> in
    zip(l1, l2): acc.append(e)` and list comprehensions / generator expressions with one `for` and no `if` over
    symbolic lists (→ `List.map` / `List.zipWith`).
  * expressions: literals, names, attributes of `self` (a field that the translated code never assigned is an opaque
    external value), `+ - *` (rank-1 ∘ rank-1 → number, number ∘ rank-2 → `List.map`, rank-2 ∘ rank-2 →
    `List.zipWith`), unary `-` on a literal, `not`, `and` / `or` (short-circuit, forking), `is` / `is not`,
    `== != < <= > >=` of static integers, `a if c else b`, tuples, list displays, subscripts of a literal dict,
    `isinstance`, `len`, `list`, `all`, `zip`, `super().__init__(…)` and calls of functions / classes defined in the
    two files; of torch / numpy: `torch.where`, `torch.full_like`, `torch.split(x, sizes, dim=1)`,
    `torch.cat(l, dim=1)`, `torch.stack(l, dim=1)`, `torch.unbind(x, dim=1)`, `torch.tanh / atanh / log / exp`,
    `torch.as_tensor`, `torch.ones(1, n)`, `torch.nn.Parameter`, `torch.finfo(x.dtype).eps`, `np.prod(shape)`,
    `np.stack`, `x.sum(dim=1)`, `x.pow(k)`, `x.clamp(min=, max=)`, `x.expand_as(y)`, `x.view(y.shape)`,
    `x.to / cpu / numpy`, `x.shape / dtype / device`; of `torch.distributions`: `Normal(loc, scale)`,
    `Categorical(logits=)`, `Bernoulli(logits=)` and their `.sample() / .log_prob(x) / .entropy()`.

Assumptions (listed again in the header of the generated file, together with the opaque calls met):
  * one batch row; shapes agree (a shape error of torch is not modelled; `expand_as`, `view(logits.shape)`,
    `.to / .cpu / .numpy / as_tensor / np.stack / nn.Parameter` are the identity on a row);
  * the output of the wrapped network (`self.wrapped(latent)`) is an input `logits`; every `.sample()` of a
    `torch.distributions` object is an input `draw` of the type of that distribution's support (Normal: `List α`,
    Categorical: `Nat`, Bernoulli: `List Bool`; a comprehension of draws over a list of Categoricals: `List Nat`, one
    draw per component); `torch.finfo(dtype).eps` is an input `finfo_eps`;
  * torch's argument validation (`validate_args`: an index outside the support raises) is not modelled: the primitives
    are total;
  * methods that are not defined in the two files (`super().__init__`, `create_mlp`, `extract_features`, …) return
    opaque values and do not assign the fields the translated methods read;
  * `x is y` for a tensor `x` that comes from outside and a tensor `y` cached in an attribute is an input boolean.

The header carries the sha256 of the two source files; `write_if_changed` compares everything *but* that line.
"""
from __future__ import annotations

import ast
import hashlib
import os
import sys
from fractions import Fraction
from pathlib import Path

HERE = Path(__file__).resolve().parent
DEFAULT_OUT = HERE.parent / "lean" / "Gen" / "DistGen.lean"
REL_SOURCE = "agilerl/networks/distributions.py"
REL_ACTORS = "agilerl/networks/actors.py"
REL_SOURCES = [REL_SOURCE, REL_ACTORS]
SHA_PREFIX = "-- sha256(source) = "

KINDS = [("Box", "box"), ("Discrete", "discrete"), ("MultiDiscrete", "multiDiscrete"), ("MultiBinary", "multiBinary"),
         ("Other", "other")]
SPACE_CLASSES = {"Box": "box", "Discrete": "discrete", "MultiDiscrete": "multiDiscrete", "MultiBinary": "multiBinary",
                 "Dict": "dict", "Tuple": "tuple", "Space": "*"}
# torch.distributions classes: constructor of `Distr`, parameter names in positional order, type of the support
DIST_CLASSES = {"Normal": ("normal", ["loc", "scale"], "V"), "Categorical": ("categorical", ["logits"], "N"),
                "Bernoulli": ("bernoulli", ["logits"], "VB")}


class Unsupported(Exception):
    pass


def fail(node, what: str, file: str | None = None):
    line = getattr(node, "lineno", "?")
    raise Unsupported(f"{file or CUR_FILE[0]}:{line}: unsupported construct: {what}")


CUR_FILE = [REL_SOURCE]

PRELUDE = r'''
namespace DistGen

/-- the elementary functions of torch and the primitive log-densities / entropies of `torch.distributions`:
    explicit parameters of every definition below (never defaults).  `lit` embeds the literals of the source. -/
structure Prims (α : Type) where
  lit : Rat → α
  log : α → α
  exp : α → α
  tanh : α → α
  atanh : α → α
  /-- `x.clamp(min = lo, max = hi)` : `clamp lo hi x` -/
  clamp : α → α → α → α
  /-- `Normal(mean, std).log_prob(x)` per coordinate : `normalLogPdf mean std x` -/
  normalLogPdf : α → α → α → α
  /-- `Normal(mean, std).entropy()` per coordinate -/
  normalEntropy : α → α → α
  /-- `Categorical(logits = l).log_prob(k)` -/
  categoricalLogProb : List α → Nat → α
  categoricalEntropy : List α → α
  /-- `Bernoulli(logits = l).log_prob(b)` per bit -/
  bernoulliLogProb : α → Bool → α
  bernoulliEntropy : α → α

/-- which `torch.distributions` object `get_distribution` wraps (`categoricals`: a Python list of `Categorical`) -/
inductive Distr (α : Type) where
  | normal (loc scale : List α)
  | categorical (logits : List α)
  | bernoulli (logits : List α)
  | categoricals (logits : List (List α))

/-- `torch.split(x, sizes, dim=1)` on one row -/
def splitSizes {β : Type} (xs : List β) : List Nat → List (List β)
  | [] => []
  | n :: ns => xs.take n :: splitSizes (xs.drop n) ns

/-- `torch.where(c, a, b)` on one row -/
def where3 {β : Type} : List Bool → List β → List β → List β
  | c :: cs, a :: as, b :: bs => (if c then a else b) :: where3 cs as bs
  | _, _, _ => []

def zipWith3 {β γ δ ε : Type} (f : β → γ → δ → ε) : List β → List γ → List δ → List ε
  | a :: as, b :: bs, c :: cs => f a b c :: zipWith3 f as bs cs
  | _, _, _ => []

/-- `x.expand_as(y)` for a `(1, d)` tensor `x` and a `(B, d)` tensor `y`, on one row -/
def expandAs {β : Type} (x _like : List β) : List β := x

/-- `x.pow(k)` for a literal natural `k` -/
def powNat {β : Type} [Mul β] (one x : β) : Nat → β
  | 0 => one
  | n + 1 => powNat one x n * x

variable {α : Type} [Add α] [Sub α] [Mul α] [Zero α]
'''

# ---------------------------------------------------------------------------------------------- values
S, V, N, VN, VB = "S", "V", "N", "VN", "VB"
LEAN_TY = {S: "α", V: "List α", N: "Nat", VN: "List Nat", VB: "List Bool", "B": "Bool",
           "LV": "List (List α)", "LVB": "List (List Bool)"}
RANK = {S: 1, N: 1, V: 2, VN: 2, VB: 2}
LIST_OF = {S: V, N: VN, V: "LV", VB: "LVB"}          # a Python list of rank-k row values, as a Lean list
ELEM_OF = {V: S, VN: N, VB: "B"}


class Val:
    pass


class Static(Val):
    """a Python value known at translation time: None, bool, int, float, str, tuple / list of Val, dict items"""

    def __init__(self, v):
        self.v = v

    def __repr__(self):
        return f"Static({self.v!r})"


class ClassRef(Val):
    def __init__(self, kind: str, name: str, file: str | None = None):
        self.kind, self.name, self.file = kind, name, file    # kind: space | dist | local | builtin | other

    def __repr__(self):
        return f"<class {self.name}>"


class ModRef(Val):
    def __init__(self, dotted: str):
        self.dotted = dotted


class FuncRef(Val):
    def __init__(self, fn: ast.FunctionDef, file: str):
        self.fn, self.file = fn, file


class Bound(Val):
    """a bound method of a symbolic value"""

    def __init__(self, obj: Val, name: str):
        self.obj, self.name = obj, name


class Tens(Val):
    """a tensor on one row: type tag + Lean term; `inp`: an input of the definition; `torch`: known to be a tensor"""

    def __init__(self, ty: str, term: str, inp: bool = False, torch: bool | None = True, what: str = ""):
        self.ty, self.term, self.inp, self.torch, self.what = ty, term, inp, torch, what

    def __repr__(self):
        return f"Tens({self.ty}, {self.term})"


class BoolAtom(Val):
    def __init__(self, name: str, repr_only: bool = False):
        self.name, self.repr_only = name, repr_only


class Inst(Val):
    def __init__(self, cls: str, file: str, oid: int):
        self.cls, self.file, self.oid = cls, file, oid


class DistObj(Val):
    def __init__(self, cls: str, args: dict):
        self.cls, self.args = cls, args


class SpaceObj(Val):
    def __init__(self, kind: str):
        self.kind = kind


class MapList(Val):
    """a Python list / tuple of symbolic length: `elem` for the binders running over `zip(srcs)`"""

    def __init__(self, srcs: list, binders: list, elem: Val):
        self.srcs, self.binders, self.elem = srcs, binders, elem      # srcs: [(lean term, elem type)]


class Opaque(Val):
    def __init__(self, what: str, module_field: bool = False):
        self.what, self.module_field = what, module_field       # module_field: a declared attribute holding a network

    def __repr__(self):
        return f"Opaque({self.what})"


class Marker(Val):
    def __init__(self, kind: str, of: Val):
        self.kind, self.of = kind, of


class Raised:
    def __init__(self, cls: str, line):
        self.cls, self.line = cls, line


class State:
    """frames (locals of the inlined calls), heap (fields of the objects), path condition, inputs used"""

    def __init__(self):
        self.frames: list[dict] = []
        self.heap: dict[int, dict] = {}
        self.pc: tuple = ()
        self.ndraws = 0

    def copy(self) -> "State":
        s = State()
        s.frames = [dict(f) for f in self.frames]
        s.heap = {k: dict(v) for k, v in self.heap.items()}
        s.pc = self.pc
        s.ndraws = self.ndraws
        return s

    def known(self, atom: str):
        for a, b in self.pc:
            if a == atom:
                return b
        return None

    def assume(self, atom: str, b: bool) -> "State":
        s = self.copy()
        s.pc = self.pc + ((atom, b),)
        return s


class StaticDict(Val):
    def __init__(self, items: list):
        self.items = items           # [(key Val, value Val)] in source order


class Module:
    def __init__(self, rel: str, src: str):
        self.rel = rel
        self.tree = ast.parse(src)
        self.funcs: dict[str, ast.FunctionDef] = {}
        self.classes: dict[str, ast.ClassDef] = {}
        self.imports: dict[str, str] = {}
        for st in self.tree.body:
            if isinstance(st, ast.FunctionDef):
                self.funcs[st.name] = st
            elif isinstance(st, ast.ClassDef):
                self.classes[st.name] = st
            elif isinstance(st, ast.Import):
                for a in st.names:
                    self.imports[a.asname or a.name.split(".")[0]] = a.name if a.asname else a.name.split(".")[0]
            elif isinstance(st, ast.ImportFrom) and st.module and st.level == 0:
                for a in st.names:
                    self.imports[a.asname or a.name] = st.module + "." + a.name


BUILTINS = ("list", "len", "isinstance", "all", "zip", "super", "tuple", "int", "float", "bool")
CANON_MOD = {"numpy": "np", "torch": "torch", "gymnasium.spaces": "spaces", "gymnasium": "gymnasium"}
IDENTITY_METHODS = ("to", "cpu", "numpy", "detach", "clone", "float", "contiguous")
ARITH = {ast.Add: "+", ast.Sub: "-", ast.Mult: "*"}


def frac_of(c) -> Fraction:
    if type(c) is int:
        return Fraction(c)
    return Fraction(repr(c))          # the decimal the source writes: 1e-6 = 1/1000000


def lit(q: Fraction) -> str:
    if q.denominator == 1:
        return f"(P.lit ({q.numerator}))"
    return f"(P.lit ({q.numerator} / {q.denominator}))"


def same_class(a: Val, b: Val) -> bool:
    return isinstance(a, ClassRef) and isinstance(b, ClassRef) and (a.kind, a.name) == (b.kind, b.name)


class Exec:
    def __init__(self, mods: dict[str, Module]):
        self.mods = mods
        self.dist_mod = mods[REL_SOURCE]
        self.noid = 0
        self.nbind = 0
        self.nrepr = 0
        self.inputs: dict[str, str] = {}          # every input created: name -> Lean type
        self.assumed: set[str] = set()
        self.hint: str | None = None
        self.in_comp: list | None = None          # draws met while evaluating a comprehension element

    # ------------------------------------------------------------------ inputs / binders
    def inp(self, name: str, ty: str, torch=True) -> Tens:
        if self.inputs.setdefault(name, LEAN_TY[ty]) != LEAN_TY[ty]:
            raise Unsupported(f"input `{name}` needed with two types ({self.inputs[name]}, {LEAN_TY[ty]})")
        return Tens(ty, name, inp=True, torch=torch, what=name)

    def binder(self) -> str:
        self.nbind += 1
        return f"c{self.nbind - 1}"

    def repr_atom(self) -> BoolAtom:
        self.nrepr += 1
        return BoolAtom(f"repr{self.nrepr - 1}", repr_only=True)

    def mod_of(self, st: State) -> Module:
        return st.frames[-1]["$mod"]

    # ------------------------------------------------------------------ names
    def resolve(self, node: ast.Name, st: State) -> Val:
        name = node.id
        fr = st.frames[-1]
        if name in fr:
            return fr[name]
        mod = self.mod_of(st)
        return self.module_name(name, mod, node)

    def module_name(self, name: str, mod: Module, node) -> Val:
        if name in mod.funcs:
            return FuncRef(mod.funcs[name], mod.rel)
        if name in mod.classes:
            return ClassRef("local", name, mod.rel)
        if name in mod.imports:
            return self.canon(mod.imports[name], node)
        if name in BUILTINS:
            return ClassRef("builtin", name)
        fail(node, f"name `{name}` (not a local, not defined / imported at module level)")

    def canon(self, d: str, node) -> Val:
        parts = d.split(".")
        if d.startswith("torch.distributions.") and (parts[-1] in DIST_CLASSES or parts[-1] == "Distribution"):
            return ClassRef("dist", parts[-1])
        if d.startswith("gymnasium.spaces.") and parts[-1] in SPACE_CLASSES:
            return ClassRef("space", parts[-1])
        if d.startswith("agilerl.networks.distributions."):
            if parts[-1] in self.dist_mod.classes:
                return ClassRef("local", parts[-1], REL_SOURCE)
            if parts[-1] in self.dist_mod.funcs:
                return FuncRef(self.dist_mod.funcs[parts[-1]], REL_SOURCE)
        for k, v in CANON_MOD.items():
            if d == k or d.startswith(k + "."):
                return ModRef(v + d[len(k):])
        return ModRef(d)

    # ------------------------------------------------------------------ expressions
    def ev(self, n, st: State):
        """generator of (state, value); value may be `Raised`"""
        CUR_FILE[0] = self.mod_of(st).rel
        if isinstance(n, ast.Constant):
            if n.value is None or type(n.value) in (bool, int, float, str):
                yield st, Static(n.value)
                return
            fail(n, f"constant {n.value!r}")
        if isinstance(n, ast.Name):
            yield st, self.resolve(n, st)
            return
        if isinstance(n, ast.JoinedStr):
            yield st, Static("<f-string>")
            return
        if isinstance(n, ast.Tuple) or isinstance(n, ast.List):
            for st1, vs in self.ev_seq(n.elts, st):
                if isinstance(vs, Raised):
                    yield st1, vs
                else:
                    yield st1, Static(tuple(vs) if isinstance(n, ast.Tuple) else list(vs))
            return
        if isinstance(n, ast.Dict):
            if any(k is None for k in n.keys):
                fail(n, "dict display with `**`")
            for st1, ks in self.ev_seq(n.keys, st):
                if isinstance(ks, Raised):
                    yield st1, ks
                    continue
                for st2, vs in self.ev_seq(n.values, st1):
                    yield st2, (vs if isinstance(vs, Raised) else StaticDict(list(zip(ks, vs))))
            return
        if isinstance(n, ast.Attribute):
            for st1, v in self.ev(n.value, st):
                if isinstance(v, Raised):
                    yield st1, v
                else:
                    yield from self.attribute(n, v, st1)
            return
        if isinstance(n, ast.UnaryOp):
            if isinstance(n.op, ast.USub):
                for st1, v in self.ev(n.operand, st):
                    if isinstance(v, Static) and type(v.v) in (int, float):
                        yield st1, Static(-v.v)
                    elif isinstance(v, Raised):
                        yield st1, v
                    else:
                        fail(n, "unary minus on other than a literal")
                return
            if isinstance(n.op, ast.Not):
                for st1, t in self.truth(n, st):
                    yield st1, (t if isinstance(t, Raised) else Static(t))
                return
            fail(n, f"unary operator {type(n.op).__name__}")
        if isinstance(n, ast.BinOp):
            if type(n.op) not in ARITH:
                fail(n, f"operator {type(n.op).__name__}")
            for st1, vs in self.ev_seq([n.left, n.right], st):
                yield st1, (vs if isinstance(vs, Raised) else self.arith(n, ARITH[type(n.op)], vs[0], vs[1]))
            return
        if isinstance(n, ast.BoolOp):
            yield from self.boolop_val(n, 0, st)
            return
        if isinstance(n, ast.Compare):
            yield from self.compare(n, st)
            return
        if isinstance(n, ast.IfExp):
            for st1, t in self.truth(n.test, st):
                if isinstance(t, Raised):
                    yield st1, t
                else:
                    yield from self.ev(n.body if t else n.orelse, st1)
            return
        if isinstance(n, ast.Subscript):
            for st1, vs in self.ev_seq([n.value, n.slice], st):
                if isinstance(vs, Raised):
                    yield st1, vs
                    continue
                c, k = vs
                if isinstance(c, StaticDict):
                    hit = [v for kk, v in c.items if same_class(kk, k) or
                           (isinstance(kk, Static) and isinstance(k, Static) and kk.v == k.v)]
                    if len(hit) != 1:
                        yield st1, Raised("KeyError", n.lineno)
                    else:
                        yield st1, hit[0]
                elif isinstance(c, Static) and isinstance(c.v, (tuple, list)) and isinstance(k, Static) and type(k.v) is int:
                    yield st1, c.v[k.v]
                else:
                    fail(n, "subscript of other than a literal dict / a static tuple")
            return
        if isinstance(n, ast.ListComp) or isinstance(n, ast.GeneratorExp):
            yield from self.comprehension(n, n.elt, n.generators, st)
            return
        if isinstance(n, ast.Call):
            yield from self.call(n, st)
            return
        fail(n, type(n).__name__)

    def ev_seq(self, nodes, st: State, i: int = 0):
        """left-to-right evaluation; yields (state, [values]) or (state, Raised)"""
        if i == len(nodes):
            yield st, []
            return
        for st1, v in self.ev(nodes[i], st):
            if isinstance(v, Raised):
                yield st1, v
                continue
            for st2, rest in self.ev_seq(nodes, st1, i + 1):
                yield st2, (rest if isinstance(rest, Raised) else [v] + rest)

    # ---------------- arithmetic
    def num(self, v: Val, node) -> Tens:
        if isinstance(v, Static) and type(v.v) in (int, float):
            return Tens(S, lit(frac_of(v.v)))
        if isinstance(v, Tens) and v.ty in (S, V):
            return v
        fail(node, f"arithmetic on {self.describe(v)}")

    def arith(self, node, o: str, a: Val, b: Val) -> Val:
        if isinstance(a, Static) and isinstance(b, Static) and type(a.v) is int and type(b.v) is int:
            return Static({"+": a.v + b.v, "-": a.v - b.v, "*": a.v * b.v}[o])
        a, b = self.num(a, node), self.num(b, node)
        if (a.ty, b.ty) == (S, S):
            return Tens(S, f"({a.term} {o} {b.term})")
        if (a.ty, b.ty) == (S, V):
            return Tens(V, f"(List.map (fun x => {a.term} {o} x) {b.term})")
        if (a.ty, b.ty) == (V, S):
            return Tens(V, f"(List.map (fun x => x {o} {b.term}) {a.term})")
        return Tens(V, f"(List.zipWith (fun x y => x {o} y) {a.term} {b.term})")

    def describe(self, v) -> str:
        if isinstance(v, Tens):
            return f"a value of type {LEAN_TY.get(v.ty, v.ty)}"
        if isinstance(v, Opaque):
            return f"the opaque value `{v.what}` (not defined by the translated code)"
        if isinstance(v, Static):
            return f"the constant {v.v!r}"
        return type(v).__name__

    # ---------------- truth values
    def truth(self, n, st: State):
        """generator of (state, bool | Raised); forks on symbolic booleans"""
        if isinstance(n, ast.BoolOp):
            yield from self.boolop_truth(n, 0, st)
            return
        if isinstance(n, ast.UnaryOp) and isinstance(n.op, ast.Not):
            for st1, t in self.truth(n.operand, st):
                yield st1, (t if isinstance(t, Raised) else (not t))
            return
        for st1, v in self.ev(n, st):
            if isinstance(v, Raised):
                yield st1, v
            else:
                yield from self.truth_val(v, st1, n)

    def truth_val(self, v: Val, st: State, n):
        if isinstance(v, Static):
            if isinstance(v.v, (list, tuple)):
                yield st, len(v.v) > 0
            elif v.v is None or type(v.v) in (bool, int, float, str):
                yield st, bool(v.v)
            else:
                fail(n, f"truth value of {v!r}")
        elif isinstance(v, BoolAtom):
            k = st.known(v.name)
            if k is not None:
                yield st, k
            else:
                yield st.assume(v.name, True), True
                yield st.assume(v.name, False), False
        elif isinstance(v, (Inst, DistObj, SpaceObj, ClassRef, FuncRef)):
            yield st, True
        else:
            fail(n, f"truth value of {self.describe(v)}")

    def boolop_truth(self, n: ast.BoolOp, i: int, st: State):
        is_and = isinstance(n.op, ast.And)
        for st1, t in self.truth(n.values[i], st):
            if isinstance(t, Raised) or i == len(n.values) - 1 or t != is_and:
                yield st1, t
            else:
                yield from self.boolop_truth(n, i + 1, st1)

    def boolop_val(self, n: ast.BoolOp, i: int, st: State):
        is_and = isinstance(n.op, ast.And)
        for st1, v in self.ev(n.values[i], st):
            if isinstance(v, Raised) or i == len(n.values) - 1:
                yield st1, v
                continue
            for st2, t in self.truth_val(v, st1, n.values[i]):
                if t != is_and:
                    yield st2, (Static(t) if isinstance(v, BoolAtom) else v)
                else:
                    yield from self.boolop_val(n, i + 1, st2)

    # ---------------- comparisons
    def compare(self, n: ast.Compare, st: State):
        if len(n.ops) != 1:
            fail(n, "chained comparison")
        op, rn = n.ops[0], n.comparators[0]
        for st1, vs in self.ev_seq([n.left, rn], st):
            if isinstance(vs, Raised):
                yield st1, vs
                continue
            a, b = vs
            if isinstance(op, (ast.Is, ast.IsNot)):
                r = self.identical(n, a, b, rn)
                if isinstance(r, BoolAtom):
                    for st2, t in self.truth_val(r, st1, n):
                        yield st2, Static(t if isinstance(op, ast.Is) else not t)
                else:
                    yield st1, Static(r if isinstance(op, ast.Is) else not r)
                continue
            if isinstance(a, Static) and isinstance(b, Static) and type(a.v) in (int, float) and type(b.v) in (int, float):
                f = {ast.Eq: lambda x, y: x == y, ast.NotEq: lambda x, y: x != y, ast.Lt: lambda x, y: x < y,
                     ast.LtE: lambda x, y: x <= y, ast.Gt: lambda x, y: x > y, ast.GtE: lambda x, y: x >= y}.get(type(op))
                if f is None:
                    fail(n, f"comparison {type(op).__name__}")
                yield st1, Static(f(a.v, b.v))
                continue
            if isinstance(op, (ast.Eq, ast.NotEq)) and isinstance(a, Marker) and a.kind == "dtype" and isinstance(b, (ModRef, ClassRef)):
                # a question about the container / element type of an input: must not matter (checked at the end)
                for st2, t in self.truth_val(self.repr_atom(), st1, n):
                    yield st2, Static(t)
                continue
            fail(n, f"comparison {type(op).__name__} of {self.describe(a)} and {self.describe(b)}")

    def identical(self, n, a: Val, b: Val, rnode):
        if a is b:
            return True
        if isinstance(a, Static) and isinstance(b, Static):
            if a.v is None or b.v is None or type(a.v) is bool:
                return a.v is b.v
            fail(n, "`is` between constants other than None / booleans")
        if (isinstance(a, Static) and a.v is None) or (isinstance(b, Static) and b.v is None):
            if isinstance(a, Opaque) or isinstance(b, Opaque):
                fail(n, "`is None` of an opaque value")
            return False
        if same_class(a, b):
            return True
        if isinstance(a, ClassRef) and isinstance(b, ClassRef):
            return False
        if isinstance(a, Tens) and isinstance(b, Tens):
            if a.inp and not b.inp and isinstance(rnode, ast.Attribute):
                return BoolAtom(f"{a.term}_is_{rnode.attr.lstrip('_')}")
            if not a.inp and not b.inp:
                return False          # two different objects made during this execution
        fail(n, f"`is` between {self.describe(a)} and {self.describe(b)}")

    # ---------------- attributes
    SPACE_ATTRS = {"box": {"low": ("low", V), "high": ("high", V)},
                   "discrete": {"n": ("n", N)}, "multiDiscrete": {"nvec": ("nvec", VN)}, "multiBinary": {"n": ("n", N)},
                   "other": {}}

    def attribute(self, n: ast.Attribute, v: Val, st: State):
        a = n.attr
        if isinstance(v, Inst):
            fields = st.heap[v.oid]
            if a in fields:
                yield st, fields[a]
                return
            cls = self.mods[v.file].classes[v.cls]
            if self.find_method(cls, a) is not None:
                yield st, Bound(v, a)
                return
            for cst in cls.body:          # class-level attribute with a value (evaluated in the class's module)
                tg = cst.targets[0] if isinstance(cst, ast.Assign) and len(cst.targets) == 1 else \
                    cst.target if isinstance(cst, ast.AnnAssign) and cst.value is not None else None
                if isinstance(tg, ast.Name) and tg.id == a:
                    st1 = st.copy()
                    st1.frames.append({"$mod": self.mods[v.file], "$cls": v.cls})
                    for st2, val in self.ev(cst.value, st1):
                        st3 = st2.copy()
                        st3.frames.pop()
                        yield st3, val
                    return
            # never assigned by the translated code: declared at class level (`wrapped: EvolvableModule`: set by the
            # inherited constructor) or a method / attribute of a base class
            declared = any(isinstance(c, ast.AnnAssign) and c.value is None and isinstance(c.target, ast.Name)
                           and c.target.id == a for c in cls.body)
            yield st, Opaque(f"self.{a}", module_field=declared)
            return
        if isinstance(v, SpaceObj):
            tab = self.SPACE_ATTRS[v.kind]
            if a in tab:
                yield st, self.inp(*tab[a])
            elif a == "shape" and v.kind == "box":
                yield st, Static((self.inp("dim", N),))
            else:
                fail(n, f"attribute .{a} of a {v.kind} space")
            return
        if isinstance(v, ModRef):
            yield st, self.canon_mod_attr(v, a, n)
            return
        if isinstance(v, Tens):
            if a in ("shape", "dtype", "device"):
                yield st, Marker(a, v)
            else:
                yield st, Bound(v, a)
            return
        if isinstance(v, Marker) and v.kind == "finfo" and a == "eps":
            yield st, self.inp("finfo_eps", S)
            return
        if isinstance(v, (DistObj, MapList)) or (isinstance(v, Static) and isinstance(v.v, (list, dict))) \
                or isinstance(v, StaticDict):
            yield st, Bound(v, a)
            return
        if isinstance(v, Opaque):
            yield st, Opaque(f"{v.what}.{a}")
            return
        fail(n, f"attribute .{a} of {self.describe(v)}")

    def canon_mod_attr(self, v: ModRef, a: str, n) -> Val:
        d = v.dotted + "." + a
        if d.startswith("spaces.") and a in SPACE_CLASSES:
            return ClassRef("space", a)
        if d in ("np.ndarray", "torch.Tensor"):
            return ClassRef("other", d)
        return ModRef(d)

    def find_method(self, cls: ast.ClassDef, name: str):
        for st in cls.body:
            if isinstance(st, ast.FunctionDef) and st.name == name:
                if any(not (isinstance(d, ast.Name) and d.id == "property") for d in st.decorator_list):
                    fail(st, f"decorator on {cls.name}.{name}")
                return st
        return None

    # ---------------- calls
    def call(self, n: ast.Call, st: State):
        f = n.func
        # special forms
        if isinstance(f, ast.Name) and f.id == "isinstance" and f.id not in st.frames[-1]:
            yield from self.isinstance_call(n, st)
            return
        if isinstance(f, ast.Attribute) and isinstance(f.value, ast.Call) and isinstance(f.value.func, ast.Name) \
                and f.value.func.id == "super":
            yield from self.super_call(n, st)
            return
        hint, self.hint = self.hint, None
        for st1, fv in self.ev(f, st):
            if isinstance(fv, Raised):
                yield st1, fv
                continue
            if any(isinstance(a, ast.Starred) for a in n.args) or any(k.arg is None for k in n.keywords):
                fail(n, "starred / ** argument")
            for st2, vals in self.ev_seq(list(n.args) + [k.value for k in n.keywords], st1):
                if isinstance(vals, Raised):
                    yield st2, vals
                    continue
                args = vals[:len(n.args)]
                kw = {k.arg: v for k, v in zip(n.keywords, vals[len(n.args):])}
                yield from self.apply(n, fv, args, kw, st2, hint)

    def apply(self, n, fv: Val, args: list, kw: dict, st: State, hint=None):
        if isinstance(fv, FuncRef):
            yield from self.inline(n, fv.fn, self.mods[fv.file], None, None, args, kw, st)
        elif isinstance(fv, ClassRef) and fv.kind == "local":
            yield from self.instantiate(n, fv, args, kw, st)
        elif isinstance(fv, ClassRef) and fv.kind == "dist":
            yield st, self.make_dist(n, fv.name, args, kw)
        elif isinstance(fv, ClassRef) and fv.kind == "builtin":
            yield st, self.builtin(n, fv.name, args, kw)
        elif isinstance(fv, ModRef):
            yield st, self.library(n, fv.dotted, args, kw)
        elif isinstance(fv, Bound):
            yield from self.method(n, fv.obj, fv.name, args, kw, st)
        elif isinstance(fv, Opaque):
            if fv.module_field:
                # calling a module held in a declared field that the translated code never assigns: its output is an input
                self.assumed.add(f"the output of `{fv.what}(…)` is an input (rank 2, one row)")
                yield st, self.inp(hint or fv.what[5:] + "_out", V)
            else:
                self.assumed.add(f"`{fv.what}(…)` returns an opaque value and assigns no field the translated methods read")
                yield st, Opaque(fv.what + "(…)")
        else:
            fail(n, f"call of {self.describe(fv)}")

    def isinstance_call(self, n: ast.Call, st: State):
        if n.keywords or len(n.args) != 2:
            fail(n, "isinstance with other than two positional arguments")
        for st1, vs in self.ev_seq(n.args, st):
            if isinstance(vs, Raised):
                yield st1, vs
                continue
            x, c = vs
            classes = list(c.v) if isinstance(c, Static) and isinstance(c.v, tuple) else [c]
            if not all(isinstance(k, ClassRef) for k in classes):
                fail(n, "isinstance(…, <not a class / tuple of classes>)")
            r = self.isinstance_of(n, x, classes)
            if isinstance(r, BoolAtom):
                for st2, t in self.truth_val(r, st1, n):
                    yield st2, Static(t)
            else:
                yield st1, Static(r)

    def isinstance_of(self, n, x: Val, classes: list):
        res = []
        for c in classes:
            if isinstance(x, SpaceObj):
                if c.kind != "space":
                    fail(n, f"isinstance(<space>, {c.name})")
                res.append(c.name == "Space" or SPACE_CLASSES[c.name] == x.kind)
            elif isinstance(x, DistObj):
                if c.kind == "dist":
                    res.append(c.name in (x.cls, "Distribution"))
                elif (c.kind, c.name) == ("builtin", "list"):
                    res.append(False)
                else:
                    fail(n, f"isinstance(<{x.cls}>, {c.name})")
            elif isinstance(x, MapList) or (isinstance(x, Static) and isinstance(x.v, list)):
                if (c.kind, c.name) == ("builtin", "list"):
                    res.append(True)
                elif c.kind == "dist" or c.kind == "other":
                    res.append(False)
                else:
                    fail(n, f"isinstance(<list>, {c.name})")
            elif isinstance(x, Tens):
                if c.kind == "dist" or c.kind == "space":
                    res.append(False)
                elif (c.kind, c.name) in (("other", "np.ndarray"), ("builtin", "list")):
                    if x.torch:
                        res.append(False)
                    else:
                        return self.repr_atom()      # asks for the container only: must not matter
                elif (c.kind, c.name) == ("other", "torch.Tensor"):
                    if x.torch:
                        res.append(True)
                    else:
                        return self.repr_atom()
                else:
                    fail(n, f"isinstance(<tensor>, {c.name})")
            elif isinstance(x, Inst):
                res.append(c.kind == "local" and c.name == x.cls)
            else:
                fail(n, f"isinstance of {self.describe(x)}")
        return any(res)

    def super_call(self, n: ast.Call, st: State):
        cls = self.mod_of(st).classes[st.frames[-1]["$cls"]]
        for b in cls.bases:
            if isinstance(b, ast.Name) and b.id in self.mod_of(st).classes:
                fail(n, f"super() of a class whose base {b.id} is defined in the translated file")
        what = f"super().{n.func.attr}"
        for st1, vals in self.ev_seq(list(n.args) + [k.value for k in n.keywords], st):
            if isinstance(vals, Raised):
                yield st1, vals
            else:
                self.assumed.add(f"`{what}(…)` of {cls.name} returns an opaque value and assigns no field the "
                                 "translated methods read")
                yield st1, Opaque(what + "(…)")

    def bind_args(self, n, fn: ast.FunctionDef, args: list, kw: dict, skip_self: bool, st: State, mod: Module):
        a = fn.args
        if a.vararg or a.kwarg or a.kwonlyargs or a.posonlyargs:
            fail(fn, f"*args / **kwargs / keyword-only parameters of {fn.name}", mod.rel)
        names = [x.arg for x in a.args][1 if skip_self else 0:]
        if len(args) > len(names):
            fail(n, f"too many positional arguments for {fn.name}")
        got = dict(zip(names, args))
        for k, v in kw.items():
            if k not in names or k in got:
                fail(n, f"keyword argument {k} of {fn.name}")
            got[k] = v
        defaults = dict(zip([x.arg for x in a.args][len(a.args) - len(a.defaults):], a.defaults))
        for nm in names:
            if nm not in got:
                if nm not in defaults:
                    fail(n, f"call of {fn.name} without argument `{nm}`")
                d = defaults[nm]
                if isinstance(d, ast.Constant):
                    got[nm] = Static(d.value)
                else:
                    got[nm] = Opaque(f"default of {nm}")
        return got

    def inline(self, n, fn: ast.FunctionDef, mod: Module, self_val, cls_name, args, kw, st: State):
        got = self.bind_args(n, fn, args, kw, self_val is not None, st, mod)
        frame = {"$mod": mod, "$cls": cls_name}
        if self_val is not None:
            frame[fn.args.args[0].arg] = self_val
        frame.update(got)
        st1 = st.copy()
        st1.frames.append(frame)
        if len(st1.frames) > 40:
            fail(n, "call depth > 40 (recursion)")
        body = [s for s in fn.body if not is_docstring(s)]
        for st2, kind, val in self.block(body, st1):
            st3 = st2.copy()
            st3.frames.pop()
            if kind == "fall":
                yield st3, Static(None)
            elif kind == "ret":
                yield st3, val
            else:
                yield st3, val          # a Raised
        CUR_FILE[0] = self.mod_of(st).rel if st.frames else REL_SOURCE

    def instantiate(self, n, c: ClassRef, args, kw, st: State):
        mod = self.mods[c.file]
        cls = mod.classes[c.name]
        self.noid += 1
        obj = Inst(c.name, c.file, self.noid)
        st1 = st.copy()
        st1.heap[obj.oid] = {}
        init = self.find_method(cls, "__init__")
        if init is None:
            if args or kw:
                fail(n, f"{c.name}(…) with arguments but no __init__ in the translated file")
            yield st1, obj
            return
        for st2, r in self.inline(n, init, mod, obj, c.name, args, kw, st1):
            yield st2, (r if isinstance(r, Raised) else obj)

    def make_dist(self, n, cls: str, args, kw) -> Val:
        if cls not in DIST_CLASSES:
            fail(n, f"construction of torch.distributions.{cls}")
        _, names, _ = DIST_CLASSES[cls]
        if len(args) > len(names):
            fail(n, f"{cls}(…) with {len(args)} positional arguments")
        got = dict(zip(names, args))
        for k, v in kw.items():
            if k not in names or k in got:
                fail(n, f"{cls}({k}=…): only {', '.join(names)} are supported")
            got[k] = v
        for nm in names:
            if nm not in got:
                fail(n, f"{cls}(…) without `{nm}`")
            if not (isinstance(got[nm], Tens) and got[nm].ty == V):
                fail(n, f"{cls}({nm}=…) of {self.describe(got[nm])}")
        return DistObj(cls, got)

    # ---------------- builtins / torch / numpy
    def as_sizes(self, n, v: Val) -> str:
        """a list of split sizes as a Lean `List Nat`"""
        if isinstance(v, Tens) and v.ty == VN:
            return v.term
        if isinstance(v, Static) and isinstance(v.v, (list, tuple)):
            parts = []
            for e in v.v:
                if isinstance(e, Tens) and e.ty == N:
                    parts.append(e.term)
                elif isinstance(e, Static) and type(e.v) is int and e.v >= 0:
                    parts.append(str(e.v))
                else:
                    fail(n, f"split size {self.describe(e)}")
            return "[" + ", ".join(parts) + "]"
        fail(n, f"split sizes given as {self.describe(v)}")

    def static_int(self, n, v, what: str) -> int:
        if isinstance(v, Static) and type(v.v) is int:
            return v.v
        fail(n, f"{what} must be an integer literal")

    def builtin(self, n, name: str, args, kw) -> Val:
        if kw:
            fail(n, f"{name}(…) with keyword arguments")
        if name == "len" and len(args) == 1:
            x = args[0]
            if isinstance(x, Marker) and x.kind == "shape":
                return Static(RANK[x.of.ty])
            if isinstance(x, Static) and isinstance(x.v, (list, tuple)):
                return Static(len(x.v))
            fail(n, f"len of {self.describe(x)}")
        if name == "list" and len(args) == 1:
            x = args[0]
            if isinstance(x, Tens) and x.ty in (VN,):
                return x
            if isinstance(x, MapList) or (isinstance(x, Static) and isinstance(x.v, (list, tuple))):
                return x if not isinstance(x, Static) else Static(list(x.v))
            fail(n, f"list of {self.describe(x)}")
        if name == "list" and not args:
            return ClassRef("builtin", "list")
        if name == "zip" and len(args) == 2:
            a, b = (self.as_maplist(n, x) for x in args)
            return MapList(a.srcs + b.srcs, a.binders + b.binders, Static((a.elem, b.elem)))
        if name == "all" and len(args) == 1:
            x = args[0]
            if isinstance(x, MapList) and isinstance(x.elem, Static) and type(x.elem.v) is bool:
                return Static(x.elem.v)          # the same answer for every element (`all([])` is True as well iff it is True)
            if isinstance(x, Static) and isinstance(x.v, (list, tuple)) and all(isinstance(e, Static) for e in x.v):
                return Static(all(e.v for e in x.v))
            fail(n, f"all of {self.describe(x)}")
        fail(n, f"builtin {name} with {len(args)} arguments")

    def as_maplist(self, n, x: Val) -> MapList:
        if isinstance(x, MapList):
            return x
        fail(n, f"iteration over {self.describe(x)}")

    def need(self, n, v, tys, what: str) -> Tens:
        if isinstance(v, Tens) and v.ty in tys:
            return v
        fail(n, f"{what}: {self.describe(v)}")

    def dim_is_1(self, n, kw, args, pos: int, what: str):
        d = kw.get("dim", args[pos] if len(args) > pos else None)
        if d is None or self.static_int(n, d, f"{what}: dim") != 1:
            fail(n, f"{what}: dim must be the literal 1 (the component axis of a (batch, d) tensor)")

    def library(self, n, d: str, args, kw) -> Val:
        if d == "torch.where" and len(args) == 3 and not kw:
            c = self.need(n, args[0], (VB,), "torch.where condition")
            a, b = self.need(n, args[1], (V,), "torch.where"), self.need(n, args[2], (V,), "torch.where")
            return Tens(V, f"(where3 {c.term} {a.term} {b.term})")
        if d == "torch.full_like" and len(args) == 2 and not kw:
            x = self.need(n, args[0], (V,), d)
            c = self.num(args[1], n)
            if c.ty != S:
                fail(n, "torch.full_like with a non-scalar fill value")
            return Tens(V, f"(List.map (fun _ => {c.term}) {x.term})")
        if d == "torch.split":
            x = self.need(n, args[0] if args else None, (V, VB), d)
            sizes = kw.get("split_size_or_sections", args[1] if len(args) > 1 else None)
            self.dim_is_1(n, kw, args, 2, d)
            b = self.binder()
            return MapList([(f"(splitSizes {x.term} {self.as_sizes(n, sizes)})", x.ty)], [b], Tens(x.ty, b))
        if d == "torch.unbind":
            x = self.need(n, args[0] if args else None, (V, VN, VB), d)
            self.dim_is_1(n, kw, args, 1, d)
            b = self.binder()
            return MapList([(x.term, ELEM_OF[x.ty])], [b], Tens(ELEM_OF[x.ty], b))
        if d in ("torch.stack", "torch.cat"):
            self.dim_is_1(n, kw, args, 1, d)
            x = self.as_maplist(n, args[0] if args else None)
            if not isinstance(x.elem, Tens):
                fail(n, f"{d} of a list of {self.describe(x.elem)}")
            if d == "torch.stack":
                if x.elem.ty not in (S, N):
                    fail(n, "torch.stack(dim=1) of other than rank-1 tensors")
                return Tens(LIST_OF[x.elem.ty], self.concretize(x))
            if x.elem.ty not in (V, VB):
                fail(n, "torch.cat(dim=1) of other than rank-2 tensors")
            return Tens(x.elem.ty, f"(List.flatten {self.concretize(x)})")
        if d in ("torch.tanh", "torch.atanh", "torch.log", "torch.exp") and len(args) == 1 and not kw:
            x = self.need(n, args[0], (S, V), d)
            f = "P." + d[6:]
            return Tens(x.ty, f"({f} {x.term})" if x.ty == S else f"(List.map {f} {x.term})")
        if d in ("torch.as_tensor", "torch.tensor") and args:
            x = args[0]
            if not isinstance(x, Tens):
                fail(n, f"{d} of {self.describe(x)}")
            self.assumed.add(f"`{d}(x, …)` is the identity on a row")
            if x.torch:
                return x
            return Tens(x.ty, x.term, inp=x.inp, torch=True, what=x.what)
        if d == "np.stack" and len(args) == 1 and isinstance(args[0], Tens):
            self.assumed.add("`np.stack(mask)` is the identity on a row")
            return args[0]
        if d == "torch.nn.Parameter" and len(args) == 1 and isinstance(args[0], Tens):
            return args[0]
        if d == "torch.ones":
            if len(args) == 2 and self.is_one(args[0]) and isinstance(args[1], Tens) and args[1].ty == N:
                return Tens(V, f"(List.replicate {args[1].term} {lit(Fraction(1))})")
            fail(n, "torch.ones of other than (1, <dimension>)")
        if d == "np.prod" and len(args) == 1 and not kw:
            x = args[0]
            if isinstance(x, Static) and isinstance(x.v, tuple) and len(x.v) == 1 and isinstance(x.v[0], Tens):
                return x.v[0]
            fail(n, f"np.prod of {self.describe(x)}")
        if d == "torch.finfo" and len(args) == 1 and isinstance(args[0], Marker) and args[0].kind == "dtype":
            self.assumed.add("`torch.finfo(x.dtype).eps` is an input `finfo_eps`")
            return Marker("finfo", args[0].of)
        # anything else from a library / another module: opaque
        self.assumed.add(f"`{d}(…)` returns an opaque value and assigns no field the translated methods read")
        return Opaque(d + "(…)")

    @staticmethod
    def is_one(v) -> bool:
        return isinstance(v, Static) and type(v.v) is int and v.v == 1

    def concretize(self, x: MapList) -> str:
        """the Lean list a symbolic Python list of row tensors stands for"""
        e = x.elem
        if not isinstance(e, Tens):
            raise Unsupported(f"a list of {self.describe(e)} used as a tensor list")
        if len(x.srcs) == 1:
            if e.term == x.binders[0]:
                return x.srcs[0][0]
            return f"(List.map (fun {x.binders[0]} => {e.term}) {x.srcs[0][0]})"
        if len(x.srcs) == 2:
            return f"(List.zipWith (fun {x.binders[0]} {x.binders[1]} => {e.term}) {x.srcs[0][0]} {x.srcs[1][0]})"
        if len(x.srcs) == 3:
            return (f"(zipWith3 (fun {' '.join(x.binders)} => {e.term}) " + " ".join(s for s, _ in x.srcs) + ")")
        raise Unsupported("zip of more than three lists")

    # ---------------- methods of symbolic values
    def method(self, n, obj: Val, name: str, args, kw, st: State):
        if isinstance(obj, Inst):
            mod = self.mods[obj.file]
            fn = self.find_method(mod.classes[obj.cls], name)
            yield from self.inline(n, fn, mod, obj, obj.cls, args, kw, st)
            return
        if isinstance(obj, DistObj):
            if name == "sample" and not args and not kw:
                self.assumed.add(f"`{obj.cls}(…).sample()` is an input `draw`")
                yield self.draw(DIST_CLASSES[obj.cls][2], st)
            else:
                yield st, self.dist_method(n, obj, name, args, kw)
            return
        if isinstance(obj, StaticDict) and name == "items" and not args and not kw:
            yield st, Static([Static((k, v)) for k, v in obj.items])
            return
        if isinstance(obj, Opaque):
            self.assumed.add(f"`{obj.what}.{name}(…)` returns an opaque value and assigns no field the translated methods read")
            yield st, Opaque(f"{obj.what}.{name}(…)")
            return
        if isinstance(obj, Tens):
            yield st, self.tensor_method(n, obj, name, args, kw)
            return
        fail(n, f"method .{name} of {self.describe(obj)}")

    def draw(self, ty: str, st: State):
        """(state, the next external draw on this path)"""
        if self.in_comp is not None:
            b = self.binder()
            self.in_comp.append((b, ty))
            return st, Tens(ty, b, what="draw")
        st1 = st.copy()
        st1.ndraws += 1
        return st1, self.inp("draw" if st1.ndraws == 1 else f"draw_{st1.ndraws}", ty)

    def dist_method(self, n, d: DistObj, name: str, args, kw) -> Val:
        con, names, sup = DIST_CLASSES[d.cls]
        a = [d.args[x].term for x in names]
        if name == "entropy" and not args and not kw:
            if d.cls == "Normal":
                return Tens(V, f"(List.zipWith P.normalEntropy {a[0]} {a[1]})")
            if d.cls == "Categorical":
                return Tens(S, f"(P.categoricalEntropy {a[0]})")
            return Tens(V, f"(List.map P.bernoulliEntropy {a[0]})")
        if name == "log_prob" and len(args) == 1 and not kw:
            x = self.need(n, args[0], (sup,), f"{d.cls}.log_prob: the argument must have the type of the support "
                                              f"({LEAN_TY[sup]})")
            if d.cls == "Normal":
                return Tens(V, f"(zipWith3 P.normalLogPdf {a[0]} {a[1]} {x.term})")
            if d.cls == "Categorical":
                return Tens(S, f"(P.categoricalLogProb {a[0]} {x.term})")
            return Tens(V, f"(List.zipWith P.bernoulliLogProb {a[0]} {x.term})")
        fail(n, f"{d.cls}.{name}(…)")

    def tensor_method(self, n, x: Tens, name: str, args, kw) -> Val:
        if name == "sum":
            d = kw.get("dim", args[0] if args else None)
            if d is None:
                fail(n, ".sum() over all dimensions (the batch would be summed)")
            k = self.static_int(n, d, ".sum: dim")
            if x.ty != V:
                fail(n, f".sum(dim={k}) of {self.describe(x)} (a rank-{RANK.get(x.ty, '?')} tensor)")
            if k not in (1, -1):
                fail(n, f".sum(dim={k}) of a (batch, d) tensor: only the component axis (1 / -1) is a row operation")
            return Tens(S, f"(List.sum {x.term})")
        if name == "pow" and len(args) == 1 and not kw:
            k = self.static_int(n, args[0], ".pow: exponent")
            if k < 0 or x.ty not in (S, V):
                fail(n, f".pow({k}) of {self.describe(x)}")
            one = lit(Fraction(1))
            return Tens(x.ty, f"(powNat {one} {x.term} {k})" if x.ty == S else
                        f"(List.map (fun x => powNat {one} x {k}) {x.term})")
        if name == "clamp" and not args and set(kw) == {"min", "max"}:
            lo, hi = self.num(kw["min"], n), self.num(kw["max"], n)
            if lo.ty != S or hi.ty != S or x.ty != V:
                fail(n, ".clamp with non-scalar bounds")
            return Tens(V, f"(List.map (fun x => P.clamp {lo.term} {hi.term} x) {x.term})")
        if name == "expand_as" and len(args) == 1 and not kw:
            y = self.need(n, args[0], (V,), ".expand_as")
            if x.ty != V:
                fail(n, f".expand_as of {self.describe(x)}")
            return Tens(V, f"(expandAs {x.term} {y.term})")
        if name == "view" and len(args) == 1 and not kw and isinstance(args[0], Marker) and args[0].kind == "shape":
            if RANK[args[0].of.ty] != RANK[x.ty]:
                fail(n, ".view to a shape of another rank")
            self.assumed.add("`x.view(y.shape)` is the identity on a row (the mask has the layout of the logits)")
            return x
        if name in IDENTITY_METHODS:
            self.assumed.add(f"`.{name}(…)` is the identity")
            return x
        fail(n, f"tensor method .{name}(…)")

    # ---------------- comprehensions (and the `for … append` loop)
    def comprehension(self, n, elt, generators, st: State):
        if len(generators) != 1 or generators[0].ifs or generators[0].is_async:
            fail(n, "comprehension with several `for` / with `if`")
        g = generators[0]
        for st1, it in self.ev(g.iter, st):
            if isinstance(it, Raised):
                yield st1, it
                continue
            yield from self.map_over(n, self.as_maplist(n, it), g.target, elt, st1)

    def map_over(self, n, it: MapList, target, elt, st: State):
        st1 = st.copy()
        self.bind_target(target, it.elem, st1)
        saved, self.in_comp = self.in_comp, []
        outs = list(self.ev(elt, st1))
        draws, self.in_comp = self.in_comp, saved
        if len(outs) != 1 or outs[0][0].pc != st1.pc:
            fail(n, "comprehension whose element forks on a symbolic condition")
        st2, e = outs[0]
        if isinstance(e, Raised):
            fail(n, "comprehension whose element raises")
        if st2.heap != st1.heap:
            fail(n, "comprehension whose element assigns attributes")
        if draws:
            if not (len(draws) == 1 and isinstance(e, Tens) and e.term == draws[0][0]):
                fail(n, "comprehension that mixes external draws with other values")
            self.assumed.add("a comprehension of `.sample()` over a list of distributions is an input list, one draw per component")
            st3, src = self.draw(LIST_OF[draws[0][1]], st)
            yield st3, MapList([(src.term, draws[0][1])], [draws[0][0]], e)
            return
        yield st, MapList(it.srcs, it.binders, e)

    def bind_target(self, t, v: Val, st: State):
        if isinstance(t, ast.Name):
            st.frames[-1][t.id] = v
        elif isinstance(t, ast.Tuple) and isinstance(v, Static) and isinstance(v.v, tuple) and len(v.v) == len(t.elts):
            for e, x in zip(t.elts, v.v):
                self.bind_target(e, x, st)
        elif isinstance(t, ast.Attribute):
            fail(t, "attribute as a loop / unpacking target")
        else:
            fail(t, f"cannot unpack {self.describe(v)} into {ast.unparse(t)}")

    # ------------------------------------------------------------------ statements
    def block(self, stmts, st: State):
        """generator of (state, 'fall' | 'ret' | 'raise', value)"""
        if not stmts:
            yield st, "fall", None
            return
        for st1, kind, val in self.stmt(stmts[0], st, stmts[1:]):
            if kind == "fall":
                yield from self.block(stmts[1:], st1)
            else:
                yield st1, kind, val

    def assign_to(self, t, v: Val, st: State) -> State:
        """returns the new state (targets: a name, an attribute of an object, a tuple of those)"""
        if isinstance(t, ast.Name):
            st1 = st.copy()
            st1.frames[-1][t.id] = v
            return st1
        if isinstance(t, ast.Attribute):
            outs = list(self.ev(t.value, st))
            if len(outs) != 1 or not isinstance(outs[0][1], Inst):
                fail(t, "assignment to an attribute of other than an object of a translated class")
            st1 = outs[0][0].copy()
            st1.heap[outs[0][1].oid][t.attr] = v
            return st1
        if isinstance(t, ast.Tuple) and isinstance(v, Static) and isinstance(v.v, tuple) and len(v.v) == len(t.elts):
            for e, x in zip(t.elts, v.v):
                st = self.assign_to(e, x, st)
            return st
        fail(t, f"assignment of {self.describe(v)} to {ast.unparse(t)}")

    def stmt(self, s, st: State, rest):
        CUR_FILE[0] = self.mod_of(st).rel
        if is_docstring(s) or isinstance(s, ast.Pass):
            yield st, "fall", None
            return
        if isinstance(s, ast.AnnAssign):
            if s.value is None:
                yield st, "fall", None
                return
            s = ast.copy_location(ast.Assign(targets=[s.target], value=s.value), s)
        if isinstance(s, ast.Assign):
            if len(s.targets) != 1:
                fail(s, "chained assignment")
            tg = s.targets[0]
            self.hint = tg.id if isinstance(tg, ast.Name) and isinstance(s.value, ast.Call) else None
            for st1, v in self.ev(s.value, st):
                self.hint = None
                if isinstance(v, Raised):
                    yield st1, "raise", v
                else:
                    yield self.assign_to(tg, v, st1), "fall", None
            self.hint = None
            return
        if isinstance(s, ast.AugAssign):
            if type(s.op) not in ARITH:
                fail(s, f"augmented assignment {type(s.op).__name__}")
            load = ast.copy_location(ast.Name(id=s.target.id, ctx=ast.Load()), s) if isinstance(s.target, ast.Name) else \
                ast.copy_location(ast.Attribute(value=s.target.value, attr=s.target.attr, ctx=ast.Load()), s) \
                if isinstance(s.target, ast.Attribute) else fail(s, "augmented assignment target")
            for st1, vs in self.ev_seq([load, s.value], st):
                if isinstance(vs, Raised):
                    yield st1, "raise", vs
                else:
                    yield self.assign_to(s.target, self.arith(s, ARITH[type(s.op)], vs[0], vs[1]), st1), "fall", None
            return
        if isinstance(s, ast.If):
            for st1, t in self.truth(s.test, st):
                if isinstance(t, Raised):
                    yield st1, "raise", t
                else:
                    yield from self.block(s.body if t else s.orelse, st1)
            return
        if isinstance(s, ast.Return):
            if s.value is None:
                yield st, "ret", Static(None)
                return
            for st1, v in self.ev(s.value, st):
                yield (st1, "raise", v) if isinstance(v, Raised) else (st1, "ret", v)
            return
        if isinstance(s, ast.Raise):
            e = s.exc
            cls = e.func if isinstance(e, ast.Call) else e
            if not isinstance(cls, ast.Name) or s.cause is not None:
                fail(s, "raise without a named exception class / with a cause")
            yield st, "raise", Raised(cls.id, s.lineno)
            return
        if isinstance(s, ast.Assert):
            for st1, t in self.truth(s.test, st):
                if isinstance(t, Raised):
                    yield st1, "raise", t
                elif t:
                    yield st1, "fall", None
                else:
                    yield st1, "raise", Raised("AssertionError", s.lineno)
            return
        if isinstance(s, ast.For):
            yield from self.for_stmt(s, st)
            return
        if isinstance(s, ast.Expr) and isinstance(s.value, ast.Call):
            for st1, v in self.ev(s.value, st):
                yield (st1, "raise", v) if isinstance(v, Raised) else (st1, "fall", None)
            return
        fail(s, "expression statement" if isinstance(s, ast.Expr) else type(s).__name__)

    def for_stmt(self, s: ast.For, st: State):
        if s.orelse:
            fail(s, "for … else")
        if any(isinstance(x, (ast.Break, ast.Continue)) for b in s.body for x in ast.walk(b)):
            fail(s, "break / continue")
        for st1, it in self.ev(s.iter, st):
            if isinstance(it, Raised):
                yield st1, "raise", it
            elif isinstance(it, Static) and isinstance(it.v, (list, tuple)):
                yield from self.unroll(s, it.v, 0, st1)
            elif isinstance(it, MapList):
                # `for <targets> in <symbolic list>: acc.append(e)` with `acc == []` before: a map
                b = s.body[0] if len(s.body) == 1 else None
                ok = isinstance(b, ast.Expr) and isinstance(b.value, ast.Call) and isinstance(b.value.func, ast.Attribute) \
                    and b.value.func.attr == "append" and isinstance(b.value.func.value, ast.Name) \
                    and len(b.value.args) == 1 and not b.value.keywords
                if not ok:
                    fail(s, "for loop over a list of symbolic length whose body is not exactly `acc.append(e)`")
                acc = b.value.func.value.id
                cur = st1.frames[-1].get(acc)
                if not (isinstance(cur, Static) and cur.v == []):
                    fail(s, f"`{acc}.append` in a loop, but `{acc}` is not the empty list before the loop")
                for st2, m in self.map_over(s, it, s.target, b.value.args[0], st1):
                    st3 = st2.copy()
                    st3.frames[-1][acc] = m
                    yield st3, "fall", None
            else:
                fail(s, f"for loop over {self.describe(it)}")

    def unroll(self, s: ast.For, items, i: int, st: State):
        if i == len(items):
            yield st, "fall", None
            return
        st1 = st.copy()
        self.bind_target(s.target, items[i], st1)
        for st2, kind, val in self.block(s.body, st1):
            if kind == "fall":
                yield from self.unroll(s, items, i + 1, st2)
            else:
                yield st2, kind, val


def is_docstring(st) -> bool:
    return isinstance(st, ast.Expr) and isinstance(st.value, ast.Constant) and isinstance(st.value.value, str)

# ---------------------------------------------------------------------------------------------- entry points
import re

PRIORITY = ["action_std_init", "dim", "n", "nvec", "low", "high", "log_std", "logits", "mask", "draw", "draw_2",
            "finfo_eps", "action"]

DOCS = {
    "squash_flag": "`head_net.squash_output` after `StochasticActor.__init__` / `EvolvableDistribution.__init__`",
    "log_std_init": "`head_net.log_std` after the constructors (afterwards a trained parameter: the input `log_std`)",
    "masked_logits": "`EvolvableDistribution.apply_mask(logits, mask)`",
    "distribution": "the `torch.distributions` object `get_distribution(logits)` wraps",
    "forward": "`StochasticActor.forward(obs)`: (action, log_prob, entropy)",
    "forward_masked": "`StochasticActor.forward(obs, action_mask)`: (action, log_prob, entropy)",
    "log_prob_stored": "`StochasticActor.forward(obs)` (its draw: `draw`), then `action_log_prob(action)` for an action "
                       "from outside",
    "entropy_stored": "`StochasticActor.forward(obs)`, then `action_entropy()`",
    "scale_action": "`StochasticActor.scale_action(action)`",
}


class Leaf:
    def __init__(self, pc: tuple, val):
        self.pc, self.val = pc, val


class Script:
    """the fixed sequences of calls that are executed symbolically for one action-space kind"""

    def __init__(self, ex: Exec, kind: str):
        self.ex, self.kind = ex, kind
        self.amod = ex.mods[REL_ACTORS]
        if "StochasticActor" not in self.amod.classes:
            raise Unsupported(f"{REL_ACTORS}: no class StochasticActor")
        for c in ("EvolvableDistribution", "TorchDistribution"):
            if c not in ex.dist_mod.classes:
                raise Unsupported(f"{REL_SOURCE}: no class {c}")

    def base(self) -> State:
        st = State()
        st.frames.append({"$mod": self.amod, "$cls": None})
        return st

    def fresh(self):
        self.ex.nbind = 0

    def inits(self):
        """[(state, actor, head)] after the constructors, one per path"""
        ex = self.ex
        self.fresh()
        kw = {"observation_space": Opaque("observation_space"), "action_space": SpaceObj(self.kind),
              "action_std_init": ex.inp("action_std_init", S), "squash_output": BoolAtom("squash_output")}
        out = []
        for st, a in ex.instantiate(None, ClassRef("local", "StochasticActor", REL_ACTORS), [], kw, self.base()):
            if isinstance(a, Raised):
                raise Unsupported(f"{REL_ACTORS}: StochasticActor.__init__ raises {a.cls} (line {a.line}) for a {self.kind} space")
            head = st.heap[a.oid].get("head_net")
            if not (isinstance(head, Inst) and head.cls == "EvolvableDistribution"):
                raise Unsupported(f"{REL_ACTORS}: StochasticActor.__init__ does not leave an EvolvableDistribution in self.head_net")
            out.append((st, a, head))
        return out

    def trained(self, st: State, head: Inst) -> State:
        if "log_std" in st.heap[head.oid]:
            st = st.copy()
            st.heap[head.oid]["log_std"] = self.ex.inp("log_std", V)
        return st

    def calls(self, st: State, obj: Inst, seq: list):
        """run `obj.m(*args)` for (m, args, kw) in seq one after the other; yields (state, last value | Raised)"""
        def go(i, st, last):
            if i == len(seq):
                yield st, last
                return
            m, args, kw = seq[i]
            if callable(args):
                args = args(st)
            for st1, v in self.ex.method(None, obj, m, args, kw, st):
                if isinstance(v, Raised):
                    yield st1, v
                else:
                    yield from go(i + 1, st1, v)
        yield from go(0, st, None)

    def run(self) -> dict:
        """name -> [Leaf]"""
        ex = self.ex
        res: dict[str, list] = {}
        inits = self.inits()
        res["squash_flag"] = [Leaf(st.pc, st.heap[h.oid].get("squash_output") or fail_field("squash_output")) for st, _, h in inits]
        if any("log_std" in st.heap[h.oid] for st, _, h in inits):
            res["log_std_init"] = [Leaf(st.pc, st.heap[h.oid].get("log_std") or fail_field("log_std")) for st, _, h in inits]
        inits = [(self.trained(st, h), a, h) for st, a, h in inits]

        def collect(name, target, seq, post=None):
            self.fresh()
            leaves = []
            for st, a, h in inits:
                for st1, v in self.calls(st, a if target == "actor" else h, seq):
                    if post is not None and not isinstance(v, Raised):
                        v = post(st1, v)
                    leaves.append(Leaf(st1.pc, v))
            res[name] = leaves

        logits = lambda: ex.inp("logits", V)                       # noqa: E731
        mask = lambda: ex.inp("mask", VB, torch=None)              # noqa: E731
        obs = Opaque("obs")

        def dist_of(st, td):
            if not (isinstance(td, Inst) and "distribution" in st.heap[td.oid]):
                raise Unsupported(f"{REL_SOURCE}: get_distribution does not return an object with a field `distribution`")
            return st.heap[td.oid]["distribution"]

        def stored_action(st):
            """an action from outside, of the type of the support of the distribution the last forward built"""
            h = [hh for s0, _, hh in inits][0]
            td = st.heap[h.oid].get("dist")
            d = dist_of(st, td)
            ty = DIST_CLASSES[d.cls][2] if isinstance(d, DistObj) else VN if isinstance(d, MapList) else None
            if ty is None:
                raise Unsupported(f"{REL_SOURCE}: self.dist.distribution is {ex.describe(d)} after forward")
            return [ex.inp("action", ty, torch=None)]

        collect("masked_logits", "head", [("apply_mask", [logits(), mask()], {})])
        collect("distribution", "head", [("get_distribution", [logits()], {})], post=dist_of)
        collect("forward", "actor", [("forward", [obs], {})])
        collect("forward_masked", "actor", [("forward", [obs, mask()], {})])
        collect("log_prob_stored", "actor", [("forward", [obs], {}), ("action_log_prob", stored_action, {})])
        collect("entropy_stored", "actor", [("forward", [obs], {}), ("action_entropy", [], {})])
        if all(isinstance(st.heap[a.oid].get("action_low"), Tens) for st, a, _ in inits):
            collect("scale_action", "actor", [("scale_action", [ex.inp("action", V, torch=None)], {})])
        return res


def fail_field(name: str):
    raise Unsupported(f"{REL_SOURCE}: EvolvableDistribution.__init__ does not assign self.{name}")


# ---------------------------------------------------------------------------------------------- emission
def render(ex: Exec, v) -> tuple:
    """(term, type) of a leaf value; type None: `None` (an Option of something); ('raise', cls) for a Raised"""
    if isinstance(v, Raised):
        return ("raise", v.cls)
    if isinstance(v, Tens):
        return (v.term, LEAN_TY[v.ty])
    if isinstance(v, Static) and v.v is None:
        return ("none", None)
    if isinstance(v, Static) and type(v.v) is bool:
        return ("true" if v.v else "false", "Bool")
    if isinstance(v, Static) and isinstance(v.v, tuple):
        return tuple(render(ex, e) for e in v.v)
    if isinstance(v, DistObj):
        con, names, _ = DIST_CLASSES[v.cls]
        return (f"(Distr.{con} " + " ".join(v.args[a].term for a in names) + ")", "Distr α")
    if isinstance(v, MapList) and isinstance(v.elem, DistObj) and v.elem.cls == "Categorical":
        inner = MapList(v.srcs, v.binders, v.elem.args["logits"])
        return (f"(Distr.categoricals {ex.concretize(inner)})", "Distr α")
    raise Unsupported(f"an output is {ex.describe(v)}")


def unify(name: str, rs: list):
    """leaves rendered → (list of terms, type); `None` leaves make the type an Option"""
    if all(isinstance(r, tuple) and r and isinstance(r[0], tuple) for r in rs):
        k = {len(r) for r in rs}
        if len(k) != 1:
            raise Unsupported(f"{name}: tuples of different lengths on different paths")
        cols = [unify(name, [r[i] for r in rs]) for i in range(k.pop())]
        return (["(" + ", ".join(c[0][j] for c in cols) + ")" for j in range(len(rs))],
                " × ".join(atom_ty(c[1]) for c in cols))
    if any(isinstance(r[0], tuple) for r in rs):
        raise Unsupported(f"{name}: a tuple on some paths only")
    tys = {r[1] for r in rs if r[1] is not None}
    if len(tys) > 1:
        raise Unsupported(f"{name}: values of different types on different paths ({', '.join(sorted(tys))})")
    if not tys:
        return ([r[0] for r in rs], "Option α")
    ty = tys.pop()
    if any(r[1] is None for r in rs):
        return ([r[0] if r[1] is None else f"(some {r[0]})" for r in rs], f"Option {atom_ty(ty)}")
    return ([r[0] for r in rs], ty)


def atom_ty(t: str) -> str:
    return f"({t})" if " " in t else t


def build_tree(name: str, leaves: list):
    """leaves: [(pc, text)] → nested ('if', atom, T, E) | text"""
    if len(leaves) == 1 and not leaves[0][0]:
        return leaves[0][1]
    if any(not pc for pc, _ in leaves):
        raise Unsupported(f"{name}: inconsistent path conditions")
    atom = leaves[0][0][0][0]
    if any(pc[0][0] != atom for pc, _ in leaves):
        raise Unsupported(f"{name}: paths test different conditions first")
    t = [(pc[1:], x) for pc, x in leaves if pc[0][1]]
    e = [(pc[1:], x) for pc, x in leaves if not pc[0][1]]
    if not t or not e:
        return build_tree(name, t or e)
    a, b = build_tree(name, t), build_tree(name, e)
    return a if a == b else ("if", atom, a, b)


def tree_lines(t, indent: int) -> list:
    pad = " " * indent
    if isinstance(t, str):
        return [pad + t]
    _, atom, a, b = t
    return [f"{pad}if {atom} then"] + tree_lines(a, indent + 2) + [f"{pad}else"] + tree_lines(b, indent + 2)


def tree_atoms(t) -> list:
    if isinstance(t, str):
        return []
    out = [t[1]]
    for x in tree_atoms(t[2]) + tree_atoms(t[3]):
        if x not in out:
            out.append(x)
    return out


def canon_binders(text: str) -> str:
    """comprehension binders `c<k>` renamed in order of first appearance (the counter is global to a run)"""
    order: dict[str, str] = {}

    def sub(m):
        return order.setdefault(m.group(0), f"c{len(order)}")
    return re.sub(r"(?<![\w.])c\d+(?![\w'])", sub, text)


def emit_def(ex: Exec, name: str, leaves: list) -> list:
    rs = [render(ex, lf.val) for lf in leaves]
    raising = [r for r in rs if r and r[0] == "raise"]
    if raising:
        if len(raising) != len(rs) or len({r[1] for r in raising}) != 1:
            raise Unsupported(f"{name}: raises on some paths only / different exceptions on different paths")
        return [f"/-- {DOCS[name]}: raises on every path -/", f'def {name}_raises : String := "{raising[0][1]}"']
    terms, ty = unify(name, rs)
    terms = [canon_binders(t) for t in terms]
    t = build_tree(name, [(lf.pc, x) for lf, x in zip(leaves, terms)])
    atoms = tree_atoms(t)
    bad = [a for a in atoms if a.startswith("repr")]
    if bad:
        raise Unsupported(f"{name}: the result depends on the container / dtype of an input (a test like "
                          "`isinstance(x, np.ndarray)` whose branches differ)")
    body = "\n".join(tree_lines(t, 2))
    used = [i for i in ex.inputs if re.search(rf"(?<![\w.]){re.escape(i)}(?![\w'])", body)]
    used.sort(key=lambda i: (PRIORITY.index(i) if i in PRIORITY else len(PRIORITY), i))
    params = "".join(f" ({a} : Bool)" for a in sorted(atoms)) + "".join(f" ({i} : {ex.inputs[i]})" for i in used)
    return [f"/-- {DOCS[name]} -/", f"def {name} (P : Prims α){params} : {ty} :=", body]


def repo_dir(arg: str | None = None) -> Path:
    if arg:
        return Path(arg)
    return Path(os.environ.get("VERIF_REPO", "/repo"))


def translate(repo: Path) -> tuple[str, str]:
    """returns (lean text, sha256 of the two source files); raises Unsupported"""
    mods: dict[str, Module] = {}
    h = hashlib.sha256()
    for rel in REL_SOURCES:
        path = Path(repo) / rel
        try:
            raw = path.read_bytes()
        except OSError as e:
            raise Unsupported(f"cannot read {path}: {e}") from e
        h.update(raw)
        try:
            mods[rel] = Module(rel, raw.decode("utf-8"))
        except SyntaxError as e:
            raise Unsupported(f"{rel}:{e.lineno}: not parseable: {e.msg}") from e
    sha = h.hexdigest()
    ex = Exec(mods)
    out: list[str] = []
    kinds_table: list[str] = []
    try:
        for ns, kind in KINDS:
            ex.inputs = {}          # the inputs (and their types) are per kind
            res = Script(ex, kind).run()
            out += [f"namespace {ns}", ""]
            for name, leaves in res.items():
                out += emit_def(ex, name, leaves) + [""]
            out += [f"end {ns}", ""]
    except RecursionError as e:
        raise Unsupported(f"{CUR_FILE[0]}: recursion too deep while executing symbolically") from e
    assumed = sorted(ex.assumed)
    header = "\n".join([
        "/-",
        "  Gen/DistGen.lean — GENERATED by harness/py2lean_dist.py by symbolic execution of",
        f"  {REL_SOURCE} (sum_independent_tensor, apply_action_mask_discrete, the handler classes,",
        f"  TorchDistribution, EvolvableDistribution) and of StochasticActor.{{__init__, scale_action, forward,",
        f"  action_log_prob, action_entropy}} in {REL_ACTORS}, once per action-space kind; do not edit.",
        "  Core Lean only.  One batch row: a rank-1 tensor is a number, a rank-2 tensor a list.  The elementary",
        "  functions and the primitive log-densities / entropies are the fields of `Prims` (parameters).",
        "  `Proofs/DistGenEq.lean` proves the definitions equal to the composition functions of `Model/Dist.lean`.",
        "  Assumed (inputs / identities / opaque calls met on the executed paths):",
        "    * shapes agree (torch's shape errors and argument validation are not modelled); `expand_as` keeps the row",
    ] + [f"    * {a}" for a in assumed] + [
        "-/",
        SHA_PREFIX + sha,
        "set_option linter.unusedVariables false",
        "",
    ])
    body = PRELUDE.strip("\n") + "\n\n" + "\n".join(out).rstrip() + "\n\nend DistGen\n"
    return header + "\n" + body, sha


def strip_sha(text: str) -> str:
    return "\n".join(ln for ln in text.split("\n") if not ln.startswith(SHA_PREFIX))


def write_if_changed(text: str, out: Path, force: bool = False) -> bool:
    """writes `text` unless the file already holds the same translation (sha line ignored)"""
    out = Path(out)
    old = out.read_text() if out.exists() else None
    if old is not None and not force and strip_sha(old) == strip_sha(text):
        return False
    if old == text:
        return False
    out.parent.mkdir(parents=True, exist_ok=True)
    tmp = out.with_suffix(".lean.tmp")
    tmp.write_text(text)
    os.replace(tmp, out)
    return True


def main(argv: list[str]) -> int:
    import argparse
    ap = argparse.ArgumentParser()
    ap.add_argument("--repo", default=None)
    ap.add_argument("--out", default=str(DEFAULT_OUT))
    ap.add_argument("--stdout", action="store_true")
    ap.add_argument("--force", action="store_true", help="rewrite even if only the sha256 line differs")
    a = ap.parse_args(argv)
    try:
        text, sha = translate(repo_dir(a.repo))
    except Unsupported as e:
        print(f"py2lean_dist: {e}", file=sys.stderr)
        return 1
    if a.stdout:
        sys.stdout.write(text)
        return 0
    changed = write_if_changed(text, Path(a.out), a.force)
    print(f"{a.out}: {'written' if changed else 'unchanged'} (source sha256 {sha[:16]}…, "
          f"translation sha256 {hashlib.sha256(strip_sha(text).encode()).hexdigest()[:16]}…)")
    return 0


if __name__ == "__main__":
    sys.exit(main(sys.argv[1:]))
