#!/usr/bin/env python3
"""
py2lean_dueling.py — translate the dueling distributional head of Rainbow from the *source text* into Lean 4:

  REPO/agilerl/networks/custom_modules.py   `DuelingDistributionalMLP.__init__` (which constructor argument becomes
                                            `num_atoms / num_actions / support`, the output widths of the value net
                                            `self.model` and of `self.advantage_net`), `.forward`, `.recreate_network`
                                            (width of the rebuilt advantage net)
  REPO/agilerl/networks/q_networks.py       `RainbowQNetwork.__init__` (`self.num_atoms`, `self.support`),
                                            `.build_network_head`, `.recreate_network` (what the head is constructed
                                            with), `.forward` (how `q` / `log` reach the head)

    python3 harness/py2lean_dueling.py [--repo DIR] [--out FILE] [--stdout] [--force]

Reads the source with Python's `ast` only (agilerl / torch are never imported) and writes lean/Gen/DuelingGen.lean
(namespace DuelingGen, core Lean only).  `Proofs/DuelingGenEq.lean` proves the generated definitions equal to
`Duel.combine / Duel.forward` of `Model/C51.lean`; `Props/C18.lean` restates the theorems over them
(`C18_source_translation_dueling_*`).

How.  `forward` is executed symbolically, statement by statement, on ONE BATCH ROW with shape inference: a tensor value
is (shape after the batch dimension, Lean expression); `(B, n)` is a `List α`, `(B, r, c)` a `List (List α)` (list of
rows).  Locals are substituted by their values, so renaming a local, introducing a temporary, `x += y` ↔ `x = x + y`
and reordering independent statements do not change the output.  Every operator, operand order, constant, `dim`,
keyword, branch condition and the order of the `if`s flows from the AST.  A condition on a flag (`q`, `log`) forks;
the outcome is an `if` tree over the flags whose leaves are the returned tensors (`Out.vec` for `(B, r)`, `Out.mat`
for `(B, r, c)`).

Output:
    value_width / advantage_width        output width of `self.model` / `self.advantage_net` as `__init__` builds them,
                                         over the constructor arguments
    recreate_advantage_width             width of the advantage net `recreate_network` builds, over the attributes
    init_attrs                           (num_actions, num_atoms, support) of the head as `__init__` assigns them
    softmax_arg / log_softmax_arg        the `(A, N)` logits handed to `F.softmax` / `F.log_softmax`
    forward                              `DuelingDistributionalMLP.forward(x, q, log)` : `Out α`
    net_init_attrs                       (num_atoms, support) of `RainbowQNetwork` as `__init__` assigns them
    net_head_args_build / _recreate      (num_outputs, num_atoms, support) the head is constructed with
    net_forward                          `RainbowQNetwork.forward(obs, q, log)` : `Out α`

Elementary functions are NOT translated: `exp`, `log` and the embedding `lit : Rat → α` of the literals are the fields
of `Prims α`; `F.softmax` / `F.log_softmax` over the last dimension are the prelude's `softmaxRow` / `logSoftmaxRow`
(`exp x_j / Σ exp x`, `x_j − log Σ exp x`).  A float literal is read as the decimal the source writes (`1e-3` = 1/1000).

Supported subset (anything else raises `Unsupported` naming the construct and line):
  * statements: docstring; `x = e`, `x: T = e`, `x op= e` (`+ - *`); `if <flag>:` / `else:` with `<flag>` built from the
    boolean parameters by `not`; `return e`.
  * expressions: names, `self.<attr>` (int attributes `num_atoms`, `num_actions`; the tensor attribute `support` of
    shape `(num_atoms,)`), int / float literals, `+ - *` with torch broadcasting decided from the inferred shapes
    (equal dims, or a dim that is the literal 1), `self.<submodule>(x)` (an input row of the width `__init__` gives that
    sub-network), `t.size(0)` (the batch size), `t.view(batch_size | -1, d1, d2)` of a `(B, d1·d2)` tensor,
    `t.view(-1, c)` of a `(B, r, c)` tensor (rows of all batch entries stacked) and `t.view(-1, r, c)` back,
    `t.mean(1, keepdim=True)`, `F.softmax / F.log_softmax / torch.softmax / torch.log_softmax (t, dim=<last>)`,
    `t.softmax(dim=…)`, `t.clamp(min=<literal>)`, `torch.sum(t, dim=<last>)` / `t.sum(<last>)`.
  * in the other methods: `self.a = <ctor argument>`, `super().__init__(<positional ints>, …)`, the keyword arguments
    `output_size= / num_outputs= / num_atoms= / support=` of `create_mlp(…)` / `DuelingDistributionalMLP(…)`.

Assumptions (repeated in the header of the generated file):
  * one batch row; `self.model(x)` / `self.advantage_net(x)` are inputs `model_out` / `advantage_net_out`, of the widths
    `__init__` passes to `super().__init__` (second positional argument = number of outputs of `EvolvableMLP.model`)
    and to `create_mlp(output_size=…)`;
  * row `b` of a `(B, r, c)` tensor is rows `b·r … b·r+r−1` of its `.view(-1, c)` (row-major), so a function of the
    last dimension commutes with that view;
  * `self.support` has shape `(num_atoms,)`; device / dtype do not change values;
  * `self.extract_features(obs)` is an opaque function; the head's sub-networks are opaque functions of the latent;
  * attributes keep the value `__init__` assigns them; `EvolvableModule.preserve_parameters` keeps the new module's
    constructor arguments.

The header carries the sha256 of the two source files; `write_if_changed` compares everything *but* that line.
"""
from __future__ import annotations

import ast
import hashlib
import os
import sys
from fractions import Fraction
from pathlib import Path

HERE = Path(__file__).resolve().parent
DEFAULT_OUT = HERE.parent / "lean" / "Gen" / "DuelingGen.lean"
REL_SOURCE = "agilerl/networks/custom_modules.py"
REL_NET = "agilerl/networks/q_networks.py"
REL_SOURCES = [REL_SOURCE, REL_NET]
SHA_PREFIX = "-- sha256(source) = "
HEAD_CLASS = "DuelingDistributionalMLP"
NET_CLASS = "RainbowQNetwork"


class Unsupported(Exception):
    pass


CUR = [REL_SOURCE]


def fail(node, what: str):
    raise Unsupported(f"{CUR[0]}:{getattr(node, 'lineno', '?')}: unsupported construct: {what}")


PRELUDE = r'''
namespace DuelingGen

/-- the elementary functions of torch: explicit parameters of every definition below (never defaults).
    `lit` embeds the literals of the source. -/
structure Prims (α : Type) where
  lit : Rat → α
  exp : α → α
  log : α → α

/-- what `forward` returns for one batch row: a `(B, r)` tensor or a `(B, r, c)` tensor -/
inductive Out (α : Type) where
  | vec (v : List α)
  | mat (m : List (List α))

/-- `t.view(B, r, c)` of a `(B, r·c)` tensor, one batch row: row `a` = entries `[a·c, (a+1)·c)` (row-major) -/
def viewRows {β : Type} (r c : Nat) (flat : List β) : List (List β) :=
  (List.range r).map fun a => (flat.drop (a * c)).take c

variable {α : Type} [Add α] [Sub α] [Mul α] [Div α] [Zero α] [Max α]

/-- `t.mean(1, keepdim=True)` of a `(B, r, c)` tensor, one batch row: the `(1, c)` tensor of the column means -/
def meanRows (P : Prims α) (r c : Nat) (m : List (List α)) : List (List α) :=
  [(List.range c).map fun j => (m.map fun row => row.getD j 0).sum / P.lit (r : Rat)]

/-- `F.softmax(·, dim=-1)` on one row of logits -/
def softmaxRow (P : Prims α) (row : List α) : List α := row.map fun x => P.exp x / (row.map P.exp).sum

/-- `F.log_softmax(·, dim=-1)` on one row of logits -/
def logSoftmaxRow (P : Prims α) (row : List α) : List α := row.map fun x => x - P.log (row.map P.exp).sum
'''


# ----------------------------------------------------------------------------- symbolic values
class Int:
    """a static natural number: Lean expression + multiset of factors (for `view` checks)"""

    def __init__(self, expr: str, factors: tuple):
        self.expr, self.factors = expr, tuple(sorted(f for f in factors if f != "1"))

    @property
    def is_one(self):
        return self.factors == () and self.expr == "1"


ONE = Int("1", ())


class Ten:
    """per batch row: `dims` after the batch dimension; `stacked`: the tensor is the `.view(-1, c)` of a
    `(B, r, c)` tensor (its rows of all batch entries stacked — per row still the `r × c` matrix)"""

    def __init__(self, dims: tuple, expr: str, stacked: bool = False):
        self.dims, self.expr, self.stacked = dims, expr, stacked


class Flag:
    def __init__(self, expr: str):
        self.expr = expr


class Batch:
    pass


class Lit:
    def __init__(self, q: Fraction, is_int: bool):
        self.q, self.is_int = q, is_int


class Opaque:
    """a value that is only passed on (observation, latent)"""

    def __init__(self, expr: str, ty: str):
        self.expr, self.ty = expr, ty


def lit_text(q: Fraction) -> str:
    s = str(q.numerator) if q.denominator == 1 else f"{q.numerator} / {q.denominator}"
    return f"(P.lit ({s}))"


def same(a: Int, b: Int) -> bool:
    return a.factors == b.factors and (a.factors != () or a.expr == b.expr)


OPS = {ast.Add: "+", ast.Sub: "-", ast.Mult: "*"}


# ----------------------------------------------------------------------------- class facts
def find_class(tree, name):
    for n in tree.body:
        if isinstance(n, ast.ClassDef) and n.name == name:
            return n
    raise Unsupported(f"{CUR[0]}: class {name} not found")


def find_method(cls, name, required=True):
    for n in cls.body:
        if isinstance(n, ast.FunctionDef) and n.name == name:
            return n
    if required:
        raise Unsupported(f"{CUR[0]}: {cls.name}.{name} not found")
    return None


def formals(fn) -> list[str]:
    a = fn.args
    if a.vararg or a.kwarg or a.posonlyargs or a.kwonlyargs:
        fail(fn, f"*args / **kwargs / keyword-only parameters of {fn.name}")
    return [x.arg for x in a.args]


def walk_stmts(fn):
    """top-level statements of a method, docstring dropped"""
    body = fn.body
    if body and isinstance(body[0], ast.Expr) and isinstance(body[0].value, ast.Constant) and \
            isinstance(body[0].value.value, str):
        body = body[1:]
    return body


def is_self_attr(node, name=None):
    return isinstance(node, ast.Attribute) and isinstance(node.value, ast.Name) and node.value.id == "self" and \
        (name is None or node.attr == name)


def int_expr(node, env: dict) -> Int:
    """static natural-number expression over `env` (name / `self.attr` -> Int)"""
    if isinstance(node, ast.Constant) and isinstance(node.value, int) and not isinstance(node.value, bool) and \
            node.value >= 0:
        return Int(str(node.value), (str(node.value),))
    if isinstance(node, ast.Name) and isinstance(env.get(node.id), Int):
        return env[node.id]
    if is_self_attr(node) and isinstance(env.get("self." + node.attr), Int):
        return env["self." + node.attr]
    if isinstance(node, ast.BinOp) and isinstance(node.op, ast.Mult):
        a, b = int_expr(node.left, env), int_expr(node.right, env)
        return Int(f"({a.expr} * {b.expr})", a.factors + b.factors)
    if isinstance(node, ast.BinOp) and isinstance(node.op, ast.Add):
        a, b = int_expr(node.left, env), int_expr(node.right, env)
        return Int(f"({a.expr} + {b.expr})", (f"({a.expr} + {b.expr})",))
    fail(node, f"integer expression `{ast.unparse(node)}`")


def kw(call: ast.Call, name: str):
    for k in call.keywords:
        if k.arg is None:
            if name in ("q", "log", "output_size", "num_outputs", "num_atoms", "support"):
                continue
        if k.arg == name:
            return k.value
    return None


def find_calls(fn, callee: str):
    out = []
    for n in ast.walk(fn):
        if isinstance(n, ast.Call):
            f = n.func
            nm = f.id if isinstance(f, ast.Name) else (f.attr if isinstance(f, ast.Attribute) else None)
            if nm == callee:
                out.append(n)
    return out


# ----------------------------------------------------------------------------- forward: symbolic execution
class Exec:
    def __init__(self, attrs: dict, subnets: dict, assumed: set):
        self.attrs, self.subnets, self.assumed = attrs, subnets, assumed
        self.used_nets: set = set()
        self.softmax_args: dict = {}

    # -- expressions
    def ev(self, node, env):
        if isinstance(node, ast.Constant):
            v = node.value
            if isinstance(v, bool):
                return Flag("true" if v else "false")
            if isinstance(v, int):
                return Lit(Fraction(v), True)
            if isinstance(v, float):
                seg = ast.get_source_segment(self.src, node) or repr(v)
                try:
                    return Lit(Fraction(seg.replace("_", "")), False)
                except ValueError:
                    return Lit(Fraction(repr(v)), False)
            fail(node, f"constant {v!r}")
        if isinstance(node, ast.UnaryOp) and isinstance(node.op, ast.USub):
            v = self.ev(node.operand, env)
            if isinstance(v, Lit):
                return Lit(-v.q, v.is_int)
            fail(node, "unary minus on a tensor")
        if isinstance(node, ast.UnaryOp) and isinstance(node.op, ast.Not):
            v = self.ev(node.operand, env)
            if isinstance(v, Flag):
                return Flag(f"(!{v.expr})")
            fail(node, "`not` of a non-flag")
        if isinstance(node, ast.Name):
            if node.id not in env:
                fail(node, f"unknown name `{node.id}`")
            return env[node.id]
        if is_self_attr(node):
            a = node.attr
            if a in self.attrs:
                return self.attrs[a]
            fail(node, f"attribute `self.{a}` (known: {sorted(self.attrs)})")
        if isinstance(node, ast.BinOp):
            if type(node.op) not in OPS:
                fail(node, f"operator {type(node.op).__name__}")
            return self.binop(node, OPS[type(node.op)], self.ev(node.left, env), self.ev(node.right, env))
        if isinstance(node, ast.Call):
            return self.call(node, env)
        fail(node, type(node).__name__)

    def binop(self, node, op, a, b):
        if isinstance(a, Int) and isinstance(b, Int) and op == "*":
            return Int(f"({a.expr} * {b.expr})", a.factors + b.factors)
        if isinstance(a, Ten) and isinstance(b, Lit):
            f = f"(fun x => x {op} {lit_text(b.q)})"
            return Ten(a.dims, self.map_all(len(a.dims), f, a.expr), a.stacked)
        if isinstance(a, Lit) and isinstance(b, Ten):
            f = f"(fun x => {lit_text(a.q)} {op} x)"
            return Ten(b.dims, self.map_all(len(b.dims), f, b.expr), b.stacked)
        if not (isinstance(a, Ten) and isinstance(b, Ten)):
            fail(node, f"`{op}` of these operands")
        if a.stacked != b.stacked and len(a.dims) == len(b.dims) == 2:
            fail(node, "arithmetic between a `.view(-1, c)` tensor and a `(B, r, c)` tensor")
        zw = f"(fun x y => x {op} y)"
        if len(a.dims) == 1 and len(b.dims) == 1:
            if not same(a.dims[0], b.dims[0]):
                fail(node, f"shapes ({a.dims[0].expr}) and ({b.dims[0].expr}) do not broadcast")
            return Ten(a.dims, f"(List.zipWith {zw} {a.expr} {b.expr})")
        if len(a.dims) == 2 and len(b.dims) == 1:
            if a.stacked or not same(a.dims[1], b.dims[0]):
                fail(node, "shapes do not broadcast")
            return Ten(a.dims, f"(List.map (fun row => List.zipWith {zw} row {b.expr}) {a.expr})")
        if len(a.dims) == 1 and len(b.dims) == 2:
            if b.stacked or not same(a.dims[0], b.dims[1]):
                fail(node, "shapes do not broadcast")
            return Ten(b.dims, f"(List.map (fun row => List.zipWith {zw} {a.expr} row) {b.expr})")
        if len(a.dims) == 2 and len(b.dims) == 2:
            if not same(a.dims[1], b.dims[1]):
                fail(node, f"last dimensions {a.dims[1].expr} / {b.dims[1].expr} do not broadcast")
            if same(a.dims[0], b.dims[0]):
                return Ten(a.dims, f"(List.zipWith (List.zipWith {zw}) {a.expr} {b.expr})", a.stacked)
            if a.dims[0].is_one:
                return Ten(b.dims, f"(List.map (fun row => List.zipWith {zw} (List.headD {a.expr} []) row) {b.expr})",
                           b.stacked)
            if b.dims[0].is_one:
                return Ten(a.dims, f"(List.map (fun row => List.zipWith {zw} row (List.headD {b.expr} [])) {a.expr})",
                           a.stacked)
            fail(node, f"dimensions {a.dims[0].expr} / {b.dims[0].expr} do not broadcast")
        fail(node, "rank")

    @staticmethod
    def map_all(rank, f, e):
        return f"(List.map {f} {e})" if rank == 1 else f"(List.map (List.map {f}) {e})"

    def dim_arg(self, node, call, pos, name="dim"):
        d = kw(call, name)
        if d is None and len(call.args) > pos:
            d = call.args[pos]
        if d is None:
            fail(node, f"`{name}` missing")
        v = self.ev(d, {})
        if not (isinstance(v, Lit) and v.is_int):
            fail(node, f"`{name}` is not an integer literal")
        return int(v.q)

    def last_dim(self, node, t: Ten, d: int):
        """`d` addresses the last dimension of the batched tensor"""
        rank_b = (2 if t.stacked else 1 + len(t.dims))
        if d != -1 and d != rank_b - 1:
            fail(node, f"dim={d} is not the last dimension of a rank-{rank_b} tensor")

    def call(self, node: ast.Call, env):
        f = node.func
        # self.<subnet>(x)
        if is_self_attr(f) and f.attr in self.subnets:
            if len(node.args) != 1 or node.keywords:
                fail(node, f"arguments of self.{f.attr}(…)")
            x = self.ev(node.args[0], env)
            if not isinstance(x, Opaque):
                fail(node, f"self.{f.attr} applied to something that is not the input")
            self.used_nets.add(f.attr)
            return Ten((self.subnets[f.attr],), f"{f.attr}_out")
        # F.softmax(t, dim=) / torch.softmax / F.log_softmax
        if isinstance(f, ast.Attribute) and f.attr in ("softmax", "log_softmax"):
            base = f.value
            if isinstance(base, ast.Name) and base.id in ("F", "torch") or \
                    (isinstance(base, ast.Attribute) and ast.unparse(base) in ("torch.nn.functional", "nn.functional")):
                if not node.args:
                    fail(node, "softmax without a tensor")
                t, pos = self.ev(node.args[0], env), 1
            else:
                t, pos = self.ev(base, env), 0
            if not isinstance(t, Ten) or len(t.dims) != 2:
                fail(node, f"{f.attr} of a tensor that is not (…, r, c)")
            self.last_dim(node, t, self.dim_arg(node, node, pos))
            fn = "softmaxRow" if f.attr == "softmax" else "logSoftmaxRow"
            self.softmax_args.setdefault(f.attr, []).append(t.expr)
            return Ten(t.dims, f"(List.map ({fn} P) {t.expr})", t.stacked)
        # torch.sum(t, dim=)
        if isinstance(f, ast.Attribute) and f.attr == "sum":
            if isinstance(f.value, ast.Name) and f.value.id == "torch":
                if not node.args:
                    fail(node, "torch.sum without a tensor")
                t, pos = self.ev(node.args[0], env), 1
            else:
                t, pos = self.ev(f.value, env), 0
            if not isinstance(t, Ten) or len(t.dims) != 2 or t.stacked:
                fail(node, "sum of a tensor that is not (B, r, c)")
            if kw(node, "keepdim") is not None:
                fail(node, "sum(keepdim=…)")
            self.last_dim(node, t, self.dim_arg(node, node, pos))
            return Ten((t.dims[0],), f"(List.map List.sum {t.expr})")
        if not isinstance(f, ast.Attribute):
            fail(node, f"call `{ast.unparse(f)}`")
        recv = self.ev(f.value, env)
        m = f.attr
        if m == "size" and isinstance(recv, Ten):
            if len(node.args) == 1 and isinstance(self.ev(node.args[0], env), Lit) and self.ev(node.args[0], env).q == 0:
                return Batch()
            fail(node, "`.size(k)` for k != 0")
        if m == "view" and isinstance(recv, Ten):
            return self.view(node, recv, env)
        if m == "mean" and isinstance(recv, Ten):
            d = self.dim_arg(node, node, 0)
            kd = kw(node, "keepdim")
            if kd is None and len(node.args) > 1:
                kd = node.args[1]
            if len(recv.dims) != 2 or recv.stacked:
                fail(node, "mean of a tensor that is not (B, r, c)")
            if d != 1 and d != -2:
                fail(node, f"mean over dim={d} (only the action dimension 1 is supported)")
            if not (isinstance(kd, ast.Constant) and kd.value is True):
                fail(node, "mean without keepdim=True")
            return Ten((ONE, recv.dims[1]), f"(meanRows P {recv.dims[0].expr} {recv.dims[1].expr} {recv.expr})")
        if m == "clamp" and isinstance(recv, Ten):
            if node.args or [k.arg for k in node.keywords] != ["min"]:
                fail(node, "clamp with anything but the single keyword `min=`")
            lo = self.ev(node.keywords[0].value, env)
            if not isinstance(lo, Lit):
                fail(node, "clamp(min=…) with a non-literal")
            return Ten(recv.dims, self.map_all(len(recv.dims), f"(fun x => max x {lit_text(lo.q)})", recv.expr),
                       recv.stacked)
        if m in ("to", "float", "contiguous", "detach", "clone") and isinstance(recv, Ten):
            self.assumed.add(f"`.{m}(…)` is the identity on values")
            return recv
        fail(node, f"method `.{m}(…)`")

    def view(self, node, t: Ten, env):
        if node.keywords or len(node.args) < 2:
            fail(node, "view arguments")
        first = self.ev(node.args[0], env)
        if not (isinstance(first, Batch) or (isinstance(first, Lit) and first.q == -1)):
            fail(node, "first argument of view is neither the batch size nor -1")
        dims = []
        for a in node.args[1:]:
            v = self.ev(a, env)
            if isinstance(v, Lit) and v.is_int and v.q >= 1:
                v = ONE if v.q == 1 else Int(str(int(v.q)), (str(int(v.q)),))
            if not isinstance(v, Int):
                fail(a, f"view dimension `{ast.unparse(a)}`")
            dims.append(v)
        if len(t.dims) == 1 and len(dims) == 2:
            if Int("", dims[0].factors + dims[1].factors).factors != t.dims[0].factors:
                fail(node, f"view of a (B, {t.dims[0].expr}) tensor as (B, {dims[0].expr}, {dims[1].expr})")
            if dims[0].is_one:
                return Ten((ONE, dims[1]), f"[{t.expr}]")
            return Ten(tuple(dims), f"(viewRows {dims[0].expr} {dims[1].expr} {t.expr})")
        if len(t.dims) == 2 and len(dims) == 1 and not t.stacked:
            if isinstance(first, Batch) or not same(dims[0], t.dims[1]):
                fail(node, "view(-1, c) with c different from the last dimension")
            self.assumed.add("row b of a (B, r, c) tensor is rows b·r … b·r+r−1 of its .view(-1, c) (row-major)")
            return Ten(t.dims, t.expr, stacked=True)
        if len(t.dims) == 2 and len(dims) == 2:
            if not (same(dims[0], t.dims[0]) and same(dims[1], t.dims[1])):
                fail(node, f"view as (…, {dims[0].expr}, {dims[1].expr}) of a (…, {t.dims[0].expr}, {t.dims[1].expr}) tensor")
            return Ten(t.dims, t.expr, stacked=False)
        fail(node, "view")

    # -- statements
    def run(self, stmts, env) -> str:
        """returns the Lean text of the value returned on this path (`if` tree over the flags)"""
        for i, s in enumerate(stmts):
            if isinstance(s, ast.Expr) and isinstance(s.value, ast.Constant) and isinstance(s.value.value, str):
                continue
            if isinstance(s, ast.Pass):
                continue
            if isinstance(s, (ast.Assign, ast.AnnAssign)):
                tg = s.targets if isinstance(s, ast.Assign) else [s.target]
                if len(tg) != 1 or not isinstance(tg[0], ast.Name) or s.value is None:
                    fail(s, "assignment target")
                env = dict(env)
                env[tg[0].id] = self.ev(s.value, env)
                continue
            if isinstance(s, ast.AugAssign):
                if not isinstance(s.target, ast.Name) or type(s.op) not in OPS:
                    fail(s, "augmented assignment")
                env = dict(env)
                env[s.target.id] = self.binop(s, OPS[type(s.op)], self.ev(s.target, env), self.ev(s.value, env))
                continue
            if isinstance(s, ast.If):
                c = self.ev(s.test, env)
                if not isinstance(c, Flag):
                    fail(s, f"condition `{ast.unparse(s.test)}` is not a flag")
                rest = stmts[i + 1:]
                th = self.run(list(s.body) + rest, env)
                el = self.run(list(s.orelse) + rest, env)
                return f"(if {c.expr} then {th} else {el})"
            if isinstance(s, ast.Return):
                if s.value is None:
                    fail(s, "return without a value")
                v = self.ev(s.value, env)
                if not isinstance(v, Ten):
                    fail(s, "returned value is not a tensor")
                if v.stacked:
                    fail(s, "returns the (B·r, c) view")
                return f"(Out.vec {v.expr})" if len(v.dims) == 1 else f"(Out.mat {v.expr})"
            fail(s, type(s).__name__)
        fail(stmts[-1] if stmts else None, "a path that ends without `return`")


# ----------------------------------------------------------------------------- the two classes
def head_facts(tree, src):
    CUR[0] = REL_SOURCE
    cls = find_class(tree, HEAD_CLASS)
    init = find_method(cls, "__init__")
    params = formals(init)[1:]
    env = {p: Int(p, (p,)) for p in params}
    # which ctor argument becomes which attribute
    attr_of = {}
    for s in walk_stmts(init):
        if isinstance(s, ast.Assign) and len(s.targets) == 1 and is_self_attr(s.targets[0]) and \
                isinstance(s.value, ast.Name) and s.value.id in params:
            attr_of[s.targets[0].attr] = s.value.id
    for need in ("num_atoms", "num_actions", "support"):
        if need not in attr_of:
            fail(init, f"`self.{need} = <constructor argument>` not found in {HEAD_CLASS}.__init__")
    sup = [c for c in find_calls(init, "__init__") if isinstance(c.func, ast.Attribute) and
           isinstance(c.func.value, ast.Call) and isinstance(c.func.value.func, ast.Name) and c.func.value.func.id == "super"]
    if len(sup) != 1 or len(sup[0].args) < 2:
        fail(init, "super().__init__(num_inputs, <outputs>, …) with two positional arguments")
    value_w = int_expr(sup[0].args[1], env)
    cm = [c for c in find_calls(init, "create_mlp")]
    if len(cm) != 1 or kw(cm[0], "output_size") is None:
        fail(init, "exactly one create_mlp(…, output_size=…) in __init__")
    # which attribute holds it
    adv_attr = None
    for s in walk_stmts(init):
        if isinstance(s, ast.Assign) and s.value is cm[0] and len(s.targets) == 1 and is_self_attr(s.targets[0]):
            adv_attr = s.targets[0].attr
    if adv_attr is None:
        fail(cm[0], "create_mlp(…) is not assigned to an attribute")
    adv_w = int_expr(kw(cm[0], "output_size"), env)
    used = sorted({p for p in params if p in (attr_of["num_atoms"], attr_of["num_actions"])})
    rec = find_method(cls, "recreate_network")
    rcm = find_calls(rec, "create_mlp")
    if len(rcm) != 1 or kw(rcm[0], "output_size") is None:
        fail(rec, "exactly one create_mlp(…, output_size=…) in recreate_network")
    aenv = {"self.num_atoms": Int("self_num_atoms", ("self_num_atoms",)),
            "self.num_actions": Int("self_num_actions", ("self_num_actions",))}
    rec_w = int_expr(kw(rcm[0], "output_size"), aenv)
    # widths over the attributes (for `forward`)
    sub = {attr_of["num_atoms"]: Int("self_num_atoms", ("self_num_atoms",)),
           attr_of["num_actions"]: Int("self_num_actions", ("self_num_actions",))}
    w_model = int_expr(sup[0].args[1], sub)
    w_adv = int_expr(kw(cm[0], "output_size"), sub)
    return cls, attr_of, used, value_w, adv_w, rec_w, adv_attr, w_model, w_adv


def translate_sources(src_head: str, src_net: str):
    assumed: set = set()
    CUR[0] = REL_SOURCE
    tree = ast.parse(src_head)
    cls, attr_of, used, value_w, adv_w, rec_w, adv_attr, w_model, w_adv = head_facts(tree, src_head)
    fwd = find_method(cls, "forward")
    fparams = formals(fwd)[1:]
    if len(fparams) < 1:
        fail(fwd, "forward without an input")
    flags = fparams[1:]
    for d in fwd.args.defaults:
        if not (isinstance(d, ast.Constant) and isinstance(d.value, bool)):
            fail(fwd, "default of a flag that is not a boolean literal")
    if len(fwd.args.defaults) != len(flags):
        fail(fwd, "a parameter of forward after the input has no boolean default")
    defaults = {p: ("true" if d.value else "false") for p, d in zip(flags, fwd.args.defaults)}
    NA = Int("self_num_actions", ("self_num_actions",))
    NN = Int("self_num_atoms", ("self_num_atoms",))
    attrs = {"num_actions": NA, "num_atoms": NN, "support": Ten((NN,), "self_support")}
    ex = Exec(attrs, {"model": w_model, adv_attr: w_adv}, assumed)
    ex.src = src_head
    env = {fparams[0]: Opaque("x", "X")}
    for p in flags:
        env[p] = Flag(p)
    body = ex.run(walk_stmts(fwd), env)
    nets = sorted(ex.used_nets)
    net_params = " ".join(f"({n}_out : List α)" for n in nets)
    flag_params = " ".join(f"({p} : Bool)" for p in flags)
    sig = f"(P : Prims α) (self_num_actions self_num_atoms : Nat) (self_support : List α) {net_params}"
    out = []
    fm = lambda v: " ".join(v)
    out.append(f"/-- output width of `self.model` (the value net) as `{HEAD_CLASS}.__init__` passes it to `super().__init__` -/")
    out.append(f"def value_width ({fm(used)} : Nat) : Nat :=\n  {value_w.expr}\n")
    out.append(f"/-- output width of `self.{adv_attr}` as `__init__` passes it to `create_mlp(output_size=…)` -/")
    out.append(f"def advantage_width ({fm(used)} : Nat) : Nat :=\n  {adv_w.expr}\n")
    out.append("/-- output width of the advantage net that `recreate_network` builds, over the attributes -/")
    out.append(f"def recreate_advantage_width (self_num_actions self_num_atoms : Nat) : Nat :=\n  {rec_w.expr}\n")
    ctor3 = sorted({attr_of["num_actions"], attr_of["num_atoms"]})
    out.append("/-- (`self.num_actions`, `self.num_atoms`, `self.support`) as `__init__` assigns them from its arguments -/")
    out.append(f"def init_attrs {{S : Type}} ({fm(ctor3)} : Nat) ({attr_of['support']} : S) : Nat × Nat × S :=\n"
               f"  ({attr_of['num_actions']}, {attr_of['num_atoms']}, {attr_of['support']})\n")
    for key, name in (("softmax", "softmax_arg"), ("log_softmax", "log_softmax_arg")):
        args = ex.softmax_args.get(key, [])
        if len(set(args)) != 1:
            fail(fwd, f"`{key}` is applied {len(set(args))} different arguments on the paths of forward (expected one)")
        out.append(f"/-- the `(num_actions, num_atoms)` logits `forward` hands to `{key}` (rows: actions) -/")
        out.append(f"def {name} {sig} : List (List α) :=\n  {args[0]}\n")
    out.append(f"/-- `{HEAD_CLASS}.forward(x, {', '.join(flags)})`, one batch row, given the outputs of the sub-networks -/")
    out.append(f"def forward {sig} {flag_params} : Out α :=\n  {body}\n")

    # ---- the network
    CUR[0] = REL_NET
    ntree = ast.parse(src_net)
    ncls = find_class(ntree, NET_CLASS)
    ninit = find_method(ncls, "__init__")
    nparams = formals(ninit)[1:]
    nattr = {}
    for s in walk_stmts(ninit):
        if isinstance(s, ast.Assign) and len(s.targets) == 1 and is_self_attr(s.targets[0]) and \
                isinstance(s.value, ast.Name) and s.value.id in nparams:
            nattr[s.targets[0].attr] = s.value.id
    for need in ("num_atoms", "support"):
        if need not in nattr:
            fail(ninit, f"`self.{need} = <constructor argument>` not found in {NET_CLASS}.__init__")
    out.append(f"/-- (`self.num_atoms`, `self.support`) as `{NET_CLASS}.__init__` assigns them from its arguments -/")
    out.append(f"def net_init_attrs {{S : Type}} ({nattr['num_atoms']} : Nat) ({nattr['support']} : S) : Nat × S :=\n"
               f"  ({nattr['num_atoms']}, {nattr['support']})\n")
    head_attr = None
    for mname, dname in (("build_network_head", "net_head_args_build"), ("recreate_network", "net_head_args_recreate")):
        m = find_method(ncls, mname)
        calls = find_calls(m, HEAD_CLASS)
        if len(calls) != 1:
            fail(m, f"exactly one {HEAD_CLASS}(…) in {mname}")
        c = calls[0]
        if c.args:
            fail(c, "positional arguments of the head constructor")
        vals = {}
        for ctor_arg in (attr_of["num_actions"], attr_of["num_atoms"], attr_of["support"]):
            v = kw(c, ctor_arg)
            if v is None:
                fail(c, f"keyword `{ctor_arg}=` of the head constructor")
            if not (is_self_attr(v) and v.attr in ("num_actions", "num_atoms", "support")):
                fail(v, f"`{ctor_arg}={ast.unparse(v)}` (expected an attribute num_actions / num_atoms / support)")
            if (v.attr == "support") != (ctor_arg == attr_of["support"]):
                fail(v, f"`{ctor_arg}={ast.unparse(v)}` mixes the support with an integer")
            vals[ctor_arg] = "self_" + v.attr
        if mname == "build_network_head":
            for s in walk_stmts(m):
                if isinstance(s, ast.Assign) and s.value is c and len(s.targets) == 1 and is_self_attr(s.targets[0]):
                    head_attr = s.targets[0].attr
        out.append(f"/-- the head constructor's ({', '.join(ctor3)}, {attr_of['support']}) in `{NET_CLASS}.{mname}` -/")
        out.append(f"def {dname} {{S : Type}} (self_num_actions self_num_atoms : Nat) (self_support : S) : Nat × Nat × S :=\n"
                   f"  ({', '.join(vals[a] for a in ctor3)}, {vals[attr_of['support']]})\n")
    if head_attr is None:
        fail(ncls, "build_network_head does not assign the head to an attribute")
    nf = find_method(ncls, "forward")
    nfp = formals(nf)[1:]
    nflags = nfp[1:]
    if len(nf.args.defaults) != len(nflags) or not all(
            isinstance(d, ast.Constant) and isinstance(d.value, bool) for d in nf.args.defaults):
        fail(nf, "flags of the network's forward need boolean defaults")
    nenv = {nfp[0]: ("obs", "obs")}
    for p in nflags:
        nenv[p] = ("flag", p)
    ret = None
    for s in walk_stmts(nf):
        if isinstance(s, ast.Assign) and len(s.targets) == 1 and isinstance(s.targets[0], ast.Name):
            v = s.value
            if isinstance(v, ast.Call) and is_self_attr(v.func, "extract_features") and len(v.args) == 1 and \
                    not v.keywords and isinstance(v.args[0], ast.Name) and nenv.get(v.args[0].id, ("",))[0] == "obs":
                nenv[s.targets[0].id] = ("latent", f"(extract_features {nenv[v.args[0].id][1]})")
                continue
            fail(s, f"`{ast.unparse(s)}`")
        if isinstance(s, ast.Return):
            ret = s.value
            break
        fail(s, type(s).__name__)
    if not (isinstance(ret, ast.Call) and is_self_attr(ret.func, head_attr)):
        fail(nf, f"forward does not return self.{head_attr}(…)")
    if len(ret.args) != 1 or not isinstance(ret.args[0], ast.Name) or nenv.get(ret.args[0].id, ("",))[0] != "latent":
        fail(ret, "the head is not applied to the extracted features")
    latent = nenv[ret.args[0].id][1]

    def flag_expr(n):
        if isinstance(n, ast.Constant) and isinstance(n.value, bool):
            return "true" if n.value else "false"
        if isinstance(n, ast.Name) and nenv.get(n.id, ("",))[0] == "flag":
            return n.id
        if isinstance(n, ast.UnaryOp) and isinstance(n.op, ast.Not):
            return f"(!{flag_expr(n.operand)})"
        fail(n, f"flag expression `{ast.unparse(n)}`")
    passed = dict(defaults)
    for k in ret.keywords:
        if k.arg not in flags:
            fail(ret, f"keyword `{k.arg}` of the head's forward")
        passed[k.arg] = flag_expr(k.value)
    assumed.add("`self.extract_features(obs)` is an opaque function; the head's sub-networks are opaque functions of the latent")
    net_fn_params = " ".join(f"(head_{n} : Latent → List α)" for n in nets)
    out.append(f"/-- `{NET_CLASS}.forward(obs, {', '.join(nflags)})`, one batch row: the head (constructed by "
               f"`build_network_head`) applied to the extracted features -/")
    call_nets = " ".join(f"(head_{n} {latent})" for n in nets)
    out.append(
        f"def net_forward {{Obs Latent : Type}} (P : Prims α) (self_num_actions self_num_atoms : Nat) (self_support : List α) "
        f"(extract_features : Obs → Latent) {net_fn_params} (obs : Obs) {' '.join(f'({p} : Bool)' for p in nflags)} : Out α :=\n"
        f"  let c := net_head_args_build self_num_actions self_num_atoms self_support\n"
        f"  let h := init_attrs c.1 c.2.1 c.2.2\n"
        f"  forward P h.1 h.2.1 h.2.2 {call_nets} {' '.join(passed[p] for p in flags)}\n")
    assumed.add("`self.model(x)` / `self.<advantage net>(x)` are inputs of the widths `__init__` gives the sub-networks")
    assumed.add("`self.support` has shape (num_atoms,); device / dtype do not change values")
    assumed.add("attributes keep the value `__init__` assigns them; `preserve_parameters` keeps the new module's constructor arguments")
    return out, sorted(assumed)


def repo_dir(arg: str | None) -> Path:
    if arg:
        return Path(arg)
    return Path(os.environ.get("VERIF_REPO", "/repo"))


def translate(repo: Path) -> tuple[str, str]:
    """returns (lean text, sha256 of the two source files); raises Unsupported"""
    raws = []
    for rel in REL_SOURCES:
        p = Path(repo) / rel
        try:
            raws.append(p.read_bytes())
        except OSError as e:
            raise Unsupported(f"cannot read {p}: {e}") from e
    sha = hashlib.sha256(b"\0".join(raws)).hexdigest()
    try:
        defs, assumed = translate_sources(raws[0].decode("utf-8"), raws[1].decode("utf-8"))
    except SyntaxError as e:
        raise Unsupported(f"{CUR[0]}:{e.lineno}: not parseable: {e.msg}") from e
    except RecursionError as e:
        raise Unsupported(f"{CUR[0]}: expression too deep") from e
    header = "\n".join([
        "/-",
        "  Gen/DuelingGen.lean — GENERATED by harness/py2lean_dueling.py by symbolic execution (one batch row, shape",
        f"  inference) of `{HEAD_CLASS}.{{__init__, forward, recreate_network}}` ({REL_SOURCE}) and of",
        f"  `{NET_CLASS}.{{__init__, build_network_head, forward, recreate_network}}` ({REL_NET}); do not edit.",
        "  Core Lean only.  `exp` / `log` / literals are the fields of `Prims`.  `Proofs/DuelingGenEq.lean` proves the",
        "  definitions equal to `Duel.combine` / `Duel.forward` of `Model/C51.lean`.",
        "  Assumed (inputs / identities met in the source):",
    ] + [f"    * {a}" for a in assumed] + [
        "-/",
        SHA_PREFIX + sha,
        "set_option linter.unusedVariables false",
    ])
    text = header + "\n" + PRELUDE + "\n" + "\n".join(defs) + "\nend DuelingGen\n"
    return text, sha


def strip_sha(text: str) -> str:
    return "\n".join(ln for ln in text.split("\n") if not ln.startswith(SHA_PREFIX))


def write_if_changed(text: str, out: Path, force: bool = False) -> bool:
    """writes `text` unless the file already holds the same translation (sha line ignored)"""
    out = Path(out)
    old = out.read_text() if out.exists() else None
    if old is not None and not force and strip_sha(old) == strip_sha(text):
        return False
    if old == text:
        return False
    out.parent.mkdir(parents=True, exist_ok=True)
    tmp = out.with_suffix(".lean.tmp")
    tmp.write_text(text)
    os.replace(tmp, out)
    return True


def main(argv: list[str]) -> int:
    import argparse
    ap = argparse.ArgumentParser()
    ap.add_argument("--repo", default=None)
    ap.add_argument("--out", default=str(DEFAULT_OUT))
    ap.add_argument("--stdout", action="store_true")
    ap.add_argument("--force", action="store_true", help="rewrite even if only the sha256 line differs")
    a = ap.parse_args(argv)
    try:
        text, sha = translate(repo_dir(a.repo))
    except Unsupported as e:
        print(f"py2lean_dueling: {e}", file=sys.stderr)
        return 1
    if a.stdout:
        sys.stdout.write(text)
        return 0
    changed = write_if_changed(text, Path(a.out), a.force)
    print(f"{a.out}: {'written' if changed else 'unchanged'} (source sha256 {sha[:16]}…, "
          f"translation sha256 {hashlib.sha256(strip_sha(text).encode()).hexdigest()[:16]}…)")
    return 0


if __name__ == "__main__":
    sys.exit(main(sys.argv[1:]))
