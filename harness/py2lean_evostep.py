#!/usr/bin/env python3
"""
py2lean_evostep.py — translate the evolution step of the training loops into Lean 4:

  * `tournament_selection_and_mutation` of REPO/agilerl/utils/utils.py (the whole function: both accelerator
    paths, which population object flows where, `save_elite` / `elite_path`, what is returned), and
  * the population-level skeleton of `Mutations.mutation(self, population, pre_training_mut=False)` of
    REPO/agilerl/hpo/mutation.py (option list, draw, `mutate_elite`, the per-individual loop, the order of the
    returned list).

    python3 harness/py2lean_evostep.py [--repo DIR] [--out FILE] [--stdout] [--force]

Reads the *source text* only (Python `ast`; agilerl is never imported) and writes lean/Gen/EvoStepGen.lean
(namespace EvoStepGen, core Lean only, imports nothing).  `Proofs/EvoStepGenEq.lean` proves the generated
definitions equal to the hand-written `Loop.Evo.evoStep` / `Loop.Evo.mutation` of `Model/Loop.lean`, and
`Props/C20.lean` states the C20 theorems over the generated definitions (`C20_source_translation_evostep_*`).
The functions are located by name (module-level `def tournament_selection_and_mutation`; `def mutation` inside
`class Mutations`), not by line.

Supported subset (anything else raises `Unsupported` naming the construct and its line):
  * parameters, typed by their annotation: `PopulationType` → `List Agent`; `str` → `String`; `Optional[str]` →
    `Option String`; `bool` / `Optional[bool]` → `Bool`; `Optional[Accelerator]` → `Option Accelerator` (the
    generated `structure Accelerator` has the one field read: `is_main_process`); `TournamentSelection` — an object
    of which only `tournament.select(population)` may be used, the explicit parameter
    `tournament_select : List Agent → Option (Agent × List Agent)`; `Mutations` — only
    `mutation.mutation(population)`, the explicit parameter `mutation_mutation : List Agent → Option (List Agent)`
    (`none` = the call raises).  `self` of `Mutations.mutation`: the attributes read in the translated slice
    become the fields of the generated `structure Mutations` (`mut_options`, `pretraining_mut_options` :
    `List Meth`; `mut_proba`, `pretraining_mut_proba` : `List Rat`; `mutate_elite : Bool`; `no_mutation : Meth`).
  * statements: docstring; `x = e`; `x: T = e`; `x, y = call` for a pair-valued call; `xs[i] = e` (→ prelude
    `pySetItem`, Python index semantics, `none` = IndexError); `xs.append(e)`; `return e` as the last statement;
    `if / else` whose test is a Bool expression or `x is None` / `x is not None` for an `Option`-typed `x` (→ a
    `match` that narrows `x` in the branch where it is not None); the names assigned in a branch are joined
    (`match (if c then …; some tuple else …; some tuple) with | none => none | some j => …`); a name that is bound
    on one path only is *possibly unbound* afterwards: it is carried as an `Option`, and reading it is `none`
    (UnboundLocalError) on the path where it was not assigned;
    `for m in population: m.f()` / `for i, m in enumerate(population): m.f(e)` with a one-statement body:
    an in-place method of the agent (`unwrap_models`, `wrap_models`, `load_checkpoint(path)`) rebinds
    `population` to `population.map / mapIdx (fun … => ops.f m …)` (same objects, changed in place), an event
    method (`save_checkpoint(path)`) appends one `Ev.save m path` per member to the event list;
    `for mutation, individual in zip(choices, population): body` (the per-individual loop of `Mutations.mutation`)
    → `(List.zip choices population).foldl`, body SLICED: `individual = mutation(individual)` → `ops.call`,
    `acc.append(individual)` → append, `individual: T = individual` → nothing; every other statement is first
    checked not to bind / delete any sliced name (`individual`, the loop variables, the accumulator, `population`,
    the choice list) and not to contain `return / break / continue / raise / try / yield`; if it calls a method of
    `individual` or `setattr(individual, …)` it is part of the opaque per-individual tail `ops.post individual`
    (recompile, re-initialisation of the shared networks, `mutation_hook` — property C02, harness/py2lean_mutwire.py),
    emitted once at the position of the first such statement of a run of such statements; otherwise dropped.
  * dropped statements (cannot write a translated name; listed in the generated header): calls of
    `accelerator.wait_for_everyone()`, `print(…)`, `os.makedirs(…)`, and an `if` all of whose branches are dropped
    and whose test only reads (`os.path.exists(…)`, names, attributes, `not`).
  * expressions: names, string / int constants, `True / False / None`, f-strings (→ `++`; a `Nat` is formatted
    with `toString`), `a if c else b`, `not e`, `e is None`, `e is not None`, `a and b` / `a or b` on raise-free Bool
    operands (→ `&&` / `||`; `x is not None and B` / `x is None or B` → a `match` on `x` that evaluates `B` with `x`
    narrowed, as Python's short circuit does), `len(xs)`, `xs[0]` (→ `pyIndex`,
    `none` = IndexError), `x.__class__.__name__` (→ `ops.class_name x`), `accelerator.is_main_process`,
    `s.split(sep)[0]` (→ prelude `pySplitHead`), `self.<attr>`, `tournament.select(p)`, `mutation.mutation(p)`,
    `elite.save_checkpoint(path)` (event), `save_llm_checkpoint(elite, path)` (event `Ev.save_llm`).

External / runtime calls (assumptions):
  * `self.rng.choice(options, n, p=proba)` — the explicit parameter `choice0 : List Meth`, guarded by the prelude's
    `isChoice options n proba choice0` (`n` entries, each an option with a positive probability; one probability
    per option); anything else is not a result of that call: `none`.
  * `save_checkpoint` does not change the agent; `unwrap_models` / `wrap_models` / `load_checkpoint` change it in
    place (`ops.* : Agent → … → Agent`); what they do to the modelled fields is a hypothesis of the theorems.
  * `mutation(individual)` returns the individual it was given, changed in place (`ops.call : Meth → Agent → Agent`).
  * barriers (`wait_for_everyone`) and the file system (`os.makedirs`) are outside the model.

Shape of the output: prelude (`pyIndex`, `pySetItem`, `pySplitHead`, `isChoice`, `Ev`, `AgentOps`, `Accelerator`),
`structure Mutations`, `Mutations.mutation`, `tournament_selection_and_mutation`; every function returns
`Option …`, `none` = an exception.  `tournament_selection_and_mutation` returns `(population, events)`.
Locals are renamed `v<k>` in order of binding, `r<k>` = result of a call that can raise, `j<k>` = join of an `if`,
`x<k>` = loop variables: renaming a local does not change the text.
"""
from __future__ import annotations

import ast
import hashlib
import json
import os
import sys
from pathlib import Path

HERE = Path(__file__).resolve().parent
DEFAULT_OUT = HERE.parent / "lean" / "Gen" / "EvoStepGen.lean"
REL_UTILS = "agilerl/utils/utils.py"
REL_MUT = "agilerl/hpo/mutation.py"
REL_SOURCE = "agilerl/utils/utils.py + agilerl/hpo/mutation.py"
SHA_PREFIX = "-- sha256(source) = "

SELF_ATTRS = {
    "mut_options": "meths", "pretraining_mut_options": "meths",
    "mut_proba": "proba", "pretraining_mut_proba": "proba",
    "mutate_elite": "bool", "no_mutation": "meth",
}
INPLACE = {"unwrap_models": 0, "wrap_models": 0, "load_checkpoint": 1}      # method -> number of arguments
EVENT_METHODS = {"save_checkpoint": 1}
DROP_CALLS = {("accelerator", "wait_for_everyone"), ("print",), ("os", "makedirs")}
PURE_CALLS = {("os", "path", "exists")}


class Unsupported(Exception):
    pass


_file = [REL_SOURCE]


def fail(node, what: str):
    raise Unsupported(f"{_file[0]}:{getattr(node, 'lineno', '?')}: {what}")


def lean_ty(t) -> str:
    if isinstance(t, tuple):
        if t[0] == "opt":
            return "Option " + lean_ty_atom(t[1])
        if t[0] == "pair":
            return lean_ty_atom(t[1]) + " × " + lean_ty_atom(t[2])
    return {"agents": "List Agent", "agent": "Agent", "str": "String", "bool": "Bool", "nat": "Nat",
            "accel": "Accelerator", "meths": "List Meth", "meth": "Meth", "proba": "List Rat",
            "evs": "List (Ev Agent)", "unit": "Unit"}[t]


def lean_ty_atom(t) -> str:
    s = lean_ty(t)
    return f"({s})" if " " in s else s


def ind(lines, n=2):
    return [" " * n + ln for ln in lines]


def dotted(n):
    """a.b.c -> ('a','b','c') or None"""
    parts = []
    while isinstance(n, ast.Attribute):
        parts.append(n.attr)
        n = n.value
    if isinstance(n, ast.Name):
        parts.append(n.id)
        return tuple(reversed(parts))
    return None


def const_int(n):
    """an integer literal, possibly negated -> its value, else None"""
    if isinstance(n, ast.Constant) and isinstance(n.value, int) and not isinstance(n.value, bool):
        return n.value
    if isinstance(n, ast.UnaryOp) and isinstance(n.op, ast.USub) and isinstance(n.operand, ast.Constant) \
            and isinstance(n.operand.value, int) and not isinstance(n.operand.value, bool):
        return -n.operand.value
    return None


def is_docstring(st) -> bool:
    return isinstance(st, ast.Expr) and isinstance(st.value, ast.Constant) and isinstance(st.value.value, str)


class Var:
    def __init__(self, lean, ty, maybe=False):
        self.lean, self.ty, self.maybe = lean, ty, maybe


PRELUDE = '''\
/-- Python `l[i]` for any integer `i`; `none` = IndexError -/
def pyIndex {α : Type} (l : List α) (i : Int) : Option α :=
  if 0 ≤ i then l[i.toNat]?
  else if -i ≤ (l.length : Int) then l[((l.length : Int) + i).toNat]?
  else none

/-- Python / numpy `l[i] = v` for any integer `i`; `none` = IndexError -/
def pySetItem {α : Type} (l : List α) (i : Int) (v : α) : Option (List α) :=
  if 0 ≤ i then (if i.toNat < l.length then some (l.set i.toNat v) else none)
  else if -i ≤ (l.length : Int) then some (l.set ((l.length : Int) + i).toNat v)
  else none

/-- `s.split(sep)[0]` -/
def pySplitHead (s sep : String) : String := (s.splitOn sep).headD s

/-- `d` is a possible result of `rng.choice(opts, n, p=p)`: `n` entries, each one of the options and one that has
    a positive probability; one probability per option -/
def isChoice {Meth : Type} [BEq Meth] (opts : List Meth) (n : Nat) (p : List Rat) (d : List Meth) : Bool :=
  decide (d.length = n) && decide (opts.length = p.length) &&
  d.all (fun m => (List.zip opts p).any (fun op => op.1 == m && decide (0 < op.2)))

/-- files written, in order: `save` = `agent.save_checkpoint(path)`, `save_llm` = `save_llm_checkpoint(agent, path)` -/
inductive Ev (Agent : Type) where
  | save (a : Agent) (path : String)
  | save_llm (a : Agent) (path : Option String)

/-- what the evolution step uses of an agent (`EvolvableAlgorithm`) and of a mutation method: the class name, the
    in-place methods `unwrap_models()`, `wrap_models()`, `load_checkpoint(path)` (the agent after the call),
    `call m a` = `m(a)` for a bound mutation method `m`, `post` = the per-individual tail of `Mutations.mutation`
    (recompile, shared networks rebuilt from the mutated evaluation networks, `mutation_hook()`) -/
structure AgentOps (Agent Meth : Type) where
  class_name : Agent → String
  unwrap_models : Agent → Agent
  wrap_models : Agent → Agent
  load_checkpoint : Agent → String → Agent
  call : Meth → Agent → Agent
  post : Agent → Agent

/-- what is read of an `accelerate.Accelerator` -/
structure Accelerator where
  is_main_process : Bool
deriving Repr, DecidableEq
'''


class FnTr:
    """translator of one function body (continuation-passing: every statement receives the rest)"""

    def __init__(self, fn: ast.FunctionDef, kind: str):
        self.fn, self.kind = fn, kind
        self.nv = self.nr = self.nj = self.nx = 0
        self.fields: list[tuple[str, str]] = []     # self attributes read (Mutations.mutation)
        self.choices: list[str] = []
        self.dropped: list[str] = []

    # ------------------------------------------------------------------ names
    def fresh(self, k):
        n = getattr(self, "n" + k)
        setattr(self, "n" + k, n + 1)
        return f"{k}{n}"

    def bind(self, env, name, ty, maybe=False):
        v = Var(self.fresh("v"), ty, maybe)
        env = dict(env)
        env[name] = v
        return env, v

    # ------------------------------------------------------------------ expressions
    def read(self, node, name, env, k):
        """read a local; a possibly-unbound one is `none` (UnboundLocalError) where it was not assigned"""
        if name not in env:
            fail(node, f"name `{name}` is not a translated local or parameter")
        v = env[name]
        if not v.maybe:
            return k(v.lean, v.ty, env)
        env2, v2 = self.bind(env, name, v.ty)
        return [f"match {v.lean} with", "| none => none", f"| some {v2.lean} =>"] + ind(k(v2.lean, v2.ty, env2))

    def expr(self, e, env, k):
        """k(text, type, env) -> lines; text is an atom or parenthesised"""
        if isinstance(e, ast.Constant):
            if isinstance(e.value, bool):
                return k("true" if e.value else "false", "bool", env)
            if isinstance(e.value, str):
                return k(json.dumps(e.value, ensure_ascii=True), "str", env)
            if isinstance(e.value, int):
                return k(str(e.value), "int", env)
            if e.value is None:
                return k("none", "none", env)
            fail(e, f"constant {e.value!r}")
        if isinstance(e, ast.Name):
            return self.read(e, e.id, env, k)
        if isinstance(e, ast.JoinedStr):
            return self.fstring(e, list(e.values), [], env, k)
        if isinstance(e, ast.IfExp):
            return self.ifexp(e, env, k)
        if isinstance(e, ast.UnaryOp) and isinstance(e.op, ast.Not):
            def k1(t, ty, env1):
                if ty != "bool":
                    fail(e, f"`not` of a {ty}")
                return k(f"(!{t})", "bool", env1)
            return self.expr(e.operand, env, k1)
        if isinstance(e, ast.BoolOp):
            return self.boolop(e, list(e.values), isinstance(e.op, ast.And), env, k)
        if isinstance(e, ast.Compare) and len(e.ops) == 1 and isinstance(e.ops[0], (ast.Is, ast.IsNot)) \
                and isinstance(e.comparators[0], ast.Constant) and e.comparators[0].value is None:
            def k1(t, ty, env1):
                if not (isinstance(ty, tuple) and ty[0] == "opt"):
                    fail(e, f"`is None` test of a value of type {ty} that is never None")
                return k(f"{t}.isNone" if isinstance(e.ops[0], ast.Is) else f"{t}.isSome", "bool", env1)
            return self.expr(e.left, env, k1)
        if isinstance(e, ast.Attribute):
            d = dotted(e)
            if d and d[0] == "self" and len(d) == 2 and self.kind == "method":
                if d[1] not in SELF_ATTRS:
                    fail(e, f"attribute `self.{d[1]}` is outside the translated slice")
                if (d[1], SELF_ATTRS[d[1]]) not in self.fields:
                    self.fields.append((d[1], SELF_ATTRS[d[1]]))
                return k(f"self.{d[1]}", SELF_ATTRS[d[1]], env)
            if e.attr == "__name__" and isinstance(e.value, ast.Attribute) and e.value.attr == "__class__":
                def k1(t, ty, env1):
                    if ty != "agent":
                        fail(e, f"`__class__.__name__` of a {ty}")
                    return k(f"(ops.class_name {t})", "str", env1)
                return self.expr(e.value.value, env, k1)
            if e.attr == "is_main_process":
                def k1(t, ty, env1):
                    if ty != "accel":
                        fail(e, f"`.is_main_process` of a {ty} (an accelerator that may be None?)")
                    return k(f"{t}.is_main_process", "bool", env1)
                return self.expr(e.value, env, k1)
            fail(e, f"attribute `.{e.attr}`")
        if isinstance(e, ast.Subscript):
            idxv = const_int(e.slice)
            if idxv is None:
                fail(e, "subscript with a non-constant index")
            # s.split(sep)[0]
            if isinstance(e.value, ast.Call) and isinstance(e.value.func, ast.Attribute) and e.value.func.attr == "split":
                c = e.value
                if idxv != 0 or len(c.args) != 1 or c.keywords:
                    fail(e, "only `s.split(sep)[0]` is supported")

                def k1(t, ty, env1):
                    if ty != "str":
                        fail(e, f"`.split` of a {ty} (a string that may be None?)")

                    def k2(t2, ty2, env2):
                        if ty2 != "str":
                            fail(e, "separator is not a string")
                        return k(f"(pySplitHead {t} {t2})", "str", env2)
                    return self.expr(c.args[0], env1, k2)
                return self.expr(c.func.value, env, k1)

            def k1(t, ty, env1):
                if ty != "agents":
                    fail(e, f"subscript of a {ty}")
                r = self.fresh("r")
                return [f"match pyIndex {t} ({idxv}) with", "| none => none", f"| some {r} =>"] + \
                    ind(k(r, "agent", env1))
            return self.expr(e.value, env, k1)
        if isinstance(e, ast.Call):
            return self.call(e, env, k)
        fail(e, f"expression {type(e).__name__}")

    def fstring(self, node, parts, acc, env, k):
        if not parts:
            return k("(" + " ++ ".join(acc) + ")" if len(acc) != 1 else acc[0], "str", env) if acc else k('""', "str", env)
        p = parts[0]
        if isinstance(p, ast.Constant):
            return self.fstring(node, parts[1:], acc + [json.dumps(p.value, ensure_ascii=True)], env, k)
        if isinstance(p, ast.FormattedValue):
            if p.conversion != -1 or p.format_spec is not None:
                fail(node, "f-string conversion / format spec")

            def k1(t, ty, env1):
                if ty == "str":
                    return self.fstring(node, parts[1:], acc + [t], env1, k)
                if ty == "nat":
                    return self.fstring(node, parts[1:], acc + [f"toString {t}"], env1, k)
                fail(node, f"f-string field of type {ty}")
            return self.expr(p.value, env, k1)
        fail(node, "f-string part")

    def pure_bool(self, x, env):
        """a raise-free Bool operand -> its text"""
        out = {}

        def kk(t, ty, _env):
            out["t"], out["ty"] = t, ty
            return ["\x00"]
        if self.expr(x, env, kk) != ["\x00"]:
            fail(x, "an operand of `and` / `or` that can raise")
        if out["ty"] != "bool":
            fail(x, f"operand of `and` / `or` of type {out['ty']}")
        return out["t"]

    def boolop(self, node, vals, is_and, env, k):
        """`a and b and …` / `a or b or …`, short-circuit: `x is not None and B` / `x is None or B` evaluate `B` with `x`
        narrowed (→ `match x with | none => false / true | some v => B`), other operands → `&&` / `||`"""
        def go(vs, envg):
            if len(vs) == 1:
                return self.pure_bool(vs[0], envg)
            nt = self.narrow_test(vs[0], envg)
            if nt and nt[1] == is_and:
                name = nt[0]
                v = envg[name]
                env_some, v2 = self.bind(envg, name, v.ty[1])
                rest = go(vs[1:], env_some)
                return f"(match {v.lean} with | none => {'false' if is_and else 'true'} | some {v2.lean} => {rest})"
            a = self.pure_bool(vs[0], envg)
            rest = go(vs[1:], envg)
            return f"({a} {'&&' if is_and else '||'} {rest})"
        return k(go(vals, env), "bool", env)

    def narrow_test(self, test, env):
        """`x is None` / `x is not None` for an Option-typed local -> (name, positive?) else None"""
        if isinstance(test, ast.Compare) and len(test.ops) == 1 and isinstance(test.ops[0], (ast.Is, ast.IsNot)) \
                and isinstance(test.comparators[0], ast.Constant) and test.comparators[0].value is None \
                and isinstance(test.left, ast.Name) and test.left.id in env:
            v = env[test.left.id]
            if isinstance(v.ty, tuple) and v.ty[0] == "opt" and not v.maybe:
                return test.left.id, isinstance(test.ops[0], ast.IsNot)
        return None

    def ifexp(self, e, env, k):
        """`a if c else b`; both arms must be raise-free"""
        def arm(x, env1):
            out = {}

            def kk(t, ty, _env):
                out["t"], out["ty"] = t, ty
                return ["\x00"]
            lines = self.expr(x, env1, kk)
            if lines != ["\x00"]:
                fail(x, "an arm of a conditional expression that can raise")
            return out["t"], out["ty"]
        nt = self.narrow_test(e.test, env)
        if nt:
            name, pos = nt
            v = env[name]
            env_some, v2 = self.bind(env, name, v.ty[1])
            a_some, ty1 = arm(e.body if pos else e.orelse, env_some)
            a_none, ty2 = arm(e.orelse if pos else e.body, env)
            if ty1 != ty2:
                fail(e, f"arms of different types {ty1} / {ty2}")
            return k(f"(match {v.lean} with | some {v2.lean} => {a_some} | none => {a_none})", ty1, env)

        def k1(c, cty, env1):
            if cty != "bool":
                fail(e, f"condition of type {cty}")
            a, ty1 = arm(e.body, env1)
            b, ty2 = arm(e.orelse, env1)
            if ty1 != ty2:
                fail(e, f"arms of different types {ty1} / {ty2}")
            return k(f"(if {c} then {a} else {b})", ty1, env1)
        return self.expr(e.test, env, k1)

    def call(self, e, env, k):
        d = dotted(e.func)
        if d == ("len",) and len(e.args) == 1 and not e.keywords:
            def k1(t, ty, env1):
                if ty not in ("agents", "meths"):
                    fail(e, f"len of a {ty}")
                return k(f"{t}.length", "nat", env1)
            return self.expr(e.args[0], env, k1)
        if d and len(d) == 2 and d[0] in env and env[d[0]].ty == "tournament" and d[1] == "select":
            if len(e.args) != 1 or e.keywords:
                fail(e, "`tournament.select` takes the population")

            def k1(t, ty, env1):
                if ty != "agents":
                    fail(e, f"`select` of a {ty}")
                r = self.fresh("r")
                return [f"match tournament_select {t} with", "| none => none", f"| some {r} =>"] + \
                    ind(k(r, ("pair", "agent", "agents"), env1))
            return self.expr(e.args[0], env, k1)
        if d and len(d) == 2 and d[0] in env and env[d[0]].ty == "mutations" and d[1] == "mutation":
            if len(e.args) != 1 or e.keywords:
                fail(e, "`mutation.mutation` with anything but the population (pre_training_mut is its default, False)")

            def k1(t, ty, env1):
                if ty != "agents":
                    fail(e, f"`mutation` of a {ty}")
                r = self.fresh("r")
                return [f"match mutation_mutation {t} with", "| none => none", f"| some {r} =>"] + \
                    ind(k(r, "agents", env1))
            return self.expr(e.args[0], env, k1)
        if d == ("self", "rng", "choice") and self.kind == "method":
            kw = {x.arg: x.value for x in e.keywords}
            if len(e.args) != 2 or set(kw) != {"p"}:
                fail(e, "`self.rng.choice(options, size, p=proba)` expected")
            name = f"choice{len(self.choices)}"
            self.choices.append(name)

            def k1(o, oty, env1):
                def k2(n, nty, env2):
                    def k3(p, pty, env3):
                        if (oty, nty, pty) != ("meths", "nat", "proba"):
                            fail(e, f"`rng.choice` of ({oty}, {nty}, p={pty})")
                        return [f"if isChoice {o} {n} {p} {name} then"] + ind(k(name, "meths", env3)) + ["else none"]
                    return self.expr(kw["p"], env2, k3)
                return self.expr(e.args[1], env1, k2)
            return self.expr(e.args[0], env, k1)
        fail(e, f"call of `{'.'.join(d) if d else ast.unparse(e.func)}`")

    # ------------------------------------------------------------------ statements
    def assigned(self, stmts) -> list[str]:
        """names a statement list can bind (in order of first binding), `ev` for event statements"""
        out = []

        def add(n):
            if n not in out:
                out.append(n)
        for st in stmts:
            if isinstance(st, (ast.Assign, ast.AnnAssign)):
                tg = st.targets if isinstance(st, ast.Assign) else [st.target]
                for t in tg:
                    if isinstance(t, ast.Name):
                        add(t.id)
                    elif isinstance(t, ast.Tuple):
                        for x in t.elts:
                            if isinstance(x, ast.Name):
                                add(x.id)
                    elif isinstance(t, ast.Subscript) and isinstance(t.value, ast.Name):
                        add(t.value.id)
            elif isinstance(st, ast.If):
                for n in self.assigned(st.body) + self.assigned(st.orelse):
                    add(n)
            elif isinstance(st, ast.For):
                kindf = self.for_kind(st)
                if kindf and kindf[0] == "inplace":
                    add(kindf[1])
                elif kindf and kindf[0] == "event":
                    add("\x00ev")
                elif kindf and kindf[0] == "zip":
                    for n in self.assigned(st.body):
                        add(n)
            elif isinstance(st, ast.Expr) and isinstance(st.value, ast.Call):
                d = dotted(st.value.func)
                if d and len(d) == 2 and d[1] == "append":
                    add(d[0])
                elif d and (d[-1] in EVENT_METHODS or d == ("save_llm_checkpoint",)):
                    add("\x00ev")
        return out

    def droppable(self, st) -> bool:
        if is_docstring(st):
            return True
        if isinstance(st, ast.Expr) and isinstance(st.value, ast.Call):
            d = dotted(st.value.func)
            return d in DROP_CALLS
        if isinstance(st, ast.If):
            return self.pure_test(st.test) and all(self.droppable(s) for s in st.body + st.orelse)
        return False

    def pure_test(self, e) -> bool:
        if isinstance(e, (ast.Name, ast.Constant)):
            return True
        if isinstance(e, ast.Attribute):
            return self.pure_test(e.value)
        if isinstance(e, ast.UnaryOp) and isinstance(e.op, ast.Not):
            return self.pure_test(e.operand)
        if isinstance(e, ast.Compare):
            return self.pure_test(e.left) and all(self.pure_test(c) for c in e.comparators)
        if isinstance(e, ast.BoolOp):
            return all(self.pure_test(v) for v in e.values)
        if isinstance(e, ast.Call):
            return dotted(e.func) in PURE_CALLS and all(self.pure_test(a) for a in e.args) and not e.keywords
        return False

    def for_kind(self, st: ast.For):
        """classify a supported `for` (None = unsupported)"""
        if st.orelse:
            return None
        it, tg = st.iter, st.target
        if isinstance(it, ast.Call) and dotted(it.func) == ("zip",) and len(it.args) == 2 \
                and all(isinstance(a, ast.Name) for a in it.args) and isinstance(tg, ast.Tuple) and len(tg.elts) == 2 \
                and all(isinstance(x, ast.Name) for x in tg.elts):
            return ("zip", it.args[0].id, it.args[1].id, tg.elts[0].id, tg.elts[1].id)
        enum = False
        if isinstance(it, ast.Call) and dotted(it.func) == ("enumerate",) and len(it.args) == 1 and not it.keywords:
            it, enum = it.args[0], True
            if not (isinstance(tg, ast.Tuple) and len(tg.elts) == 2 and all(isinstance(x, ast.Name) for x in tg.elts)):
                return None
            ivar, mvar = tg.elts[0].id, tg.elts[1].id
        else:
            if not isinstance(tg, ast.Name):
                return None
            ivar, mvar = None, tg.id
        if not isinstance(it, ast.Name) or len(st.body) != 1:
            return None
        b = st.body[0]
        if not (isinstance(b, ast.Expr) and isinstance(b.value, ast.Call) and isinstance(b.value.func, ast.Attribute)
                and isinstance(b.value.func.value, ast.Name) and b.value.func.value.id == mvar and not b.value.keywords):
            return None
        meth = b.value.func.attr
        if meth in INPLACE and len(b.value.args) == INPLACE[meth]:
            return ("inplace", it.id, ivar, mvar, meth, b.value.args)
        if meth in EVENT_METHODS and len(b.value.args) == EVENT_METHODS[meth]:
            return ("event", it.id, ivar, mvar, meth, b.value.args)
        return None

    def stmts(self, sts, env, k):
        """k(env) -> lines for what follows"""
        if not sts:
            return k(env)
        st, rest = sts[0], sts[1:]
        cont = lambda env1: self.stmts(rest, env1, k)      # noqa: E731
        if self.droppable(st):
            if not is_docstring(st):
                self.dropped.append(f"{ast.unparse(st).splitlines()[0][:70]} (line {st.lineno})")
            return cont(env)
        if isinstance(st, ast.Return):
            if rest:
                fail(st, "`return` that is not the last statement")
            if st.value is None:
                fail(st, "bare `return`")
            return self.expr(st.value, env, lambda t, ty, env1: self.ret(st, t, ty, env1))
        if isinstance(st, (ast.Assign, ast.AnnAssign)):
            if isinstance(st, ast.Assign):
                if len(st.targets) != 1:
                    fail(st, "chained assignment")
                tgt = st.targets[0]
            else:
                tgt = st.target
                if st.value is None:
                    return cont(env)
            return self.assign(st, tgt, st.value, env, cont)
        if isinstance(st, ast.Expr) and isinstance(st.value, ast.Call):
            return self.call_stmt(st, st.value, env, cont)
        if isinstance(st, ast.If):
            return self.if_stmt(st, env, cont)
        if isinstance(st, ast.For):
            return self.for_stmt(st, env, cont)
        fail(st, f"statement {type(st).__name__}")

    def ret(self, st, t, ty, env):
        if self.kind == "function":
            if ty != "agents":
                fail(st, f"returns a {ty}")
            return [f"some ({t}, {env[chr(0) + 'ev'].lean})"]
        if ty != "agents":
            fail(st, f"returns a {ty}")
        return [f"some {t}"]

    def assign(self, st, tgt, value, env, cont):
        if isinstance(tgt, ast.Name):
            if isinstance(value, ast.Name) and value.id == tgt.id:
                return cont(env)                       # `x: T = x`
            if isinstance(value, ast.List) and not value.elts:
                ety = self.list_elem_type(st, tgt.id)
                env1, v = self.bind(env, tgt.id, ety)
                return [f"let {v.lean} : {lean_ty(ety)} := []"] + cont(env1)

            def k1(t, ty, env1):
                if ty in ("none", "int"):
                    fail(st, f"assignment of a bare {ty}")
                env2, v = self.bind(env1, tgt.id, ty)
                return [f"let {v.lean} : {lean_ty(ty)} := {t}"] + cont(env2)
            return self.expr(value, env, k1)
        if isinstance(tgt, ast.Tuple):
            if not all(isinstance(x, ast.Name) for x in tgt.elts) or len(tgt.elts) != 2:
                fail(st, "tuple target")

            def k1(t, ty, env1):
                if not (isinstance(ty, tuple) and ty[0] == "pair"):
                    fail(st, f"unpacking of a {ty}")
                env2, a = self.bind(env1, tgt.elts[0].id, ty[1])
                env3, b = self.bind(env2, tgt.elts[1].id, ty[2])
                return [f"let {a.lean} : {lean_ty(ty[1])} := {t}.1", f"let {b.lean} : {lean_ty(ty[2])} := {t}.2"] + cont(env3)
            return self.expr(value, env, k1)
        if isinstance(tgt, ast.Subscript) and isinstance(tgt.value, ast.Name):
            idxv = const_int(tgt.slice)
            if idxv is None:
                fail(st, "item assignment with a non-constant index")
            name = tgt.value.id

            def k0(l, lty, env0):
                def k1(t, ty, env1):
                    if (lty, ty) != ("meths", "meth"):
                        fail(st, f"item assignment {lty}[i] = {ty}")
                    r = self.fresh("r")
                    env2, v = self.bind(env1, name, lty)
                    return [f"match pySetItem {l} ({idxv}) {t} with", "| none => none", f"| some {r} =>"] + \
                        ind([f"let {v.lean} : {lean_ty(lty)} := {r}"] + cont(env2))
                return self.expr(value, env0, k1)
            return self.read(st, name, env, k0)
        fail(st, "assignment target")

    def list_elem_type(self, st, name):
        for n in ast.walk(self.fn):
            if isinstance(n, ast.For):
                fk = self.for_kind(n)
                if fk and fk[0] == "zip":
                    for b in ast.walk(n):
                        if isinstance(b, ast.Call) and dotted(b.func) == (name, "append") and len(b.args) == 1 \
                                and isinstance(b.args[0], ast.Name) and b.args[0].id == fk[4]:
                            return "agents"
        fail(st, f"cannot determine the element type of `{name} = []`")

    def event(self, env, text):
        evn = chr(0) + "ev"
        env1, v = self.bind(env, evn, "evs")
        return env1, [f"let {v.lean} : List (Ev Agent) := {env[evn].lean} ++ {text}"]

    def call_stmt(self, st, c, env, cont):
        d = dotted(c.func)
        if d and len(d) == 2 and d[1] == "append" and d[0] in env and len(c.args) == 1 and not c.keywords:
            def k0(l, lty, env0):
                def k1(t, ty, env1):
                    if (lty, ty) != ("agents", "agent"):
                        fail(st, f"append of a {ty} to a {lty}")
                    env2, v = self.bind(env1, d[0], lty)
                    return [f"let {v.lean} : {lean_ty(lty)} := {l} ++ [{t}]"] + cont(env2)
                return self.expr(c.args[0], env0, k1)
            return self.read(st, d[0], env, k0)
        if d and len(d) == 2 and d[1] in EVENT_METHODS and len(c.args) == 1 and not c.keywords:
            def k0(a, aty, env0):
                def k1(t, ty, env1):
                    if (aty, ty) != ("agent", "str"):
                        fail(st, f"`{d[1]}` of a {aty} with a {ty}")
                    env2, lines = self.event(env1, f"[Ev.save {a} {t}]")
                    return lines + cont(env2)
                return self.expr(c.args[0], env0, k1)
            return self.read(st, d[0], env, k0)
        if d == ("save_llm_checkpoint",) and len(c.args) == 2 and not c.keywords:
            def k0(a, aty, env0):
                def k1(t, ty, env1):
                    if aty != "agent" or ty != ("opt", "str"):
                        fail(st, f"`save_llm_checkpoint` of ({aty}, {ty})")
                    env2, lines = self.event(env1, f"[Ev.save_llm {a} {t}]")
                    return lines + cont(env2)
                return self.expr(c.args[1], env0, k1)
            return self.expr(c.args[0], env, k0)
        fail(st, f"call statement `{ast.unparse(c)[:60]}`")

    def branch(self, body, env, names):
        """lines of one branch ending in `some (tuple of names)`; returns (lines, [state per name])"""
        res = {}

        def kend(env1):
            res["env"] = env1
            return ["\x01"]
        lines = self.stmts(body, env, kend)
        if sum(1 for ln in lines if ln.strip() == "\x01") != 1:
            fail(body[0] if body else self.fn, "branch does not fall through exactly once")
        return lines, res["env"]

    def if_stmt(self, st, env, cont):
        names = [n for n in self.assigned(st.body) + self.assigned(st.orelse)]
        names = list(dict.fromkeys(names))
        nt = self.narrow_test(st.test, env)
        if nt and nt[0] in names:
            pass
        # translate both branches
        if nt:
            name, pos = nt
            v = env[name]
            env_some, v2 = self.bind(env, name, v.ty[1])
            b_some, b_none = (st.body, st.orelse) if pos else (st.orelse, st.body)
            l_some, e_some = self.branch(b_some, env_some, names)
            l_none, e_none = self.branch(b_none, env, names)
            if name not in names:
                e_some = dict(e_some)
                e_some[name] = env[name]           # the narrowing ends with the branch
            arms = [(f"| some {v2.lean} =>", l_some, e_some), ("| none =>", l_none, e_none)]
            head = [f"match {v.lean} with"]
        else:
            out = {}

            def kc(c, cty, envc):
                if cty != "bool":
                    fail(st, f"condition of type {cty}")
                out["c"], out["env"] = c, envc
                return ["\x00"]
            if self.expr(st.test, env, kc) != ["\x00"]:
                fail(st, "a condition that can raise")
            l_t, e_t = self.branch(st.body, env, names)
            l_f, e_f = self.branch(st.orelse, env, names)
            arms = [(f"if {out['c']} then", l_t, e_t), ("else", l_f, e_f)]
            head = []
        # joined variables: type and definiteness
        joined = []
        for n in names:
            tys, maybe = [], False
            for _, _, e in arms:
                if n in e:
                    tys.append(e[n].ty)
                    maybe = maybe or e[n].maybe
                else:
                    maybe = True
            tys = list(dict.fromkeys(tys))
            if len(tys) != 1:
                fail(st, f"`{n}` has different types after the branches: {tys}")
            joined.append((n, tys[0], maybe))

        def tup(e):
            items = []
            for n, ty, maybe in joined:
                if n not in e:
                    items.append("none")
                elif e[n].maybe or not maybe:
                    items.append(e[n].lean)
                else:
                    items.append(f"some {e[n].lean}")
            if not items:
                return "some ()"
            return "some " + ("(" + ", ".join(items) + ")" if len(items) > 1 else
                              (f"({items[0]})" if " " in items[0] else items[0]))
        inner = list(head)
        for hd, lines, e in arms:
            body = []
            for ln in lines:
                if ln.strip() == "\x01":
                    body.append(ln.replace("\x01", tup(e)))
                else:
                    body.append(ln)
            inner += [hd] + ind(body)
        j = self.fresh("j")
        env1 = dict(env)
        lets = []
        for i, (n, ty, maybe) in enumerate(joined):
            v = Var(self.fresh("v"), ty, maybe)
            env1[n] = v
            if len(joined) == 1:
                p = j
            elif i < len(joined) - 1:
                p = f"{j}" + ".2" * i + ".1"
            else:
                p = f"{j}" + ".2" * i
            lets.append(f"let {v.lean} : {lean_ty(('opt', ty) if maybe else ty)} := {p}")
        return ["match ("] + ind(inner, 4) + ["  ) with", "| none => none", f"| some {j} =>"] + ind(lets + cont(env1))

    def for_stmt(self, st, env, cont):
        fk = self.for_kind(st)
        if fk is None:
            fail(st, "`for` loop outside the supported forms")
        if fk[0] in ("inplace", "event"):
            _, lst, ivar, mvar, meth, args = fk

            def k0(l, lty, env0):
                if lty != "agents":
                    fail(st, f"loop over a {lty}")
                # possibly-unbound names read in the body are checked before the loop
                free = [n.id for a in args for n in ast.walk(a) if isinstance(n, ast.Name)]

                def unwrap(names, envu):
                    if not names:
                        return body(envu)
                    n = names[0]
                    if n in envu and envu[n].maybe:
                        return self.read(st, n, envu, lambda _t, _ty, e2: unwrap(names[1:], e2))
                    return unwrap(names[1:], envu)

                def body(envb):
                    xi, xm = self.fresh("x"), self.fresh("x")
                    envl = dict(envb)
                    envl[mvar] = Var(xm, "agent")
                    if ivar:
                        envl[ivar] = Var(xi, "nat")
                    out = {}

                    def collect(argsl, acc, enva):
                        if not argsl:
                            out["args"] = acc
                            return ["\x00"]
                        return self.expr(argsl[0], enva, lambda t, ty, e2: (
                            collect(argsl[1:], acc + [(t, ty)], e2)))
                    if collect(list(args), [], envl) != ["\x00"]:
                        fail(st, "a loop body that can raise")
                    if any(ty != "str" for _, ty in out["args"]):
                        fail(st, f"`{meth}` with a non-string argument")
                    argt = "".join(" " + t for t, _ in out["args"])
                    fn = f"fun ({xi} : Nat) ({xm} : Agent) =>" if ivar else f"fun ({xm} : Agent) =>"
                    mp = "mapIdx" if ivar else "map"
                    if fk[0] == "inplace":
                        env2, v = self.bind(envb, lst, "agents")
                        return [f"let {v.lean} : List Agent := {l}.{mp} ({fn} ops.{meth} {xm}{argt})"] + cont(env2)
                    env2, lines = self.event(envb, f"{l}.{mp} ({fn} Ev.save {xm}{argt})")
                    return lines + cont(env2)
                return unwrap(free, env0)
            return self.read(st, lst, env, k0)
        # the per-individual loop of Mutations.mutation
        _, c_name, p_name, m_var, i_var = fk
        sliced = {c_name, p_name, m_var, i_var}
        accs = [n for n in self.assigned(st.body) if n not in (i_var, m_var) and n in env]
        sliced |= set(accs)
        if len(accs) != 1:
            fail(st, f"the per-individual loop must fill exactly one list (found {accs})")
        acc = accs[0]

        def k0(ch, chty, env0):
            def k1(pp, pty, env1):
                def k2(a0, aty, env2):
                    if (chty, pty, aty) != ("meths", "agents", "agents"):
                        fail(st, f"zip loop over ({chty}, {pty}) filling a {aty}")
                    x = self.fresh("x")
                    envl = dict(env2)
                    accv = Var(self.fresh("v"), "agents")
                    mv, iv = Var(self.fresh("v"), "meth"), Var(self.fresh("v"), "agent")
                    envl[acc], envl[m_var], envl[i_var] = accv, mv, iv
                    acc_param = accv.lean
                    lines = [f"let {mv.lean} : Meth := {x}.1", f"let {iv.lean} : Agent := {x}.2"]
                    in_post = False
                    for b in st.body:
                        kindb = self.slice_stmt(b, sliced, m_var, i_var, acc)
                        if kindb == "call":
                            envl, v = self.bind(envl, i_var, "agent")
                            lines.append(f"let {v.lean} : Agent := ops.call {mv.lean} {iv.lean}")
                            iv, in_post = v, False
                        elif kindb == "append":
                            envl, v = self.bind(envl, acc, "agents")
                            lines.append(f"let {v.lean} : List Agent := {accv.lean} ++ [{iv.lean}]")
                            accv, in_post = v, False
                        elif kindb == "post":
                            if not in_post:
                                envl, v = self.bind(envl, i_var, "agent")
                                lines.append(f"let {v.lean} : Agent := ops.post {iv.lean}")
                                iv = v
                            in_post = True
                        # "skip": nothing
                    lines.append(accv.lean)
                    env3, res = self.bind(env2, acc, "agents")
                    return [f"let {res.lean} : List Agent := (List.zip {ch} {pp}).foldl (fun ({acc_param} : List Agent) "
                            f"({x} : Meth × Agent) =>"] + ind(lines, 4) + [f"  ) {a0}"] + cont(env3)
                return self.read(st, acc, env1, k2)
            return self.read(st, p_name, env0, k1)
        return self.read(st, c_name, env, k0)

    def slice_stmt(self, b, sliced, m_var, i_var, acc) -> str:
        """classify a statement of the per-individual loop body"""
        if isinstance(b, (ast.Assign, ast.AnnAssign)):
            tgt = b.targets[0] if isinstance(b, ast.Assign) and len(b.targets) == 1 else getattr(b, "target", None)
            val = b.value
            if isinstance(tgt, ast.Name) and tgt.id == i_var:
                if isinstance(val, ast.Name) and val.id == i_var:
                    return "skip"
                if isinstance(val, ast.Call) and isinstance(val.func, ast.Name) and val.func.id == m_var \
                        and len(val.args) == 1 and not val.keywords and isinstance(val.args[0], ast.Name) \
                        and val.args[0].id == i_var:
                    return "call"
                fail(b, f"`{i_var}` is rebound by something other than `{m_var}({i_var})`")
        if isinstance(b, ast.Expr) and isinstance(b.value, ast.Call) and dotted(b.value.func) == (acc, "append"):
            c = b.value
            if len(c.args) == 1 and isinstance(c.args[0], ast.Name) and c.args[0].id == i_var and not c.keywords:
                return "append"
            fail(b, f"`{acc}.append` of something other than `{i_var}`")
        # anything else: must not write a sliced name or leave the loop
        touches = False
        for n in ast.walk(b):
            if isinstance(n, (ast.Return, ast.Break, ast.Continue, ast.Raise, ast.Try, ast.Yield, ast.YieldFrom,
                              ast.Global, ast.Nonlocal, ast.With, ast.While, ast.Delete, ast.NamedExpr,
                              ast.FunctionDef, ast.Lambda, ast.ClassDef, ast.Import, ast.ImportFrom)):
                fail(n, f"{type(n).__name__} inside the per-individual loop")
            tg = []
            if isinstance(n, ast.Assign):
                tg = n.targets
            elif isinstance(n, (ast.AnnAssign, ast.AugAssign)):
                tg = [n.target]
            elif isinstance(n, (ast.For, ast.comprehension)):
                tg = [n.target]
            for t in tg:
                for x in ast.walk(t):
                    if isinstance(x, ast.Name) and x.id in sliced and isinstance(x.ctx, ast.Store):
                        fail(n, f"`{x.id}` is rebound inside the per-individual loop")
                    if isinstance(x, (ast.Subscript, ast.Attribute)) and isinstance(x.ctx, ast.Store):
                        base = x
                        while isinstance(base, (ast.Subscript, ast.Attribute)):
                            base = base.value
                        if isinstance(base, ast.Name) and base.id in sliced:
                            if base.id == i_var:
                                touches = True
                            else:
                                fail(n, f"`{base.id}` is written inside the per-individual loop")
            if isinstance(n, ast.Call):
                d = dotted(n.func)
                if d and d[0] == i_var and len(d) >= 2:
                    touches = True                      # a method of the individual
                elif d == ("setattr",) and n.args and isinstance(n.args[0], ast.Name) and n.args[0].id == i_var:
                    touches = True
                elif d and d[0] in sliced and d[0] != i_var and len(d) >= 2:
                    fail(n, f"a method of `{d[0]}` is called inside the per-individual loop")
                elif d and len(d) == 1 and d[0] in (m_var,):
                    fail(n, f"`{m_var}` is called a second time")
                else:
                    for a in list(n.args) + [kw.value for kw in n.keywords]:
                        if isinstance(a, ast.Name) and a.id in (acc,) :
                            fail(n, f"`{a.id}` escapes into a call inside the per-individual loop")
        return "post" if touches else "skip"


# ----------------------------------------------------------------------------------------------
PARAM_TYPES = {
    "PopulationType": "agents", "str": "str", "Optional[str]": ("opt", "str"), "bool": "bool",
    "Optional[bool]": "bool", "Optional[Accelerator]": ("opt", "accel"),
    "TournamentSelection": "tournament", "Mutations": "mutations",
}


def find_function(tree, name):
    fns = [n for n in tree.body if isinstance(n, ast.FunctionDef) and n.name == name]
    if len(fns) != 1:
        raise Unsupported(f"{REL_UTILS}: expected exactly one module-level `def {name}` (found {len(fns)})")
    return fns[0]


def find_method(tree, cls, name):
    cs = [n for n in tree.body if isinstance(n, ast.ClassDef) and n.name == cls]
    if len(cs) != 1:
        raise Unsupported(f"{REL_MUT}: expected exactly one `class {cls}` (found {len(cs)})")
    ms = [n for n in cs[0].body if isinstance(n, ast.FunctionDef) and n.name == name]
    if len(ms) != 1:
        raise Unsupported(f"{REL_MUT}: expected exactly one `def {name}` in `class {cls}` (found {len(ms)})")
    return ms[0]


def check_plain_args(fn):
    a = fn.args
    if a.vararg or a.kwarg or a.kwonlyargs or a.posonlyargs:
        fail(fn, "*args / **kwargs / keyword-only / positional-only parameters")
    if fn.decorator_list:
        fail(fn, "decorated function")


def translate_tsm(src: str):
    _file[0] = REL_UTILS
    fn = find_function(ast.parse(src), "tournament_selection_and_mutation")
    check_plain_args(fn)
    tr = FnTr(fn, "function")
    env, params, defaults = {}, [], []
    nd = len(fn.args.args) - len(fn.args.defaults)
    for i, a in enumerate(fn.args.args):
        if a.annotation is None:
            fail(a, f"parameter `{a.arg}` without annotation")
        ann = ast.unparse(a.annotation)
        if ann not in PARAM_TYPES:
            fail(a, f"parameter `{a.arg}` of type {ann}")
        ty = PARAM_TYPES[ann]
        env[a.arg] = Var(a.arg, ty)
        if i >= nd:
            defaults.append(f"{a.arg}={ast.unparse(fn.args.defaults[i - nd])}")
        if ty == "tournament":
            params.append("(tournament_select : List Agent → Option (Agent × List Agent))")
        elif ty == "mutations":
            params.append("(mutation_mutation : List Agent → Option (List Agent))")
        else:
            params.append(f"({a.arg} : {lean_ty(ty)})")
    ev0 = Var(tr.fresh("v"), "evs")
    env[chr(0) + "ev"] = ev0
    if not fn.body or not isinstance(fn.body[-1], ast.Return):
        fail(fn, "the function does not end in `return`")
    body = [f"let {ev0.lean} : List (Ev Agent) := []"] + tr.stmts(fn.body, env, lambda e: fail(fn, "falls off the end"))
    doc = ("/-- `tournament_selection_and_mutation` (" + REL_UTILS + "); returns the population and the files written, "
           "in order;\n    `none` = an exception.  Defaults: " + ", ".join(defaults) + " -/")
    head = "def tournament_selection_and_mutation {Agent Meth : Type} (ops : AgentOps Agent Meth)\n    " + \
        "\n    ".join(params) + " :\n    Option (List Agent × List (Ev Agent)) :="
    return [doc, head] + ind(body), tr.dropped


def translate_mutation(src: str):
    _file[0] = REL_MUT
    fn = find_method(ast.parse(src), "Mutations", "mutation")
    check_plain_args(fn)
    tr = FnTr(fn, "method")
    args = fn.args.args
    if [a.arg for a in args] != ["self", "population", "pre_training_mut"]:
        fail(fn, f"signature ({', '.join(a.arg for a in args)}) instead of (self, population, pre_training_mut)")
    if len(fn.args.defaults) != 1 or not (isinstance(fn.args.defaults[0], ast.Constant) and fn.args.defaults[0].value is False):
        fail(fn, "`pre_training_mut` must default to False (the training loops call `mutation(population)`)")
    ann = [ast.unparse(a.annotation) if a.annotation else None for a in args[1:]]
    if ann != ["PopulationType", "bool"]:
        fail(fn, f"parameter annotations {ann}")
    env = {"population": Var("population", "agents"), "pre_training_mut": Var("pre_training_mut", "bool")}
    if not fn.body or not isinstance(fn.body[-1], ast.Return):
        fail(fn, "the method does not end in `return`")
    body = tr.stmts(fn.body, env, lambda e: fail(fn, "falls off the end"))
    struct = ["/-- the attributes of a `Mutations` object the population-level skeleton reads -/",
              "structure Mutations (Meth : Type) where"] + [f"  {f} : {lean_ty(t)}" for f, t in tr.fields]
    doc = ("/-- `Mutations.mutation(self, population, pre_training_mut=False)` (" + REL_MUT + "), population level; "
           "`none` = an exception;\n    " + ", ".join(tr.choices) + ": the `self.rng.choice` draw -/")
    head = "def Mutations.mutation {Agent Meth : Type} [BEq Meth] (ops : AgentOps Agent Meth) (self : Mutations Meth)\n" \
           "    (population : List Agent) (pre_training_mut : Bool)" + \
           "".join(f" ({c} : List Meth)" for c in tr.choices) + " : Option (List Agent) :="
    return struct + [""] + [doc, head] + ind(body), tr.dropped


def repo_dir(arg: str | None = None) -> Path:
    if arg:
        return Path(arg)
    return Path(os.environ.get("VERIF_REPO", "/repo"))


def translate(repo: Path) -> tuple[str, str]:
    """returns (lean text, sha256 of the two sources); raises Unsupported"""
    raws = []
    for rel in (REL_UTILS, REL_MUT):
        path = Path(repo) / rel
        try:
            raws.append(path.read_bytes())
        except OSError as e:
            raise Unsupported(f"cannot read {path}: {e}") from e
    sha = hashlib.sha256(b"\x00".join(raws)).hexdigest()
    try:
        mut_lines, d2 = translate_mutation(raws[1].decode("utf-8"))
        tsm_lines, d1 = translate_tsm(raws[0].decode("utf-8"))
    except SyntaxError as e:
        raise Unsupported(f"{_file[0]}:{e.lineno}: not parseable: {e.msg}") from e
    except RecursionError as e:
        raise Unsupported(f"{_file[0]}: nesting too deep") from e
    header = [
        "/-",
        "  Gen/EvoStepGen.lean — GENERATED by harness/py2lean_evostep.py from `tournament_selection_and_mutation`",
        f"  ({REL_UTILS}) and the population-level skeleton of `Mutations.mutation` ({REL_MUT}); do not edit.",
        "  Core Lean only.  `Proofs/EvoStepGenEq.lean` proves the definitions equal to `Loop.Evo.evoStep` /",
        "  `Loop.Evo.mutation` of `Model/Loop.lean`.",
        "  Dropped after checking that they cannot write a translated name:",
    ] + [f"    * {REL_UTILS}: {d}" for d in d1] + [f"    * {REL_MUT}: {d}" for d in d2] + [
        "-/",
        SHA_PREFIX + sha,
        "set_option linter.unusedVariables false",
        "",
        "namespace EvoStepGen",
        "",
    ]
    text = "\n".join(header) + PRELUDE + "\n" + "\n".join(mut_lines) + "\n\n" + "\n".join(tsm_lines) + "\n\nend EvoStepGen\n"
    if "\x00" in text or "\x01" in text:
        raise Unsupported("internal: unresolved placeholder in the output")
    return text, sha


def strip_sha(text: str) -> str:
    return "\n".join(ln for ln in text.split("\n") if not ln.startswith(SHA_PREFIX))


def write_if_changed(text: str, out: Path, force: bool = False) -> bool:
    """writes `text` unless the file already holds the same translation (sha line ignored)"""
    out = Path(out)
    old = out.read_text() if out.exists() else None
    if old is not None and not force and strip_sha(old) == strip_sha(text):
        return False
    if old == text:
        return False
    out.parent.mkdir(parents=True, exist_ok=True)
    tmp = out.with_suffix(".lean.tmp")
    tmp.write_text(text)
    os.replace(tmp, out)
    return True


def main(argv: list[str]) -> int:
    import argparse
    ap = argparse.ArgumentParser()
    ap.add_argument("--repo", default=None)
    ap.add_argument("--out", default=str(DEFAULT_OUT))
    ap.add_argument("--stdout", action="store_true")
    ap.add_argument("--force", action="store_true", help="rewrite even if only the sha256 line differs")
    a = ap.parse_args(argv)
    try:
        text, sha = translate(repo_dir(a.repo))
    except Unsupported as e:
        print(f"py2lean_evostep: {e}", file=sys.stderr)
        return 1
    if a.stdout:
        sys.stdout.write(text)
        return 0
    changed = write_if_changed(text, Path(a.out), a.force)
    print(f"{a.out}: {'written' if changed else 'unchanged'} (source sha256 {sha[:16]}…, "
          f"translation sha256 {hashlib.sha256(strip_sha(text).encode()).hexdigest()[:16]}…)")
    return 0


if __name__ == "__main__":
    sys.exit(main(sys.argv[1:]))
