#!/usr/bin/env python3
"""
py2lean_flatten.py — translate the tensor RE-LAYOUT code of the on-policy learners into Lean 4 index maps.

    python3 harness/py2lean_flatten.py [--repo DIR] [--out FILE] [--stdout] [--force]

Reads the *source text* only (Python `ast`; agilerl / torch / numpy are never imported) of
  * REPO/agilerl/utils/algo_utils.py: `stack_experiences`, `is_vectorized_experiences`, `flatten_experiences`
    (+ its inner `flatten`), `get_experiences_samples`, `vectorize_experiences_by_agent`,
    `concatenate_experiences_into_batches`, `experience_to_tensors`, `concatenate_tensors`, `reshape_from_space`,
    `maybe_add_batch_dim`, `get_space_shape`;
  * REPO/agilerl/algorithms/ppo.py: `PPO.learn`, from its first statement to the minibatch indexing;
  * REPO/agilerl/algorithms/ippo.py: `IPPO.assemble_shared_inputs`, `IPPO._learn_individual` (same range)
and writes lean/Gen/FlattenGen.lean (namespace `FlattenGen`, core Lean only).  `Proofs/FlattenGenEq.lean` proves every
generated index map equal to the un-flatten maps of `Model/GAE.lean` (`ppoUnflat`, `ippoUnflat`, the inverses of
`ppoFlat` / `ippoObsFlat`), for all T, E, A; `Props/C17.lean` restates the alignment / bijection theorems over the
generated maps (`C17_source_translation_flatten_*`).

How.  The methods are EXECUTED SYMBOLICALLY by a small interpreter of Python over *symbolic row-major tensors*.  A
tensor is (shape, entry map): the shape is a list of natural-number expressions over the symbolic sizes `T` (rollout
length = length of the per-step lists), `E` (parallel environments), `A` (agents sharing the policy), `F0, F1, …`
(feature dimensions); the entry map sends an index tuple to the SOURCE COORDINATES (agent, step, env, feature) of the
rollout entry stored there.  Every shape operation rewrites the entry map by row-major stride arithmetic taken from
its AST arguments:
  * `reshape / view (…)` (ints, `-1`, tuple argument, starred `*shape[2:]`): equal leading and trailing dimensions are
    kept; for the rest  flat = Σ new_index_k · new_stride_k,  old_index_j = flat / old_stride_j [% old_dim_j];
    `-1` is (product of the old dims) / (product of the other new dims); a reshape of a reshape is a reshape of the
    original (both are row-major views);  the element count must be the same product of symbolic factors;
  * `swapaxes / transpose (a, b)`, `permute(…)`: permutation of shape and index tuple;
  * `squeeze([d])`, `unsqueeze(d)`, `np.expand_dims(x, d)`: size-1 dimensions (their index is 0);
  * `np.stack / np.array / torch.stack (list[, dim])` of a symbolic list: new dimension = position in the list;
    `torch.cat(list, dim=0)`: row j is row `j % n` of element `j / n`;
  * `x[index vector]`: row j is row `idx j` of x; `np.arange`, `np.random.shuffle` (→ an ARBITRARY index function
    `idx`), slices `v[start : …]` of an index vector (row j ↦ `idx (start + j)`);
  * `zeros_like(x)`, entry-wise `+ - *` (both operands must have the same shape and entry map), `.float .long .cpu
    .detach .clone .contiguous .to .double .numpy`, `torch.from_numpy`, `torch.Tensor(x)`: same layout.
The interpreter handles the Python around them concretely: tuple / list / dict / defaultdict(list) values, `for`
over tuples, lists, dict views, `enumerate`, `range`; `if / elif / else` on `isinstance`, `len`, `.ndim`, `not`,
`and / or`, integer comparisons; comprehensions (one generator, no condition); nested `def`; `*args`, keyword and
default arguments; `continue`, `return`; `map`, `all`, `any`, `tuple`, `list`, `next(iter(…))`, `len`.
A loop over a SYMBOLIC list (the T per-step entries; the A agents of `experiences.keys() / .items() / .values()`) is
executed once for a generic element; `.append` in it builds a symbolic list; `d[group][agent] = v` in it builds the
per-group agent dictionary.  A `for` over a symbolic `range` directly inside `with torch.no_grad():` is the
advantage-estimation loop (translated by py2lean_gae.py): here it only keeps the layout of the tensors it stores
rows into.  Other symbolic `range` loops (epochs, minibatches) are executed once with a generic loop variable; the
translation stops at the first call whose first argument is an index vector (`get_experiences_samples`), which is
executed as well.  Anything else raises `Unsupported` naming the construct and line.

Scenarios.  Each method is run on several input kinds (namespaces `PPO.Vec`, `PPO.VecDict`, `PPO.VecTuple`, `PPO.Flat`,
`IPPO.Vec`, `IPPO.VecDisc`, `IPPO.Flat`): Box / Dict / Tuple observations, Box / Discrete actions, with and without an
environment dimension.  The per-step entries are numpy arrays `(E, F…)` (scalars / `(F…)` without env dimension).

Output, per scenario, for k = 0..5 (position in the tuple handed to the minibatch loop: states, actions, log_probs,
advantages, returns, values; Dict / Tuple members get a suffix `_k0`, `_1`):
  * `rows<k> dims : Nat`                      — `size(0)` of the flattened tensor;
  * `src<k> dims row [f] : (…)`               — source coordinates `([a,] t, e[, f])` of entry `[row, f]`;
  * `batch<k> idx start dims j [f]`           — the same for row j of the minibatch gathered by the index vector;
  * `mat_x<i> dims t c` / `row_x<i> dims c` / `vec_x<i> dims c` — layout of the `(T, columns)` matrices, `(1, columns)`
    rows and rank-1 vectors the advantage loop reads (x<i> = element i of the method's experiences), i.e. which
    agent / env a column is (the step coordinate of `next_done` is `T`).
Assumptions (also listed in the generated header): symbolic sizes are positive and, where the source squeezes
size-1 dimensions, not 1 (`x.squeeze()` on symbolic dims is the identity); opaque calls (`self.critic`,
`preprocess_observation`, `self.to_device` = identity on its arguments, the recorder) do not re-lay-out or mutate the
rollout tensors; the agents of one homogeneous group are met in the same order in all eight experience dictionaries
-- this FOLLOWS FROM THE CODE when `assemble_shared_inputs` loops over `self.agent_ids` with a membership guard and looks
the entries up by key (the header then says so), and is an assumption only for a tree that iterates each input dictionary
in its own key order (checked by the correspondence run: every one of the eight dictionaries in its own key order,
unsorted / interleaved agent ids); the advantage loop writes entry `[t, c]` from
entries `[t, c]` (`Proofs/GAEGenEq.lean`).
"""
from __future__ import annotations

import ast
import hashlib
import os
import sys
from pathlib import Path

HERE = Path(__file__).resolve().parent
DEFAULT_OUT = HERE.parent / "lean" / "Gen" / "FlattenGen.lean"
REL_SOURCES = ("agilerl/utils/algo_utils.py", "agilerl/algorithms/ppo.py", "agilerl/algorithms/ippo.py")
REL_SOURCE = "agilerl/{utils/algo_utils,algorithms/ppo,algorithms/ippo}.py"
SHA_PREFIX = "-- sha256(source) = "
UTIL_FUNCS = ("stack_experiences", "is_vectorized_experiences", "flatten_experiences", "get_experiences_samples",
              "vectorize_experiences_by_agent", "concatenate_experiences_into_batches", "experience_to_tensors",
              "concatenate_tensors", "reshape_from_space", "maybe_add_batch_dim", "get_space_shape")
ID_METHODS = {"float", "long", "double", "cpu", "detach", "clone", "contiguous", "to", "numpy", "int", "bool"}
ID_SELF_METHODS = {"to_device"}
INTERP_METHODS = {"assemble_shared_inputs"}


class Unsupported(Exception):
    pass


_file = [REL_SOURCE]


def fail(node, what: str):
    raise Unsupported(f"{_file[0]}:{getattr(node, 'lineno', '?')}: unsupported construct: {what}")


# ---------------------------------------------------------------------------------------------- Nat expressions
def V(n):
    return ("v", n)


def C(k):
    return ("c", k)


def add(a, b):
    if a[0] == "c" and b[0] == "c":
        return C(a[1] + b[1])
    if a == C(0):
        return b
    if b == C(0):
        return a
    return ("+", a, b)


def sub(a, b):
    if a[0] == "c" and b[0] == "c" and a[1] >= b[1]:
        return C(a[1] - b[1])
    if b == C(0):
        return a
    return ("-", a, b)


def mul(a, b):
    if a[0] == "c" and b[0] == "c":
        return C(a[1] * b[1])
    if a == C(0) or b == C(0):
        return C(0)
    if a == C(1):
        return b
    if b == C(1):
        return a
    return ("*", a, b)


def div(a, b):
    if b == C(1):
        return a
    if a == C(0):
        return C(0)
    if a[0] == "c" and b[0] == "c" and b[1] != 0:
        return C(a[1] // b[1])
    return ("/", a, b)


def mod(a, b):
    if b == C(1) or a == C(0):
        return C(0)
    if a[0] == "c" and b[0] == "c" and b[1] != 0:
        return C(a[1] % b[1])
    return ("%", a, b)


def prod(xs):
    r = C(1)
    for x in xs:
        r = mul(r, x)
    return r


def subst(e, var: str, by):
    if e[0] == "v":
        return by if e[1] == var else e
    if e[0] == "c":
        return e
    if e[0] == "app":
        return ("app", e[1], subst(e[2], var, by))
    f = {"+": add, "-": sub, "*": mul, "/": div, "%": mod}[e[0]]
    return f(subst(e[1], var, by), subst(e[2], var, by))


def free_vars(e, acc=None):
    acc = set() if acc is None else acc
    if e[0] == "v":
        acc.add(e[1])
    elif e[0] == "app":
        free_vars(e[2], acc)
    elif e[0] != "c":
        free_vars(e[1], acc)
        free_vars(e[2], acc)
    return acc


def factors(e):
    """sorted atomic factors of a pure product (None if the expression is not a product of atoms / constants)"""
    if e[0] == "*":
        a, b = factors(e[1]), factors(e[2])
        return None if a is None or b is None else sorted(a + b)
    if e[0] == "c":
        return [] if e[1] == 1 else [repr(e)]
    if e[0] == "v":
        return [repr(e)]
    if e[0] == "/":                                  # (x * y) / x with the same atoms: the inferred `-1`
        a, b = factors(e[1]), factors(e[2])
        if a is None or b is None:
            return None
        a = list(a)
        for x in b:
            if x not in a:
                return None
            a.remove(x)
        return sorted(a)
    return None


PREC = {"+": 65, "-": 65, "*": 70, "/": 70, "%": 70}


def lean(e, outer: int = 0, right: bool = False) -> str:
    if e[0] == "v":
        return e[1]
    if e[0] == "c":
        return str(e[1])
    if e[0] == "app":
        s = f"{e[1]} {lean(e[2], 1000)}"
        return f"({s})" if outer >= 1000 else s
    p = PREC[e[0]]
    s = f"{lean(e[1], p)} {e[0]} {lean(e[2], p, True)}"
    if p < outer or (p == outer and right) or outer >= 1000:
        return f"({s})"
    return s


# ---------------------------------------------------------------------------------------------- symbolic values
class Opaque:
    def __init__(self, what: str):
        self.what = what


class SymInt:
    def __init__(self, e):
        self.e = e


def as_expr(v, node=None):
    if isinstance(v, bool):
        fail(node, "a bool where a size is expected")
    if isinstance(v, int):
        if v < 0:
            fail(node, f"negative size {v}")
        return C(v)
    if isinstance(v, SymInt):
        return v.e
    fail(node, f"a size that is not an integer expression ({type(v).__name__})")


class Tn:
    """symbolic row-major tensor: `shape` (Nat expressions), `src(index list) -> {coordinate: expression}`,
    `base` = the tensor this one is a reshape-view of, `kind` = np | torch | number, `origin` = x<i> label"""

    def __init__(self, shape, src, kind="np", base=None, origin=None):
        self.shape, self.src, self.kind, self.base, self.origin = list(shape), src, kind, base, origin

    def like(self, **kw):
        t = Tn(self.shape, self.src, self.kind, self.base, self.origin)
        for k, x in kw.items():
            setattr(t, k, x)
        return t


class SymList:
    """a list (or, `is_dict`, an agent-keyed dict) of symbolic length `n`; `item` is the generic element, in which
    the position is the free variable `var`"""

    def __init__(self, n, var: str, item, is_dict=False):
        self.n, self.var, self.item, self.is_dict = n, var, item, is_dict


class AgentKey:
    def __init__(self, var: str):
        self.var = var


SYMLOOPS: list = []                          # (n, var) of the symbolic loops being executed


class PyList:
    def __init__(self, items=None):
        self.items = list(items or [])
        self.sym = None                      # (n, var, item) once appended to inside a symbolic loop
        self.depth = len(SYMLOOPS)           # symbolic loops already open when the list was created


class DefaultDict(dict):
    def __init__(self):
        super().__init__()
        self.depth = len(SYMLOOPS)


class GroupTable:
    """`{group: {} for group in …}` filled by `d[group_of(agent)][agent] = v` in a loop over the agents"""

    def __init__(self):
        self.entry = None                    # (n, var, item)


class GroupSlot:
    def __init__(self, table):
        self.table = table


class IdxVec:
    def __init__(self, fn, n):
        self.fn, self.n = fn, n


class SymRange:
    def __init__(self, name_hint="i"):
        self.hint = name_hint


class Space:
    def __init__(self, kind: str, shape=(), members=None):
        self.kind, self.shape, self.members = kind, list(shape), members


class SelfObj:
    pass


class FnVal:
    def __init__(self, node: ast.FunctionDef, closure: "Env", rel: str, is_method=False):
        self.node, self.closure, self.rel, self.is_method = node, closure, rel, is_method


class Bound:
    def __init__(self, obj, name: str):
        self.obj, self.name = obj, name


class Env:
    def __init__(self, parent=None):
        self.vars, self.parent = {}, parent

    def get(self, name):
        e = self
        while e is not None:
            if name in e.vars:
                return e.vars[name]
            e = e.parent
        raise KeyError(name)

    def has(self, name):
        try:
            self.get(name)
            return True
        except KeyError:
            return False


class ReturnEx(Exception):
    def __init__(self, v):
        self.v = v


class ContinueEx(Exception):
    pass


class DoneEx(Exception):
    pass


def vsubst(v, var: str, by):
    """substitute the position variable `var` in every tensor of a value"""
    if isinstance(v, Tn):
        src0 = v.src
        t = v.like(src=lambda idx, s=src0: {k: subst(x, var, by) for k, x in s(idx).items()})
        t.shape = [subst(d, var, by) for d in v.shape]
        if v.base is not None:
            t.base = vsubst(v.base, var, by)
        return t
    if isinstance(v, DefaultDict):
        return v
    if isinstance(v, dict):
        return {k: vsubst(x, var, by) for k, x in v.items()}
    if isinstance(v, tuple):
        return tuple(vsubst(x, var, by) for x in v)
    if isinstance(v, SymList):
        return SymList(v.n, v.var, v.item if v.var == var else vsubst(v.item, var, by), v.is_dict)
    if isinstance(v, AgentKey):
        return v
    return v


# ---------------------------------------------------------------------------------------------- tensor algebra
NEG1 = "neg1"


def t_reshape(node, tn: Tn, new) -> Tn:
    base = tn.base if tn.base is not None else tn
    old = base.shape
    new = list(new)
    if new.count(NEG1) > 1:
        fail(node, "reshape with more than one -1")
    lo = 0
    while lo < len(old) and lo < len(new) and new[lo] != NEG1 and new[lo] == old[lo]:
        lo += 1
    hi = 0
    while hi < len(old) - lo and hi < len(new) - lo and new[-1 - hi] != NEG1 and new[-1 - hi] == old[-1 - hi]:
        hi += 1
    mo, mn = old[lo:len(old) - hi], new[lo:len(new) - hi]
    if NEG1 in mn:
        k = mn.index(NEG1)
        mn[k] = div(prod(mo), prod(mn[:k] + mn[k + 1:]))
    fo, fn = factors(prod(mo)), factors(prod(mn))
    if fo is None or fn is None or fo != fn:
        fail(node, f"reshape from ({', '.join(lean(d) for d in old)}) to ({', '.join(lean(d) if d != NEG1 else '-1' for d in new)}): "
                   "cannot show that the number of elements is the same")
    shape = new[:lo] + mn + (new[len(new) - hi:] if hi else [])
    so = [prod(mo[j + 1:]) for j in range(len(mo))]
    sn = [prod(mn[j + 1:]) for j in range(len(mn))]
    nlo, nmid = lo, len(mn)

    def src(idx, base=base):
        lead, mid, tail = idx[:nlo], idx[nlo:nlo + nmid], idx[nlo + nmid:]
        flat = C(0)
        for k, i in enumerate(mid):
            flat = add(flat, mul(i, sn[k]))
        om = []
        for j in range(len(mo)):
            q = div(flat, so[j])
            if j > 0:
                q = mod(q, mo[j])
            om.append(q)
        return base.src(lead + om + tail)

    return Tn(shape, src, tn.kind, base, tn.origin)


def t_permute(node, tn: Tn, perm) -> Tn:
    n = len(tn.shape)
    perm = [p + n if p < 0 else p for p in perm]
    if sorted(perm) != list(range(n)):
        fail(node, f"permutation {perm} of a tensor of rank {n}")

    def src(idx, tn=tn):
        o = [None] * n
        for k, p in enumerate(perm):
            o[p] = idx[k]
        return tn.src(o)

    return Tn([tn.shape[p] for p in perm], src, tn.kind, None, tn.origin)


def t_squeeze(node, tn: Tn, dims) -> Tn:
    keep = [k for k in range(len(tn.shape)) if k not in dims]

    def src(idx, tn=tn):
        o = [C(0)] * len(tn.shape)
        for k, p in enumerate(keep):
            o[p] = idx[k]
        return tn.src(o)

    return Tn([tn.shape[k] for k in keep], src, tn.kind, None, tn.origin)


def t_unsqueeze(node, tn: Tn, d: int) -> Tn:
    n = len(tn.shape) + 1
    d = d + n if d < 0 else d
    if not 0 <= d < n:
        fail(node, f"unsqueeze({d}) on rank {n - 1}")
    return Tn(tn.shape[:d] + [C(1)] + tn.shape[d:], lambda idx, tn=tn: tn.src(idx[:d] + idx[d + 1:]), tn.kind, None, tn.origin)


def t_stack(node, sl: SymList, d: int, kind: str) -> Tn:
    it = sl.item
    if not isinstance(it, Tn):
        fail(node, f"stack of a list whose elements are not tensors ({type(it).__name__})")
    n = len(it.shape) + 1
    d = d + n if d < 0 else d
    if not 0 <= d < n:
        fail(node, f"stack along dim {d} of rank-{n - 1} tensors")
    var = sl.var

    def src(idx, it=it):
        return {k: subst(x, var, idx[d]) for k, x in it.src(idx[:d] + idx[d + 1:]).items()}

    return Tn(it.shape[:d] + [sl.n] + it.shape[d:], src, kind, None, it.origin)


def t_cat(node, sl: SymList, d: int) -> Tn:
    it = sl.item
    if not isinstance(it, Tn) or not it.shape:
        fail(node, "cat of a list whose elements are not tensors of rank >= 1")
    if d != 0:
        fail(node, f"cat along dim {d} (only dim 0)")
    n0, var = it.shape[0], sl.var

    def src(idx, it=it):
        return {k: subst(x, var, div(idx[0], n0)) for k, x in it.src([mod(idx[0], n0)] + idx[1:]).items()}

    return Tn([mul(sl.n, n0)] + it.shape[1:], src, "torch", None, it.origin)


def t_gather(node, tn: Tn, iv: IdxVec) -> Tn:
    if not tn.shape:
        fail(node, "index vector applied to a scalar")
    return Tn([iv.n if iv.n is not None else V("B")] + tn.shape[1:],
              lambda idx, tn=tn: tn.src([iv.fn(idx[0])] + idx[1:]), tn.kind, None, tn.origin)


def generic_index(tn: Tn, first: str):
    names = [first, "f", "g", "h"]
    idx, params = [], []
    k = 0
    for j, d in enumerate(tn.shape):
        if d == C(1) and j > 0:
            idx.append(C(0))
        else:
            if k >= len(names):
                raise Unsupported("a tensor of rank > 4 reaches the minibatch loop")
            idx.append(V(names[k]))
            params.append(names[k])
            k += 1
    return idx, params


def same_layout(a: Tn, b: Tn) -> bool:
    if a.shape != b.shape:
        return False
    idx = [V(f"i{k}") for k in range(len(a.shape))]
    return a.src(idx) == b.src(idx)


# ---------------------------------------------------------------------------------------------- interpreter
class Interp:
    def __init__(self, utils_env: Env, assumptions: list):
        self.genv = utils_env
        del SYMLOOPS[:]
        self.symloops = SYMLOOPS
        self.assumptions = assumptions
        self.gather = None                    # (experiences, results) of the minibatch indexing
        self.mats: dict = {}                  # origin -> tensor, layouts read by the advantage loop
        self.cur_cls_env = None
        self.loop_id = 0

    def assume(self, s: str):
        if s not in self.assumptions:
            self.assumptions.append(s)

    # ---- types
    def is_a(self, node, v, tok: str) -> bool:
        if tok == "dict":
            return isinstance(v, dict) or (isinstance(v, SymList) and v.is_dict)
        if tok == "list":
            return isinstance(v, PyList) or (isinstance(v, SymList) and not v.is_dict)
        if tok == "tuple":
            return isinstance(v, tuple)
        if tok == "torch.Tensor":
            return isinstance(v, Tn) and v.kind == "torch"
        if tok == "np.ndarray":
            return isinstance(v, Tn) and v.kind == "np"
        if tok == "Number":
            return (isinstance(v, Tn) and v.kind == "number") or (isinstance(v, (int, float)) and not isinstance(v, bool))
        if tok.startswith("spaces."):
            if not isinstance(v, Space):
                fail(node, f"isinstance(…, {tok}) of a value that is not a space")
            return v.kind == tok.split(".", 1)[1]
        fail(node, f"isinstance against {tok}")

    def truth(self, node, v) -> bool:
        if isinstance(v, bool):
            return v
        if v is None:
            return False
        if isinstance(v, int):
            return v != 0
        if isinstance(v, (tuple, dict)):
            return len(v) > 0
        if isinstance(v, PyList):
            return v.sym is not None or len(v.items) > 0
        if isinstance(v, SymList):
            self.assume(f"the symbolic collection of size {lean(v.n)} is not empty")
            return True
        fail(node, f"truth value of {type(v).__name__}")

    # ---- calls
    def call(self, node, f, args, kw):
        if isinstance(f, FnVal):
            return self.call_fn(node, f, args, kw)
        if isinstance(f, Bound):
            return self.call_method(node, f.obj, f.name, args, kw)
        if isinstance(f, Opaque):
            return Opaque(f"{f.what}(…)")
        if callable(f):
            return f(node, args, kw)
        fail(node, f"call of {type(f).__name__}")

    def call_fn(self, node, f: FnVal, args, kw):
        a = f.node.args
        if a.posonlyargs or a.kwarg:
            fail(f.node, f"signature of {f.node.name}")
        env = Env(f.closure)
        names = [x.arg for x in a.args]
        args = list(args)
        if f.is_method:
            names = names[1:]
            env.vars[a.args[0].arg] = SelfObj()
        defaults = dict(zip([x.arg for x in a.args][len(a.args) - len(a.defaults):], a.defaults))
        for x, d in zip(a.kwonlyargs, a.kw_defaults):
            if d is not None:
                defaults[x.arg] = d
        kw = dict(kw)
        for k, nm in enumerate(names):
            if k < len(args):
                env.vars[nm] = args[k]
            elif nm in kw:
                env.vars[nm] = kw.pop(nm)
            elif nm in defaults:
                env.vars[nm] = self.ev(defaults[nm], f.closure)
            else:
                fail(node, f"missing argument {nm} of {f.node.name}")
        rest = args[len(names):]
        if a.vararg:
            env.vars[a.vararg.arg] = tuple(rest)
        elif rest:
            fail(node, f"too many arguments for {f.node.name}")
        for x in a.kwonlyargs:
            if x.arg in kw:
                env.vars[x.arg] = kw.pop(x.arg)
            elif x.arg in defaults:
                env.vars[x.arg] = self.ev(defaults[x.arg], f.closure)
            else:
                fail(node, f"missing keyword argument {x.arg} of {f.node.name}")
        if kw:
            fail(node, f"unexpected keyword arguments {sorted(kw)} for {f.node.name}")
        saved = _file[0]
        _file[0] = f.rel
        try:
            self.block(f.node.body, env)
            r = None
        except ReturnEx as e:
            r = e.v
        finally:
            _file[0] = saved
        if args and isinstance(args[0], IdxVec) and not f.is_method and self.gather is None:
            self.gather = (args[1:], r)
        return r

    def as_symlist(self, node, v) -> SymList:
        if isinstance(v, SymList):
            return v
        if isinstance(v, PyList) and v.sym is not None:
            return SymList(*v.sym)
        fail(node, "a concrete Python list where a list of per-step / per-agent tensors is expected")

    def call_method(self, node, obj, name: str, args, kw):
        if isinstance(obj, Tn):
            return self.tensor_method(node, obj, name, args, kw)
        if isinstance(obj, Opaque):
            return Opaque(f"{obj.what}.{name}(…)")
        if isinstance(obj, SelfObj):
            if name in ID_SELF_METHODS:
                self.assume(f"`self.{name}(*xs)` returns its arguments unchanged (device move)")
                return tuple(args)
            m = self.cur_cls_env.vars.get(name) if self.cur_cls_env and name in INTERP_METHODS else None
            if isinstance(m, FnVal):
                return self.call_fn(node, m, args, kw)
            return Opaque(f"self.{name}(…)")
        if isinstance(obj, PyList):
            if name == "append" and len(args) == 1 and not kw:
                if len(self.symloops) > obj.depth:
                    if obj.items or obj.sym is not None:
                        fail(node, "second append to the same list in one pass of a symbolic loop")
                    if len(self.symloops) > obj.depth + 1:
                        fail(node, "append to a list from inside two nested symbolic loops")
                    n, var = self.symloops[-1]
                    obj.sym = (n, var, args[0])
                else:
                    if obj.sym is not None:
                        fail(node, "append to a symbolic list outside its loop")
                    obj.items.append(args[0])
                return None
            fail(node, f"list.{name}")
        if isinstance(obj, dict):
            if name == "items" and not args:
                return [(k, v) for k, v in obj.items()]
            if name == "keys" and not args:
                return list(obj.keys())
            if name == "values" and not args:
                return list(obj.values())
            fail(node, f"dict.{name}")
        if isinstance(obj, SymList) and obj.is_dict:
            key = AgentKey(obj.var)
            if name == "items" and not args:
                return SymList(obj.n, obj.var, (key, obj.item))
            if name == "keys" and not args:
                return SymList(obj.n, obj.var, key)
            if name == "values" and not args:
                return SymList(obj.n, obj.var, obj.item)
            fail(node, f"dict.{name}")
        fail(node, f"method .{name} of {type(obj).__name__}")

    def int_arg(self, node, v) -> int:
        if isinstance(v, bool) or not isinstance(v, int):
            fail(node, "a dimension number that is not an integer literal")
        return v

    def shape_args(self, node, args):
        if len(args) == 1 and isinstance(args[0], (tuple, PyList)):
            args = list(args[0].items if isinstance(args[0], PyList) else args[0])
        out = []
        for a in args:
            if isinstance(a, int) and not isinstance(a, bool) and a == -1:
                out.append(NEG1)
            else:
                out.append(as_expr(a, node))
        return out

    def tensor_method(self, node, t: Tn, name: str, args, kw):
        if name in ID_METHODS:
            return t
        if name in ("reshape", "view") and not kw:
            return t_reshape(node, t, self.shape_args(node, args))
        if name == "flatten" and not args and not kw:
            return t_reshape(node, t, [NEG1])
        if name in ("swapaxes", "transpose") and len(args) == 2 and not kw:
            a, b = self.int_arg(node, args[0]), self.int_arg(node, args[1])
            n = len(t.shape)
            a, b = (a + n if a < 0 else a), (b + n if b < 0 else b)
            if not (0 <= a < n and 0 <= b < n):
                fail(node, f"{name}({a}, {b}) on rank {n}")
            p = list(range(n))
            p[a], p[b] = p[b], p[a]
            return t_permute(node, t, p)
        if name == "permute" and not kw:
            if len(args) == 1 and isinstance(args[0], tuple):
                args = list(args[0])
            return t_permute(node, t, [self.int_arg(node, a) for a in args])
        if name == "squeeze" and not kw:
            n = len(t.shape)
            if not args:
                if any(d != C(1) for d in t.shape):
                    self.assume("`.squeeze()` removes only the dimensions that are literally 1 (symbolic sizes are not 1)")
                return t_squeeze(node, t, [k for k in range(n) if t.shape[k] == C(1)])
            d = self.int_arg(node, args[0])
            d = d + n if d < 0 else d
            if not 0 <= d < n:
                fail(node, f"squeeze({d}) on rank {n}")
            if t.shape[d] != C(1):
                fail(node, f"squeeze({d}) of a dimension of symbolic size {lean(t.shape[d])}")
            return t_squeeze(node, t, [d])
        if name == "unsqueeze" and len(args) == 1 and not kw:
            return t_unsqueeze(node, t, self.int_arg(node, args[0]))
        if name == "size" and len(args) == 1 and not kw:
            return SymInt(t.shape[self.int_arg(node, args[0])]) if -len(t.shape) <= args[0] < len(t.shape) else fail(node, "size of a missing dimension")
        if name == "dim" and not args:
            return len(t.shape)
        fail(node, f"tensor method .{name}(…)")

    # ---- external functions (numpy / torch)
    def ext(self, node, dotted: str, args, kw):
        def one_tensor():
            if len(args) >= 1 and isinstance(args[0], Tn):
                return args[0]
            fail(node, f"{dotted} of {type(args[0]).__name__ if args else 'nothing'}")

        if dotted in ("np.stack", "torch.stack", "np.array", "np.asarray"):
            d = kw.get("dim", kw.get("axis", args[1] if len(args) > 1 else 0))
            if dotted.startswith("np.a"):
                if len(args) != 1 or kw:
                    fail(node, f"{dotted} with extra arguments")
                if isinstance(args[0], Tn):
                    return args[0].like(kind="np") if args[0].kind != "number" else args[0].like(kind="np")
                d = 0
            return t_stack(node, self.as_symlist(node, args[0]), self.int_arg(node, d), "torch" if dotted.startswith("torch") else "np")
        if dotted == "torch.cat":
            d = kw.get("dim", args[1] if len(args) > 1 else 0)
            return t_cat(node, self.as_symlist(node, args[0]), self.int_arg(node, d))
        if dotted in ("torch.from_numpy", "torch.Tensor", "torch.as_tensor", "torch.tensor"):
            return one_tensor().like(kind="torch")
        if dotted == "torch.zeros_like":
            return one_tensor().like()
        if dotted == "np.expand_dims":
            return t_unsqueeze(node, one_tensor(), self.int_arg(node, args[1] if len(args) > 1 else kw.get("axis")))
        if dotted == "np.arange" and len(args) == 1 and not kw:
            return IdxVec(lambda i: i, as_expr(args[0], node))
        if dotted == "np.random.shuffle" and len(args) == 1 and isinstance(args[0], IdxVec):
            args[0].fn = lambda i: ("app", "idx", i)
            return None
        if dotted == "defaultdict":
            return DefaultDict()
        return Opaque(dotted + "(…)")

    # ---- expressions
    def dotted(self, n):
        parts = []
        while isinstance(n, ast.Attribute):
            parts.append(n.attr)
            n = n.value
        if isinstance(n, ast.Name):
            parts.append(n.id)
            return ".".join(reversed(parts)), n.id
        return None, None

    def ev(self, n, env: Env):
        if isinstance(n, ast.Constant):
            if isinstance(n.value, (int, float, str, bool)) or n.value is None:
                return n.value
            fail(n, f"constant {n.value!r}")
        if isinstance(n, ast.Name):
            if env.has(n.id):
                return env.get(n.id)
            if n.id in BUILTINS:
                return lambda node, args, kw, nm=n.id: BUILTINS[nm](self, node, args, kw)
            if n.id in ("defaultdict",):
                return lambda node, args, kw: DefaultDict()
            return Opaque(n.id)
        if isinstance(n, ast.Tuple) or isinstance(n, ast.List):
            out = []
            for e in n.elts:
                if isinstance(e, ast.Starred):
                    v = self.ev(e.value, env)
                    out += self.concrete_iter(e, v)
                else:
                    out.append(self.ev(e, env))
            return tuple(out) if isinstance(n, ast.Tuple) else PyList(out)
        if isinstance(n, ast.Dict):
            if n.keys:
                fail(n, "non-empty dict display")
            return {}
        if isinstance(n, ast.UnaryOp):
            v = self.ev(n.operand, env)
            if isinstance(n.op, ast.Not):
                return not self.truth(n, v)
            if isinstance(n.op, ast.USub) and isinstance(v, int) and not isinstance(v, bool):
                return -v
            if isinstance(v, Opaque):
                return v
            fail(n, f"unary operator on {type(v).__name__}")
        if isinstance(n, ast.BoolOp):
            r = None
            for e in n.values:
                r = self.truth(e, self.ev(e, env))
                if isinstance(n.op, ast.And) and not r:
                    return False
                if isinstance(n.op, ast.Or) and r:
                    return True
            return r
        if isinstance(n, ast.BinOp):
            return self.binop(n, self.ev(n.left, env), self.ev(n.right, env))
        if isinstance(n, ast.Compare):
            return self.compare(n, env)
        if isinstance(n, ast.Attribute):
            return self.attribute(n, env)
        if isinstance(n, ast.Subscript):
            return self.subscript(n, self.ev(n.value, env), n.slice, env)
        if isinstance(n, ast.Call):
            return self.ev_call(n, env)
        if isinstance(n, (ast.ListComp, ast.GeneratorExp, ast.DictComp)):
            return self.comprehension(n, env)
        if isinstance(n, ast.JoinedStr):
            return "<f-string>"
        if isinstance(n, ast.IfExp):
            return self.ev(n.body if self.truth(n.test, self.ev(n.test, env)) else n.orelse, env)
        fail(n, type(n).__name__)

    def binop(self, n, a, b):
        if isinstance(a, Opaque) or isinstance(b, Opaque):
            return Opaque("arithmetic")
        if isinstance(a, Tn) or isinstance(b, Tn):
            if not isinstance(n.op, (ast.Add, ast.Sub, ast.Mult, ast.Div)):
                fail(n, "tensor operator")
            if isinstance(a, Tn) and isinstance(b, Tn):
                if not same_layout(a, b):
                    fail(n, "entry-wise arithmetic on two tensors that are laid out differently "
                            f"(({', '.join(map(lean, a.shape))}) vs ({', '.join(map(lean, b.shape))}) or other entry maps)")
                return a
            return a if isinstance(a, Tn) else b
        if isinstance(a, (int, SymInt)) and isinstance(b, (int, SymInt)) and not isinstance(a, bool) and not isinstance(b, bool):
            if isinstance(a, int) and isinstance(b, int):
                if isinstance(n.op, ast.Add):
                    return a + b
                if isinstance(n.op, ast.Sub):
                    return a - b
                if isinstance(n.op, ast.Mult):
                    return a * b
                fail(n, "integer operator")
            f = {ast.Add: add, ast.Sub: sub, ast.Mult: mul, ast.FloorDiv: div, ast.Mod: mod}.get(type(n.op))
            if f is None:
                fail(n, "operator on sizes")
            return SymInt(f(as_expr(a, n), as_expr(b, n)))
        if isinstance(a, float) or isinstance(b, float):
            return Opaque("float arithmetic")
        fail(n, f"operator on {type(a).__name__} and {type(b).__name__}")

    def compare(self, n, env):
        if len(n.ops) != 1:
            fail(n, "chained comparison")
        a, b = self.ev(n.left, env), self.ev(n.comparators[0], env)
        op = n.ops[0]
        if isinstance(op, (ast.Is, ast.IsNot)):
            if b is None or a is None:
                r = a is b
                return r if isinstance(op, ast.Is) else not r
            fail(n, "`is` between values")
        if isinstance(op, (ast.In, ast.NotIn)) and isinstance(a, AgentKey) and isinstance(b, SymList) and b.is_dict:
            # membership guard `if agent_id not in input: continue`: the rollout dictionaries of the scenario hold
            # every agent of the listing (an absent agent is skipped, it has no rows)
            return isinstance(op, ast.In)
        if isinstance(a, int) and isinstance(b, int):
            return {ast.Eq: a == b, ast.NotEq: a != b, ast.Lt: a < b, ast.LtE: a <= b, ast.Gt: a > b, ast.GtE: a >= b}[type(op)]
        if isinstance(a, SymInt) and isinstance(b, int) and isinstance(op, (ast.Eq, ast.NotEq)):
            if a.e[0] == "c":
                r = a.e[1] == b
            else:
                self.assume(f"the symbolic size {lean(a.e)} is not {b} (conditional squeeze not taken)")
                r = False
            return r if isinstance(op, ast.Eq) else not r
        fail(n, f"comparison of {type(a).__name__} with {type(b).__name__}")

    def attribute(self, n, env):
        d, root = self.dotted(n)
        if d is not None and not env.has(root):
            return Opaque(d)                               # module attribute (np.…, torch.…, spaces.…, verif_hooks.…)
        obj = self.ev(n.value, env)
        if isinstance(obj, Tn):
            if n.attr == "shape":
                return tuple(SymInt(x) if x[0] != "c" else x[1] for x in obj.shape)
            if n.attr == "ndim":
                return len(obj.shape)
            return Bound(obj, n.attr)
        if isinstance(obj, Space):
            if n.attr == "shape":
                return tuple(SymInt(x) if x[0] != "c" else x[1] for x in obj.shape)
            if n.attr == "nvec":
                return PyList([0] * 1)
            fail(n, f"space attribute .{n.attr}")
        if isinstance(obj, SelfObj):
            m = self.cur_cls_env.vars.get(n.attr) if self.cur_cls_env and n.attr in INTERP_METHODS else None
            if isinstance(m, FnVal) or n.attr in ID_SELF_METHODS:
                return Bound(obj, n.attr)
            if n.attr == "agent_ids" and getattr(self, "agents", None) is not None:
                # the agent's own listing of the agent ids: a loop over it meets the agents in THAT order, whatever
                # order a rollout dictionary lists them in (entries are then looked up by key)
                self.canonical_order = True
                nn, var = self.agents
                return SymList(nn, var, AgentKey(var))
            return Opaque(f"self.{n.attr}")
        if isinstance(obj, Opaque):
            return Opaque(f"{obj.what}.{n.attr}")
        return Bound(obj, n.attr)

    def subscript(self, n, obj, sl, env):
        if isinstance(sl, ast.Slice):
            if sl.step is not None:
                fail(n, "slice with a step")
            lo = self.ev(sl.lower, env) if sl.lower is not None else None
            hi = self.ev(sl.upper, env) if sl.upper is not None else None
            if isinstance(obj, (tuple, PyList)):
                items = obj if isinstance(obj, tuple) else obj.items
                if (lo is not None and not isinstance(lo, int)) or (hi is not None and not isinstance(hi, int)) or (isinstance(obj, PyList) and obj.sym):
                    fail(n, "symbolic slice of a sequence")
                return tuple(items[lo:hi]) if isinstance(obj, tuple) else PyList(items[lo:hi])
            if isinstance(obj, IdxVec):
                lo_e = C(0) if lo is None else as_expr(lo, n)
                return IdxVec(lambda j, f=obj.fn: f(add(lo_e, j)), None)
            fail(n, f"slice of {type(obj).__name__}")
        k = self.ev(sl, env)
        if isinstance(obj, Opaque):
            return Opaque(f"{obj.what}[…]")
        if isinstance(obj, tuple):
            if isinstance(k, int) and not isinstance(k, bool):
                return obj[k]
            fail(n, "tuple index that is not an integer literal")
        if isinstance(obj, PyList):
            if isinstance(k, int) and obj.sym is None:
                return obj.items[k]
            if isinstance(k, int) and obj.sym is not None:
                return vsubst(obj.sym[2], obj.sym[1], C(k) if k >= 0 else fail(n, "negative index into a symbolic list"))
            fail(n, "list index")
        if isinstance(obj, DefaultDict):
            if k not in obj:
                obj[k] = PyList()
                obj[k].depth = obj.depth
            return obj[k]
        if isinstance(obj, dict):
            if isinstance(k, (str, int)) and k in obj:
                return obj[k]
            fail(n, f"dict key {k!r}")
        if isinstance(obj, SymList):
            if obj.is_dict:
                if isinstance(k, AgentKey):
                    return obj.item if k.var == obj.var else vsubst(obj.item, obj.var, V(k.var))
                fail(n, "agent dictionary indexed by something that is not the loop's agent id")
            if isinstance(k, int) and k >= 0:
                return vsubst(obj.item, obj.var, C(k))
            fail(n, "symbolic list index")
        if isinstance(obj, GroupTable):
            return GroupSlot(obj)
        if isinstance(obj, Space):
            if obj.members is not None and (isinstance(k, (str, int))) and (k in obj.members if isinstance(obj.members, dict) else 0 <= k < len(obj.members)):
                return obj.members[k]
            fail(n, "member of a space")
        if isinstance(obj, Tn):
            if isinstance(k, IdxVec):
                return t_gather(n, obj, k)
            fail(n, "tensor subscript other than an index vector")
        fail(n, f"subscript of {type(obj).__name__}")

    def concrete_iter(self, node, v) -> list:
        if isinstance(v, (tuple, list)):
            return list(v)
        if isinstance(v, PyList) and v.sym is None:
            return list(v.items)
        if isinstance(v, dict):
            return list(v.keys())
        if isinstance(v, range):
            return list(v)
        fail(node, f"iteration over {type(v).__name__}")

    def sym_iter(self, v):
        """(n, var, item) if `v` is iterated symbolically"""
        if isinstance(v, SymList):
            return (v.n, v.var, AgentKey(v.var) if v.is_dict else v.item)
        if isinstance(v, PyList) and v.sym is not None:
            return v.sym
        return None

    def ev_call(self, n: ast.Call, env):
        args, kw = [], {}
        d, root = self.dotted(n.func) if isinstance(n.func, ast.Attribute) else (None, None)
        if isinstance(n.func, ast.Name) and n.func.id == "isinstance" and not env.has("isinstance"):
            if len(n.args) != 2:
                fail(n, "isinstance arity")
            v = self.ev(n.args[0], env)
            toks = n.args[1].elts if isinstance(n.args[1], ast.Tuple) else [n.args[1]]
            return any(self.is_a(n, v, ast.unparse(t)) for t in toks)
        for a in n.args:
            if isinstance(a, ast.Starred):
                args += self.concrete_iter(a, self.ev(a.value, env))
            else:
                args.append(self.ev(a, env))
        for k in n.keywords:
            if k.arg is None:
                fail(n, "**kwargs")
            kw[k.arg] = self.ev(k.value, env)
        if d is not None and not env.has(root):
            return self.ext(n, d, args, kw)
        return self.call(n, self.ev(n.func, env), args, kw)

    def comprehension(self, n, env):
        if len(n.generators) != 1 or n.generators[0].ifs or n.generators[0].is_async:
            fail(n, "comprehension with several generators or a condition")
        g = n.generators[0]
        it = self.ev(g.iter, env)
        sy = self.sym_iter(it)
        if sy is not None:
            nn, var, item = sy
            e2 = Env(env)
            self.bind(g.target, item, e2)
            self.symloops.append((nn, var))
            try:
                if isinstance(n, ast.DictComp):
                    k = self.ev(n.key, e2)
                    if not (isinstance(k, AgentKey) and k.var == var):
                        fail(n, "dict comprehension over the agents whose key is not the agent id")
                    return SymList(nn, var, self.ev(n.value, e2), True)
                r = PyList()
                r.sym = (nn, var, self.ev(n.elt, e2))
                return r
            finally:
                self.symloops.pop()
        if isinstance(it, Opaque):
            if isinstance(n, ast.DictComp) and isinstance(n.value, ast.Dict) and not n.value.keys:
                return GroupTable()
            fail(n, f"comprehension over {it.what}")
        items = self.concrete_iter(n, it)
        if isinstance(n, ast.DictComp):
            out = {}
            for x in items:
                e2 = Env(env)
                self.bind(g.target, x, e2)
                out[self.ev(n.key, e2)] = self.ev(n.value, e2)
            return out
        out = []
        for x in items:
            e2 = Env(env)
            self.bind(g.target, x, e2)
            out.append(self.ev(n.elt, e2))
        return PyList(out)

    # ---- statements
    def bind(self, tg, v, env: Env):
        if isinstance(tg, ast.Name):
            env.vars[tg.id] = v
            return
        if isinstance(tg, (ast.Tuple, ast.List)):
            items = self.concrete_iter(tg, v)
            if any(isinstance(e, ast.Starred) for e in tg.elts) or len(items) != len(tg.elts):
                fail(tg, f"unpacking {len(items)} values into {len(tg.elts)} targets")
            for e, x in zip(tg.elts, items):
                self.bind(e, x, env)
            return
        if isinstance(tg, ast.Subscript):
            obj = self.ev(tg.value, env)
            k = self.ev(tg.slice, env)
            if isinstance(obj, GroupSlot) and isinstance(k, AgentKey) and self.symloops and self.symloops[-1][1] == k.var:
                if obj.table.entry is not None:
                    fail(tg, "second store into the per-group agent dictionary")
                obj.table.entry = (self.symloops[-1][0], k.var, v)
                return
            if isinstance(obj, dict) and isinstance(k, (str, int)):
                obj[k] = v
                return
            fail(tg, "subscript store")
        fail(tg, "assignment target")

    def is_hook(self, st) -> bool:
        return isinstance(st, ast.If) and " ".join(ast.unparse(st.test).split()) == "verif_hooks.ENABLED" and not st.orelse

    def havoc(self, stmts, env: Env):
        """the advantage loop: rows are stored into tensors (layout kept), scalars become opaque"""
        for st in ast.walk(ast.Module(body=list(stmts), type_ignores=[])):
            if isinstance(st, ast.Name) and isinstance(st.ctx, ast.Load) and env.has(st.id):
                v = env.get(st.id)
                if isinstance(v, Tn) and v.origin is not None:
                    self.mats.setdefault(v.origin, v)
        for st in ast.walk(ast.Module(body=list(stmts), type_ignores=[])):
            if isinstance(st, (ast.Assign, ast.AugAssign)):
                for tg in (st.targets if isinstance(st, ast.Assign) else [st.target]):
                    if isinstance(tg, ast.Name):
                        env.vars[tg.id] = Opaque(f"{tg.id} (advantage loop)")
                    elif isinstance(tg, ast.Subscript) and isinstance(tg.value, ast.Name) and env.has(tg.value.id) \
                            and isinstance(env.get(tg.value.id), Tn):
                        self.assume(f"the advantage loop stores row t of `{tg.value.id}` from rows t of its inputs "
                                    "(per column, Proofs/GAEGenEq.lean)")
                    else:
                        fail(tg, "assignment target in the advantage loop")

    def block(self, stmts, env: Env, in_with=False):
        for st in stmts:
            if self.gather is not None and env is self.top_env:
                raise DoneEx()
            self.stmt(st, env, in_with)

    def stmt(self, st, env: Env, in_with: bool):
        if isinstance(st, ast.Expr):
            if isinstance(st.value, ast.Constant):
                return
            self.ev(st.value, env)
            return
        if isinstance(st, ast.Pass):
            return
        if isinstance(st, ast.Assign):
            v = self.ev(st.value, env)
            for tg in st.targets:
                self.bind(tg, v, env)
            if self.gather is not None and self.top_env is not None and self.top_depth(env):
                raise DoneEx()
            return
        if isinstance(st, ast.AnnAssign) and st.value is not None:
            self.bind(st.target, self.ev(st.value, env), env)
            return
        if isinstance(st, ast.AugAssign):
            if not isinstance(st.target, ast.Name):
                fail(st, "augmented assignment to a non-name")
            cur = env.get(st.target.id) if env.has(st.target.id) else fail(st, "augmented assignment to an unknown name")
            env.vars[st.target.id] = self.binop(st, cur, self.ev(st.value, env))
            return
        if isinstance(st, ast.Return):
            raise ReturnEx(self.ev(st.value, env) if st.value is not None else None)
        if isinstance(st, ast.Continue):
            raise ContinueEx()
        if isinstance(st, ast.Raise):
            fail(st, "the source raises on this input: " + " ".join(ast.unparse(st).split())[:120])
        if isinstance(st, ast.FunctionDef):
            env.vars[st.name] = FnVal(st, env, _file[0])
            return
        if isinstance(st, ast.If):
            if self.is_hook(st):
                return
            self.block(st.body if self.truth(st.test, self.ev(st.test, env)) else st.orelse, env, False)
            return
        if isinstance(st, ast.With):
            for it in st.items:
                if it.optional_vars is not None or " ".join(ast.unparse(it.context_expr).split()) != "torch.no_grad()":
                    fail(st, "`with` other than `with torch.no_grad():`")
            self.block(st.body, env, True)
            return
        if isinstance(st, ast.For):
            if st.orelse:
                fail(st, "for … else")
            it = self.ev(st.iter, env)
            if isinstance(it, SymRange):
                if in_with:
                    self.havoc(st.body, env)
                    return
                if not isinstance(st.target, ast.Name):
                    fail(st, "loop target of a symbolic range")
                env.vars[st.target.id] = SymInt(V(st.target.id)) if self.wants_var(st) else Opaque(st.target.id)
                self.block(st.body, env, False)
                return
            sy = self.sym_iter(it)
            if sy is not None:
                nn, var, item = sy
                self.bind(st.target, item, env)
                self.symloops.append((nn, var))
                try:
                    try:
                        self.block(st.body, env, False)
                    except ContinueEx:
                        pass
                finally:
                    self.symloops.pop()
                for x in ast.walk(st):
                    if isinstance(x, ast.Name) and isinstance(x.ctx, ast.Store) and x.id in env.vars:
                        env.vars[x.id] = Opaque(f"{x.id} (local of a symbolic loop)")
                return
            for x in self.concrete_iter(st, it):
                self.bind(st.target, x, env)
                try:
                    self.block(st.body, env, False)
                except ContinueEx:
                    continue
            return
        fail(st, type(st).__name__)

    top_env = None

    def top_depth(self, env) -> bool:
        return env is self.top_env

    def wants_var(self, st: ast.For) -> bool:
        """the loop variable of a symbolic range is kept symbolic only if a slice bound reads it"""
        nm = st.target.id
        for x in ast.walk(st):
            if isinstance(x, ast.Slice):
                for y in ast.walk(x):
                    if isinstance(y, ast.Name) and y.id == nm:
                        return True
        return False


def b_len(ip, node, args, kw):
    (v,) = args
    if isinstance(v, (tuple, dict)):
        return len(v)
    if isinstance(v, PyList):
        return SymInt(v.sym[0]) if v.sym is not None else len(v.items)
    if isinstance(v, SymList):
        return SymInt(v.n)
    if isinstance(v, Tn) and v.shape:
        return SymInt(v.shape[0]) if v.shape[0][0] != "c" else v.shape[0][1]
    if isinstance(v, IdxVec):
        return Opaque("len(index vector)")
    fail(node, f"len of {type(v).__name__}")


def b_range(ip, node, args, kw):
    if all(isinstance(a, int) and not isinstance(a, bool) for a in args):
        return range(*args)
    return SymRange()


def b_reversed(ip, node, args, kw):
    (v,) = args
    if isinstance(v, SymRange):
        return v
    fail(node, "reversed of something that is not a range")


def b_enumerate(ip, node, args, kw):
    (v,) = args
    return list(enumerate(ip.concrete_iter(node, v)))


def b_zip(ip, node, args, kw):
    return list(zip(*[ip.concrete_iter(node, a) for a in args]))


def b_tuple(ip, node, args, kw):
    if not args:
        return ()
    (v,) = args
    return tuple(ip.concrete_iter(node, v))


def b_list(ip, node, args, kw):
    if not args:
        return PyList()
    (v,) = args
    if isinstance(v, SymList) and v.is_dict:
        return SymList(v.n, v.var, AgentKey(v.var))
    return PyList(ip.concrete_iter(node, v))


def b_all(ip, node, args, kw):
    (v,) = args
    return all(ip.truth(node, x) for x in ip.concrete_iter(node, v))


def b_any(ip, node, args, kw):
    (v,) = args
    return any(ip.truth(node, x) for x in ip.concrete_iter(node, v))


def b_map(ip, node, args, kw):
    f, xs = args[0], args[1:]
    if len(xs) != 1:
        fail(node, "map over several iterables")
    return PyList([ip.call(node, f, [x], {}) for x in ip.concrete_iter(node, xs[0])])


def b_iter(ip, node, args, kw):
    return args[0]


def b_next(ip, node, args, kw):
    (v,) = args
    sy = ip.sym_iter(v)
    if sy is not None:
        return vsubst(sy[2], sy[1], C(0))
    items = ip.concrete_iter(node, v)
    if not items:
        fail(node, "next of an empty iterator")
    return items[0]


BUILTINS = {"len": b_len, "range": b_range, "reversed": b_reversed, "enumerate": b_enumerate, "zip": b_zip,
            "tuple": b_tuple, "list": b_list, "all": b_all, "any": b_any, "map": b_map, "iter": b_iter, "next": b_next}


# ---------------------------------------------------------------------------------------------- scenarios
def leaf(dims, coords: dict, kind="np", origin=None) -> Tn:
    """a per-step entry: `dims` = [(size expr, coordinate name)], extra fixed coordinates in `coords`"""
    names = [c for _, c in dims]

    def src(idx):
        d = dict(coords)
        for k, c in enumerate(names):
            d[c] = idx[k]
        return d

    return Tn([s for s, _ in dims], src, kind, None, origin)


T_, E_, A_ = V("T"), V("E"), V("A")


def obs_leaf(okind: str, vec: bool, fixed: dict, origin: str):
    env = [(E_, "e")] if vec else []
    fx = dict(fixed) if vec else {**fixed, "e": C(0)}
    box = leaf(env + [(V("F0"), "f")], fx, origin=origin)
    disc = leaf(env, fx, origin=origin) if vec else leaf([], fx, kind="number", origin=origin)
    if okind == "box":
        return box, Space("Box", [V("F0")])
    if okind == "dict":
        return {"k0": box, "k1": disc}, Space("Dict", members={"k0": Space("Box", [V("F0")]), "k1": Space("Discrete")})
    if okind == "tuple":
        return (box, disc), Space("Tuple", members=(Space("Box", [V("F0")]), Space("Discrete")))
    raise AssertionError(okind)


def act_leaf(akind: str, vec: bool, fixed: dict, origin: str):
    env = [(E_, "e")] if vec else []
    fx = dict(fixed) if vec else {**fixed, "e": C(0)}
    if akind == "box":
        return leaf(env + [(V("F1"), "f")], fx, origin=origin), Space("Box", [V("F1")])
    return (leaf(env, fx, origin=origin) if vec else leaf([], fx, kind="number", origin=origin)), Space("Discrete")


def scalar_leaf(vec: bool, fixed: dict, origin: str, number=False):
    if vec:
        return leaf([(E_, "e")], fixed, origin=origin)
    return leaf([], {**fixed, "e": C(0)}, kind="number" if number else "np", origin=origin)


SCENARIOS = {
    "PPO": [("Vec", "box", "box", True), ("VecDict", "dict", "disc", True), ("VecTuple", "tuple", "box", True),
            ("Flat", "box", "disc", False)],
    "IPPO": [("Vec", "box", "box", True), ("VecDisc", "dict", "disc", True), ("Flat", "box", "disc", False)],
}


def rollout(algo: str, okind: str, akind: str, vec: bool):
    """the eight experiences as the training loops hand them to learn(); returns (tuple, obs_space, action_space)"""
    fx = {"t": V("t")} if algo == "PPO" else {"a": V("a"), "t": V("t")}
    fxn = {"t": V("T")} if algo == "PPO" else {"a": V("a"), "t": V("T")}

    def steps(item):
        return SymList(T_, "t", item)

    st, ospace = obs_leaf(okind, vec, fx, "x0")
    ac, aspace = act_leaf(akind, vec, fx, "x1")
    nst, _ = obs_leaf(okind, vec, fxn, "x6")
    xs = [steps(st), steps(ac)] + [steps(scalar_leaf(vec, fx, f"x{k}", number=(k == 3))) for k in (2, 3, 4, 5)] + \
         [nst, scalar_leaf(vec, fxn, "x7")]
    if algo == "IPPO":
        xs = [SymList(A_, "a", x, True) for x in xs]
    return tuple(xs), ospace, aspace


class Module:
    def __init__(self, rel: str, src: str):
        self.rel = rel
        try:
            self.tree = ast.parse(src)
        except SyntaxError as e:
            raise Unsupported(f"{rel}:{e.lineno}: not parseable: {e.msg}") from e

    def functions(self, names) -> dict:
        out = {}
        for nm in names:
            fs = [f for f in self.tree.body if isinstance(f, ast.FunctionDef) and f.name == nm]
            if len(fs) != 1:
                raise Unsupported(f"{self.rel}: expected exactly one top-level function {nm}, found {len(fs)}")
            out[nm] = fs[0]
        return out

    def methods(self, cls: str) -> dict:
        cs = [c for c in self.tree.body if isinstance(c, ast.ClassDef) and c.name == cls]
        if len(cs) != 1:
            raise Unsupported(f"{self.rel}: expected exactly one top-level class {cls}, found {len(cs)}")
        return {f.name: f for f in cs[0].body if isinstance(f, ast.FunctionDef)}


COORD_ORDER = ("a", "t", "e", "f")


def coords_tuple(node_desc: str, d: dict, allowed: set) -> list:
    out = []
    for c in COORD_ORDER:
        if c in d:
            fv = free_vars(d[c]) - allowed
            if fv:
                raise Unsupported(f"{node_desc}: coordinate {c} still refers to the list position(s) {sorted(fv)} "
                                  "(a per-step / per-agent list was never stacked)")
            out.append(d[c])
    return out


def members(prefix: str, v):
    """flatten Dict / Tuple members: [(suffix, tensor)]"""
    if isinstance(v, Tn):
        return [(prefix, v)]
    if isinstance(v, dict):
        return [(f"{prefix}_{k}", x) for k, x in v.items()]
    if isinstance(v, tuple):
        return [(f"{prefix}_{k}", x) for k, x in enumerate(v)]
    raise Unsupported(f"element {prefix} handed to the minibatch loop is not a tensor ({type(v).__name__}"
                      f"{': ' + v.what if isinstance(v, Opaque) else ''})")


def run_scenario(algo: str, name: str, okind: str, akind: str, vec: bool, utils: Module, mod: Module) -> list[str]:
    assumptions: list[str] = []
    genv = Env()
    ip = Interp(genv, assumptions)
    for nm, fn in utils.functions(UTIL_FUNCS).items():
        genv.vars[nm] = FnVal(fn, genv, utils.rel)
    cls_env = Env(genv)
    cls = "PPO" if algo == "PPO" else "IPPO"
    meths = mod.methods(cls)
    for nm, fn in meths.items():
        cls_env.vars[nm] = FnVal(fn, genv, mod.rel, is_method=True)
    ip.cur_cls_env = cls_env
    xs, ospace, aspace = rollout(algo, okind, akind, vec)
    _file[0] = mod.rel
    if algo == "PPO":
        if "learn" not in meths:
            raise Unsupported(f"{mod.rel}: no method PPO.learn")
        fn = meths["learn"]
        call_args, call_kw = [xs], {}
    else:
        for m in ("assemble_shared_inputs", "_learn_individual"):
            if m not in meths:
                raise Unsupported(f"{mod.rel}: no method IPPO.{m}")
        shared = []
        ip.agents, ip.canonical_order = (xs[0].n, xs[0].var), False
        for x in xs:
            r = ip.call_fn(meths["assemble_shared_inputs"], cls_env.vars["assemble_shared_inputs"], [x], {})
            if not isinstance(r, GroupTable) or r.entry is None:
                raise Unsupported(f"{mod.rel}:{meths['assemble_shared_inputs'].lineno}: assemble_shared_inputs does not return the "
                                  "per-group dictionary it fills with `shared[group][agent_id] = …`")
            shared.append(SymList(r.entry[0], r.entry[1], r.entry[2], True))
        if ip.canonical_order:
            ip.assume("`learn` hands `_learn_individual` the k-th group of each of the eight dictionaries `assemble_shared_inputs` "
                      "returns.  NOT an assumption any more, it follows from the code: `assemble_shared_inputs` loops over "
                      "`self.agent_ids` (membership guard, entries looked up by key), so the agent coordinate `a` is the position "
                      "in the agent's own listing whatever key order each of the eight input dictionaries has")
        else:
            ip.assume("`learn` hands `_learn_individual` the k-th group of each of the eight dictionaries `assemble_shared_inputs` "
                      "returns; the agents of a group keep the order of the input dictionaries (ASSUMED to be the same in all "
                      "eight: the code iterates each input dictionary in its own key order)")
        ip.agents = None
        fn = meths["_learn_individual"]
        call_args = [tuple(shared)]
        call_kw = {"actor": Opaque("actor"), "critic": Opaque("critic"), "actor_optimizer": Opaque("actor_optimizer"),
                   "critic_optimizer": Opaque("critic_optimizer"), "obs_space": ospace, "action_space": aspace}
    # run the method body by hand so that the top-level environment is known
    a = fn.args
    env = Env(genv)
    env.vars[a.args[0].arg] = SelfObj()
    pnames = [x.arg for x in a.args[1:]]
    if a.vararg or a.kwarg or a.posonlyargs or a.kwonlyargs:
        fail(fn, f"signature of {cls}.{fn.name}")
    for k, nm in enumerate(pnames):
        if k < len(call_args):
            env.vars[nm] = call_args[k]
        elif nm in call_kw:
            env.vars[nm] = call_kw[nm]
        else:
            fail(fn, f"parameter {nm} of {cls}.{fn.name} is not one of the expected ones")
    ip.top_env = env
    try:
        ip.block(fn.body, env)
    except DoneEx:
        pass
    except ReturnEx:
        pass
    if ip.gather is None:
        fail(fn, f"{cls}.{fn.name} never indexes the experiences with an index vector (minibatch loop not found)")
    exps, res = ip.gather
    res = list(res) if isinstance(res, (tuple, list)) else (res.items if isinstance(res, PyList) else None)
    if res is None or len(exps) != 6 or len(res) != 6:
        fail(fn, f"the minibatch indexing takes {len(exps)} tensors (expected the six of states, actions, log_probs, "
                 "advantages, returns, values)")
    dims = ["T"] + (["E"] if vec else []) + (["A"] if algo == "IPPO" else []) + ["F0"] + (["F1"] if akind == "box" else [])
    dimsig = "(" + " ".join(dims) + " : Nat)"
    out = [f"namespace {name}", ""]
    allowed = set(dims) | {"row", "f", "g", "h", "j", "start", "t", "c"}
    ctype = {1: "Nat", 2: "Nat × Nat", 3: "Nat × Nat × Nat", 4: "Nat × Nat × Nat × Nat"}
    cdoc = "(a, t, e" if algo == "IPPO" else "(t, e"
    for k in range(6):
        for (sfx, tn), (_, bt) in zip(members(str(k), exps[k]), members(str(k), res[k])):
            if not isinstance(tn, Tn) or not isinstance(bt, Tn) or not tn.shape:
                fail(fn, f"element {k} handed to the minibatch loop is not a tensor of rank >= 1")
            idx, params = generic_index(tn, "row")
            cs = coords_tuple(f"{cls}.{name} element {sfx}", tn.src(idx), allowed)
            psig = "(" + " ".join(params) + " : Nat)"
            has_f = "f" in tn.src(idx)
            out.append(f"/-- rows of element {sfx} of the tuple handed to the minibatch loop -/")
            out.append(f"def rows{sfx} {dimsig} : Nat := {lean(tn.shape[0])}")
            out.append(f"/-- source coordinates {cdoc}{', f' if has_f else ''}) of entry `[{', '.join(params)}]` of element {sfx}; "
                       f"shape ({', '.join(lean(d) for d in tn.shape)}) -/")
            out.append(f"def src{sfx} {dimsig} {psig} : {ctype[len(cs)]} :=")
            out.append("  (" + ", ".join(lean(c) for c in cs) + ")")
            bidx, bparams = generic_index(bt, "j")
            bcs = coords_tuple(f"{cls}.{name} minibatch element {sfx}", bt.src(bidx), allowed | {"idx"})
            out.append(f"/-- the same for row `j` of the minibatch gathered by the index vector -/")
            out.append(f"def batch{sfx} (idx : Nat → Nat) (start : Nat) {dimsig} ({' '.join(bparams)} : Nat) : {ctype[len(bcs)]} :=")
            out.append("  (" + ", ".join(lean(c) for c in bcs) + ")")
            out.append("")
    for org in sorted(ip.mats):
        tn = ip.mats[org]
        if len(tn.shape) not in (1, 2):
            continue
        is_row = len(tn.shape) == 1 or tn.shape[0] == C(1)
        idx = [V("c")] if len(tn.shape) == 1 else [C(0), V("c")] if is_row else [V("t"), V("c")]
        d = tn.src(idx)
        cs = coords_tuple(f"{cls}.{name} matrix {org}", d, allowed)
        nm = ("vec_" if len(tn.shape) == 1 else "row_" if is_row else "mat_") + org
        out.append(f"/-- layout of the ({', '.join(lean(x) for x in tn.shape)}) tensor of {org} the advantage loop reads: "
                   f"source coordinates of {'column `c`' if is_row else 'entry `[t, c]`'} -/")
        out.append(f"def {nm} {dimsig} ({'c' if is_row else 't c'} : Nat) : {ctype[len(cs)]} :=")
        out.append("  (" + ", ".join(lean(c) for c in cs) + ")")
        out.append(f"def {nm}_cols {dimsig} : Nat := {lean(tn.shape[-1])}")
        out.append("")
    out.append("/- assumptions met on the way:")
    out += [f"   * {a}" for a in assumptions]
    out.append("-/")
    out += [f"end {name}", ""]
    return out


# ----------------------------------------------------------------------------------------------
def repo_dir(arg: str | None) -> Path:
    if arg:
        return Path(arg)
    return Path(os.environ.get("VERIF_REPO", "/repo"))


def translate(repo: Path) -> tuple[str, str]:
    """returns (lean text, sha256 over the three source files); raises Unsupported"""
    h = hashlib.sha256()
    mods = {}
    for rel in REL_SOURCES:
        path = Path(repo) / rel
        try:
            raw = path.read_bytes()
        except OSError as e:
            raise Unsupported(f"cannot read {path}: {e}") from e
        h.update(rel.encode() + b"\0" + raw + b"\0")
        mods[rel] = Module(rel, raw.decode("utf-8"))
    body: list[str] = ["namespace FlattenGen", ""]
    for algo, rel in (("PPO", REL_SOURCES[1]), ("IPPO", REL_SOURCES[2])):
        body += [f"namespace {algo}", ""]
        for name, okind, akind, vec in SCENARIOS[algo]:
            try:
                body += run_scenario(algo, name, okind, akind, vec, mods[REL_SOURCES[0]], mods[rel])
            except RecursionError as e:
                raise Unsupported(f"{rel}: scenario {algo}.{name}: the interpreted functions call each other without end") from e
            except Unsupported as e:
                raise Unsupported(f"scenario {algo}.{name}: {e}") from e
        body += [f"end {algo}", ""]
    sha = h.hexdigest()
    header = "\n".join([
        "/-",
        "  Gen/FlattenGen.lean — GENERATED by harness/py2lean_flatten.py by symbolic execution of the tensor re-layout",
        f"  code of `PPO.learn` ({REL_SOURCES[1]}), `IPPO.assemble_shared_inputs` / `IPPO._learn_individual`",
        f"  ({REL_SOURCES[2]}) and the helpers of {REL_SOURCES[0]} they call (stack_experiences,",
        "  flatten_experiences, get_experiences_samples, vectorize_experiences_by_agent,",
        "  concatenate_experiences_into_batches, …); do not edit.  Core Lean only.",
        "  `src<k> … row [f]` = source coordinates ([agent,] step, env[, feature]) of entry `[row, f]` of the k-th tensor",
        "  handed to the minibatch loop (0 states, 1 actions, 2 log_probs, 3 advantages, 4 returns, 5 values).",
        "  `Proofs/FlattenGenEq.lean` proves each map equal to `ppoUnflat` / `ippoUnflat` of `Model/GAE.lean`.",
        "-/",
        SHA_PREFIX + sha,
        "set_option linter.unusedVariables false",
        "",
    ])
    return header + "\n" + "\n".join(body).rstrip() + "\n\nend FlattenGen\n", sha


def strip_sha(text: str) -> str:
    return "\n".join(ln for ln in text.split("\n") if not ln.startswith(SHA_PREFIX))


def write_if_changed(text: str, out: Path, force: bool = False) -> bool:
    """writes `text` unless the file already holds the same translation (sha line ignored)"""
    out = Path(out)
    old = out.read_text() if out.exists() else None
    if old is not None and not force and strip_sha(old) == strip_sha(text):
        return False
    if old == text:
        return False
    out.parent.mkdir(parents=True, exist_ok=True)
    tmp = out.with_suffix(".lean.tmp")
    tmp.write_text(text)
    os.replace(tmp, out)
    return True


def main(argv: list[str]) -> int:
    import argparse
    ap = argparse.ArgumentParser()
    ap.add_argument("--repo", default=None)
    ap.add_argument("--out", default=str(DEFAULT_OUT))
    ap.add_argument("--stdout", action="store_true")
    ap.add_argument("--force", action="store_true", help="rewrite even if only the sha256 line differs")
    a = ap.parse_args(argv)
    try:
        text, sha = translate(repo_dir(a.repo))
    except Unsupported as e:
        print(f"py2lean_flatten: {e}", file=sys.stderr)
        return 1
    if a.stdout:
        sys.stdout.write(text)
        return 0
    changed = write_if_changed(text, Path(a.out), a.force)
    print(f"{a.out}: {'written' if changed else 'unchanged'} (source sha256 {sha[:16]}…, "
          f"translation sha256 {hashlib.sha256(strip_sha(text).encode()).hexdigest()[:16]}…)")
    return 0


if __name__ == "__main__":
    sys.exit(main(sys.argv[1:]))
