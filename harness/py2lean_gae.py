#!/usr/bin/env python3
"""
py2lean_gae.py — translate the generalised-advantage-estimation loop of `PPO.learn`
(REPO/agilerl/algorithms/ppo.py) and of `IPPO._learn_individual` (REPO/agilerl/algorithms/ippo.py)
into Lean 4.

    python3 harness/py2lean_gae.py [--repo DIR] [--out FILE] [--stdout] [--force]

Reads the *source text* only (Python `ast`; agilerl / torch are never imported) and writes
lean/Gen/GAEGen.lean (namespaces `GAEGen.PPO`, `GAEGen.IPPO`; core Lean only).
`Proofs/GAEGenEq.lean` proves the generated loop body and the generated loop equal to `loopBody` /
`gaeLoop` / `returnsOf` of the hand-written `Model/GAE.lean`; `Props/C17.lean` restates the C17
theorems over the generated definitions (`C17_source_translation_*`).

What is translated.  Inside the method, the translator locates *by structure* (no local name is
looked for):
  * the sequence S = the top-level statements of the method with every `with torch.no_grad():`
    block inlined;
  * THE LOOP = the one `for` statement that stands directly inside such a `with` block
    (none or several: Unsupported);
  * the state of the loop = the variables the body assigns that it reads before assigning them or
    that are read after the loop; each must have a definition before the loop (for `advantages`
    that is `torch.zeros_like(rewards).float()`, for `last_gae_lambda` the literal `0`);
  * THE END = the first statement after the loop of the form `name = A <op> B` that reads the tensor
    the loop stores into (`returns = advantages + values`); between the loop and it only the guarded
    recorder `if verif_hooks.ENABLED: verif_hooks.record(…)` and re-layouts `x = x.reshape(…)` may stand.
Every other name the loop or the end statement reads (`num_steps`, `rewards`, `dones`, `values`,
`next_value`, `next_done`) is *resolved backwards* through the straight-line statements before the loop
until an origin is reached; the origins become the parameters of the generated definitions, in a
canonical order that does not depend on local names or on the order of independent statements:
  * `self.<attr>`                               → `self_<attr> : Rat`     (sorted by attribute);
  * element k of the tuple unpacked from the method's experiences parameter (directly or through
    `stack_experiences(*experiences)`)             → `x<k>`                  (sorted by k);
  * the value of `self.critic(e)` / `critic(e)` (critic a parameter of the method), where the
    argument goes back to element k               → `critic_x<k> : Rat`.
`x<k>` is `List Rat` (a column of a `(num_steps, columns)` tensor, indexed by the step) when the code
subscripts it / takes `.size(0)` of it, and `Rat` (an entry of a `(1, columns)` row) when it uses it whole
in scalar arithmetic; the type is inferred and a conflict is Unsupported.

Per column.  Every tensor operation of the loop is element-wise over the column dimension (one column =
one parallel environment of one agent), so the translation is per column, as in `Model/GAE.lean`:
`X[e]` reads entry `e` of the column, `X[e] = v` writes it, `A + B` on whole tensors is entry-wise.

Supported subset (anything else raises `Unsupported` naming the construct and its line):
  * loop header `for <name> in reversed(range(<int expr>)):` or `for <name> in range(<int expr>):`
    (one argument; no `else`);
  * loop body statements: `x = e`, chained `a = b = e` (targets assigned left to right, `e` evaluated
    once), `X[i] = e` on a state tensor created by `torch.zeros_like` inside the translated range,
    `x op= e` (normalised to `x = x op e`), `if / elif / else` whose branches are such statements
    (a variable assigned in one branch only must exist before), `pass`, docstrings;
  * expressions: int and float literals (floats exactly, as rationals), names, `self.<attr>`, `X[i]`,
    `+ - *`, unary `-`, integer comparisons `== != < <= > >=` (chained), `and / or / not`,
    `torch.zeros_like(X)`, `X.size(0)`, `X.shape[0]`, `len(X)`;
  * before the loop (only the statements the loop depends on are looked at): plain, tuple and chained
    assignments, the column-identity forms below, the recorder `if verif_hooks.ENABLED:`.

Assumptions (the forms met are listed, with their source text, in the doc-comment of the generated
`gae`, so they flow from the AST as well):
  * identity on a column: `.float() .long() .double() .cpu() .detach() .clone() .contiguous() .to(…)`,
    `.squeeze()` (only on a `(1, columns)` row), `.reshape(1, -1)` (row), `.reshape(<int>, -1)` (keeps
    the step dimension), `.reshape(-1)` / `.reshape((-1,))` (flat layout; entry-wise arithmetic needs
    both operands in the same layout), `stack_experiences(*experiences)`,
    `vectorize_experiences_by_agent(·[, dim=…])` also under `map(…)`, `preprocess_observation(·, …)`,
    `self.preprocess_observation(·)`.  WHICH column of the IPPO matrices belongs to which agent /
    environment (the `dim=` of `vectorize_experiences_by_agent`, the flattening reshapes after the
    range: `reshape(num_steps, num_agents, -1).transpose(0, 1).reshape(-1)`, `flatten_experiences`,
    `concatenate_experiences_into_batches`) is torch reshaping, outside the subset; it is covered by the
    model's flatten maps and the provenance-coded correspondence run of harness/c17.py, not here;
  * floats are exact rationals (the correspondence run uses dyadic inputs where float = exact);
  * an index outside the tensor (Python: IndexError) reads 0 / writes nothing; negative indices wrap
    as in Python (`pyGet`, `pySet`); entry-wise arithmetic on columns of different length (torch:
    error) stops at the shorter one;
  * functions called before the loop do not mutate the rollout tensors in place; the recorder only
    copies; `torch.no_grad()` does not change values.

Shape of the output, per namespace (designed so that the equality proofs are `simp` + case split):
  * `gae_body <params> (s : <state tuple>) (t : Nat) : <state tuple>` — the loop body; the state
    tuple holds the state variables, tensors first, each group in order of first assignment in the body;
  * `gae <params> : List Rat × List Rat` — initial state, `(List.range n.toNat).reverse.foldl` (without
    `.reverse` for a plain `range`), the statements up to THE END; returns (the tensor the loop wrote,
    the variable THE END assigns);
  * Python ints are `Int` (the loop variable is a `Nat`, cast where used); locals are renamed
    canonically: state `s0, s1, …`, other locals `v0, v1, …` in order of first assignment, the loop
    variable `t`, `if` results `p0, p1, …`.
The header carries the sha256 of the two source files; `write_if_changed` compares everything *but*
that line, so a refactoring that leaves the translation unchanged does not touch the file.
"""
from __future__ import annotations

import ast
import hashlib
import os
import sys
from pathlib import Path

HERE = Path(__file__).resolve().parent
DEFAULT_OUT = HERE.parent / "lean" / "Gen" / "GAEGen.lean"
REL_SOURCES = ("agilerl/algorithms/ppo.py", "agilerl/algorithms/ippo.py")
REL_SOURCE = "agilerl/algorithms/{ppo,ippo}.py"          # used in messages only (common.translation_gate)
TARGETS = (("PPO", REL_SOURCES[0], "PPO", "learn"), ("IPPO", REL_SOURCES[1], "IPPO", "_learn_individual"))
SHA_PREFIX = "-- sha256(source) = "


class Unsupported(Exception):
    pass


_current_file = [REL_SOURCE]


def fail(node, what: str):
    line = getattr(node, "lineno", "?")
    raise Unsupported(f"{_current_file[0]}:{line}: unsupported construct: {what}")


NUM, INT, SCAL, LIST, BOOL = "num", "int", "scal", "list", "bool"
LEAN_TY = {INT: "Int", NUM: "Int", SCAL: "Rat", LIST: "List Rat"}
BINOPS = {ast.Add: "+", ast.Sub: "-", ast.Mult: "*"}
CMPOPS = {ast.Eq: "=", ast.NotEq: "≠", ast.Lt: "<", ast.LtE: "≤", ast.Gt: ">", ast.GtE: "≥"}
ID_METHODS = {"float", "long", "double", "cpu", "detach", "clone", "contiguous", "to"}
OBS_FUNCS = {"preprocess_observation", "vectorize_experiences_by_agent"}


def ind(lines: list[str], n: int = 2) -> list[str]:
    return [" " * n + ln for ln in lines]


def is_docstring(st) -> bool:
    return isinstance(st, ast.Expr) and isinstance(st.value, ast.Constant) and isinstance(st.value.value, str)


def rat_literal(x: float) -> str:
    n, dn = x.as_integer_ratio()
    if dn == 1:
        return f"({n} : Rat)" if n >= 0 else f"(({n}) : Rat)"
    return f"(mkRat {n} {dn})" if n >= 0 else f"(mkRat ({n}) {dn})"


def unparse(n) -> str:
    return " ".join(ast.unparse(n).split())


# ----------------------------------------------------------------------------------------------
class Param:
    """an origin = a parameter of the generated definitions; its type is inferred from the uses"""

    def __init__(self, key: tuple, name: str, ty: str | None):
        self.key, self.name, self.ty = key, name, ty
        self.link: Param | None = None

    def find(self) -> "Param":
        p = self
        while p.link is not None:
            p = p.link
        return p


def rty(t):
    """a type: one of the strings above, or a Param whose type is not known yet"""
    if isinstance(t, Param):
        p = t.find()
        return p.ty if p.ty is not None else p
    return t


class Val:
    """a translated expression: Lean text, type, layout of a tensor (`m` = (steps, columns) matrix, `flat`),
    fresh = a new tensor (not a view), opaque = which element of the experiences an observation goes back to,
    view_of = the tensor a row read `X[i]` is a view of"""

    def __init__(self, text: str, ty, layout: str | None = None, fresh: bool = False, opaque: str | None = None,
                 view_of: str | None = None):
        self.text, self.ty, self.layout, self.fresh, self.opaque, self.view_of = text, ty, layout, fresh, opaque, view_of

    def with_(self, **kw) -> "Val":
        v = Val(self.text, self.ty, self.layout, self.fresh, self.opaque, self.view_of)
        for k, x in kw.items():
            setattr(v, k, x)
        return v


# ----------------------------------------------------------------------------------------------
class FuncTranslator:
    def __init__(self, ns: str, rel: str, cls: str, meth: str, src: str):
        self.ns, self.rel, self.cls_name, self.meth_name = ns, rel, cls, meth
        _current_file[0] = rel
        mod = ast.parse(src)
        classes = [c for c in mod.body if isinstance(c, ast.ClassDef) and c.name == cls]
        if len(classes) != 1:
            raise Unsupported(f"{rel}: expected exactly one top-level class {cls}, found {len(classes)}")
        fns = [f for f in classes[0].body if isinstance(f, ast.FunctionDef) and f.name == meth]
        if len(fns) != 1:
            raise Unsupported(f"{rel}: expected exactly one method {cls}.{meth}, found {len(fns)}")
        self.fn = fns[0]
        a = self.fn.args
        if a.vararg or a.kwarg or a.posonlyargs or not a.args or a.args[0].arg != "self":
            fail(self.fn, f"signature of {cls}.{meth}")
        self.fn_params = [x.arg for x in a.args[1:] + a.kwonlyargs]
        self.params: dict[tuple, Param] = {}
        self.assumed: set[str] = set()
        self.locate()

    # ------------------------------------------------------------------ locating the range
    def is_no_grad(self, st) -> bool:
        if not isinstance(st, ast.With) or len(st.items) != 1 or st.items[0].optional_vars is not None:
            return False
        c = st.items[0].context_expr
        return isinstance(c, ast.Call) and not c.args and not c.keywords and isinstance(c.func, ast.Attribute) \
            and c.func.attr == "no_grad" and isinstance(c.func.value, ast.Name) and c.func.value.id == "torch"

    def is_hook(self, st) -> bool:
        """`if verif_hooks.ENABLED:` followed only by `verif_hooks.record(…)` calls"""
        def vh(n, attr):
            return isinstance(n, ast.Attribute) and n.attr == attr and isinstance(n.value, ast.Name) \
                and n.value.id == "verif_hooks"
        return isinstance(st, ast.If) and vh(st.test, "ENABLED") and not st.orelse and \
            all(isinstance(s, ast.Expr) and isinstance(s.value, ast.Call) and vh(s.value.func, "record") for s in st.body)

    def locate(self):
        seq, loops = [], []
        for st in self.fn.body:
            if self.is_no_grad(st):
                for s in st.body:
                    if self.is_no_grad(s):
                        fail(s, "nested `with torch.no_grad()`")
                    if isinstance(s, ast.For):
                        loops.append(len(seq))
                    seq.append(s)
            else:
                seq.append(st)
        if len(loops) != 1:
            fail(self.fn, f"{self.cls_name}.{self.meth_name}: expected exactly one `for` directly inside a top-level "
                          f"`with torch.no_grad():` block, found {len(loops)}")
        k = loops[0]
        self.pre, self.loop, self.post = seq[:k], seq[k], seq[k + 1:]

    # ------------------------------------------------------------------ parameters (origins)
    def param(self, key: tuple, name: str, ty: str | None) -> Param:
        if key not in self.params:
            self.params[key] = Param(key, name, ty)
        return self.params[key]

    final = False

    def ordered_params(self) -> list[Param]:
        rank = {"self": 0, "x": 1, "critic": 2}
        used = [p for p in self.params.values() if p.find().ty is not None]     # untyped = only passed on (observations)
        return sorted(used, key=lambda p: (rank[p.key[0]], p.key[1:]))

    # ------------------------------------------------------------------ types
    def join(self, node, a, b):
        a, b = rty(a), rty(b)
        ua, ub = isinstance(a, Param), isinstance(b, Param)
        if ua and ub:
            if a is not b:
                a.link = b
            return b
        if ua or ub:
            p, o = (a, b) if ua else (b, a)
            if o == NUM:
                return p
            if o in (SCAL, LIST):
                p.ty = o
                return o
            fail(node, f"tensor `{p.name}` combined with a value of type {o}")
        if a == b:
            return a
        if a == NUM and b in (INT, SCAL):
            return b
        if b == NUM and a in (INT, SCAL):
            return a
        fail(node, f"operands of different types ({a}, {b}); broadcasting a scalar over a whole tensor and mixing "
                   f"integers with tensor entries are outside the subset")

    def need(self, node, v: Val, want: str, what: str) -> Val:
        t = rty(v.ty)
        if isinstance(t, Param):
            if want in (SCAL, LIST):
                t.ty = want
                return v
            fail(node, f"{what}: tensor `{t.name}` where an integer is needed")
        if t == want or (t == NUM and want in (INT, SCAL)):
            return v
        fail(node, f"{what}: a value of type {t} where {want} is needed")

    # ------------------------------------------------------------------ backward resolution before the loop
    def stores_in(self, st, name: str) -> bool:
        return any(isinstance(n, ast.Name) and n.id == name and isinstance(n.ctx, (ast.Store, ast.Del))
                   for n in ast.walk(st))

    def resolve(self, name: str, pos: int, at) -> Val:
        """the value of local `name` just before statement `pos` of the straight-line prefix"""
        for i in range(pos - 1, -1, -1):
            st = self.pre[i]
            if is_docstring(st) or self.is_hook(st):
                continue
            if isinstance(st, ast.AugAssign):
                if isinstance(st.target, ast.Name) and st.target.id == name:
                    e = ast.copy_location(ast.BinOp(left=ast.copy_location(ast.Name(id=name, ctx=ast.Load()), st),
                                                    op=st.op, right=st.value), st)
                    return self.ex(e, lambda n, at_: self.resolve(n, i, at_))
                if self.base_name(st.target) == name:
                    fail(st, f"in-place update of `{name}` before the loop")
                continue
            if isinstance(st, ast.Assign):
                hit = None
                for tg in st.targets:                      # left to right: the last binding wins
                    if isinstance(tg, ast.Name):
                        if tg.id == name:
                            hit = ("whole", None)
                    elif isinstance(tg, (ast.Tuple, ast.List)):
                        for k, el in enumerate(tg.elts):
                            if isinstance(el, ast.Name):
                                if el.id == name:
                                    hit = ("elt", (k, len(tg.elts)))
                            elif self.stores_in(el, name) or self.base_name(el) == name:
                                fail(st, f"assignment target pattern binding `{name}`")
                    elif self.base_name(tg) == name:
                        fail(st, f"in-place store into `{name}` before the loop (aliasing is not modelled)")
                if hit is None:
                    continue
                look = lambda n, at_: self.resolve(n, i, at_)      # noqa: E731
                if hit[0] == "whole":
                    return self.ex(st.value, look)
                return self.unpack(st, st.value, hit[1][0], hit[1][1], look)
            if isinstance(st, ast.Expr):
                c = st.value
                if isinstance(c, ast.Call) and isinstance(c.func, ast.Attribute) and c.func.attr.endswith("_") \
                        and self.base_name(c.func.value) == name:
                    fail(st, f"in-place method `.{c.func.attr}` on `{name}` before the loop")
                continue
            if self.stores_in(st, name):
                fail(st, f"`{name}` is assigned inside a {type(st).__name__} statement before the loop")
        fail(at, f"name `{name}`: no assignment before the loop"
                 + (" (a parameter of the method used as a value)" if name in self.fn_params else ""))

    def base_name(self, n):
        while isinstance(n, (ast.Subscript, ast.Attribute)):
            n = n.value
        return n.id if isinstance(n, ast.Name) else None

    def unpack(self, st, value, k: int, n: int, look) -> Val:
        """element `k` of the `n`-tuple `value` is bound to the name we are resolving"""
        if isinstance(value, ast.Name) and value.id in self.fn_params:
            return self.origin(k)
        if isinstance(value, ast.Call) and isinstance(value.func, ast.Name) and value.func.id == "stack_experiences" \
                and len(value.args) == 1 and isinstance(value.args[0], ast.Starred) and not value.keywords \
                and isinstance(value.args[0].value, ast.Name) and value.args[0].value.id in self.fn_params:
            self.assumed.add(unparse(value))
            return self.origin(k)
        if isinstance(value, ast.Call) and isinstance(value.func, ast.Name) and value.func.id == "map" \
                and len(value.args) == 2 and not value.keywords and isinstance(value.args[0], ast.Name) \
                and value.args[0].id in OBS_FUNCS and isinstance(value.args[1], (ast.Tuple, ast.List)) \
                and len(value.args[1].elts) == n:
            self.assumed.add(f"map({value.args[0].id}, ·)")
            return self.ex(value.args[1].elts[k], look)
        if isinstance(value, (ast.Tuple, ast.List)) and len(value.elts) == n \
                and not any(isinstance(e, ast.Starred) for e in value.elts):
            return self.ex(value.elts[k], look)
        fail(st, f"tuple unpacking of `{unparse(value)[:60]}`")

    def origin(self, k: int) -> Val:
        p = self.param(("x", k), f"x{k}", None)
        return Val(p.name, p, layout="m", opaque=f"x{k}")

    # ------------------------------------------------------------------ expressions
    def ex(self, n, look, top: bool = False) -> Val:
        par = (lambda s: s) if top else (lambda s: f"({s})")
        if isinstance(n, ast.Constant):
            if type(n.value) is int:
                return Val(str(n.value) if n.value >= 0 else f"({n.value})", NUM)
            if type(n.value) is float:
                if n.value != n.value or abs(n.value) == float("inf"):
                    fail(n, f"float constant {n.value!r}")
                return Val(rat_literal(n.value), SCAL)
            fail(n, f"constant {n.value!r}")
        if isinstance(n, ast.Name):
            if not isinstance(n.ctx, ast.Load):
                fail(n, f"name {n.id} in a store context")
            return look(n.id, n)
        if isinstance(n, ast.Attribute):
            if isinstance(n.value, ast.Name) and n.value.id == "self":
                p = self.param(("self", n.attr), f"self_{n.attr}", SCAL)
                return Val(p.name, SCAL)
            fail(n, f"attribute `{unparse(n)}`")
        if isinstance(n, ast.UnaryOp) and isinstance(n.op, ast.USub):
            v = self.ex(n.operand, look)
            t = rty(v.ty)
            if t == BOOL:
                fail(n, "- <boolean>")
            if t == LIST:
                fail(n, "unary minus on a whole tensor")
            return Val(par(f"-{v.text}"), v.ty)
        if isinstance(n, ast.UnaryOp) and isinstance(n.op, ast.Not):
            v = self.ex(n.operand, look)
            if rty(v.ty) != BOOL:
                fail(n, "not <non-boolean>")
            return Val(par(f"¬ {v.text}"), BOOL)
        if isinstance(n, ast.BoolOp):
            vs = [self.ex(v, look) for v in n.values]
            if any(rty(v.ty) != BOOL for v in vs):
                fail(n, "non-boolean operand of and / or (Python would return an operand)")
            return Val(par((" ∧ " if isinstance(n.op, ast.And) else " ∨ ").join(v.text for v in vs)), BOOL)
        if isinstance(n, ast.Compare):
            parts, left = [], self.ex(n.left, look)
            for o, r in zip(n.ops, n.comparators):
                op = CMPOPS.get(type(o)) or fail(n, f"comparison {type(o).__name__}")
                right = self.ex(r, look)
                for v in (left, right):
                    if rty(v.ty) not in (INT, NUM):
                        fail(n, "comparison of non-integers (tensor comparisons are outside the subset)")
                parts.append(f"{self.as_int(left)} {op} {self.as_int(right)}")
                left = right
            return Val(par(" ∧ ".join(parts)), BOOL)
        if isinstance(n, ast.BinOp):
            op = BINOPS.get(type(n.op)) or fail(n, f"operator {type(n.op).__name__}")
            a, b = self.ex(n.left, look), self.ex(n.right, look)
            t = self.join(n, a.ty, b.ty)
            if rty(t) == BOOL:
                fail(n, "arithmetic on booleans")
            if rty(t) == LIST:
                if a.layout != b.layout:
                    fail(n, f"entry-wise `{op}` of tensors in different layouts ({a.layout}, {b.layout})")
                return Val(par(f"List.zipWith (fun a b => a {op} b) {a.text} {b.text}"), LIST, layout=a.layout, fresh=True)
            return Val(par(f"{a.text} {op} {b.text}"), t, fresh=True)
        if isinstance(n, ast.Subscript):
            if isinstance(n.value, ast.Attribute) and n.value.attr == "shape":
                return self.size0(n, n.value.value, n.slice, look, par)
            base = self.ex(n.value, look)
            base = self.need(n, base, LIST, f"`{unparse(n)}`")
            if base.layout != "m":
                fail(n, f"`{unparse(n)}`: row of a flattened tensor")
            if isinstance(n.slice, (ast.Slice, ast.Tuple)):
                fail(n, f"`{unparse(n)}`: slice / multi-dimensional index")
            i = self.ex(n.slice, look)
            if rty(i.ty) not in (INT, NUM):
                fail(n, f"`{unparse(n)}`: non-integer index")
            return Val(par(f"pyGet {base.text} {self.as_int(i)}"), SCAL, view_of=base.text)
        if isinstance(n, ast.Call):
            return self.call(n, look, par)
        fail(n, type(n).__name__)

    def as_int(self, v: Val) -> str:
        """text of an integer-valued expression, typed `Int` also when it is a bare literal"""
        return f"({v.text} : Int)" if rty(v.ty) == NUM else v.text

    def size0(self, n, tensor, dim, look, par) -> Val:
        if not (isinstance(dim, ast.Constant) and type(dim.value) is int and dim.value == 0):
            fail(n, f"`{unparse(n)}`: only the size of dimension 0 (the number of steps) is supported")
        v = self.need(n, self.ex(tensor, look), LIST, f"`{unparse(n)}`")
        if v.layout != "m":
            fail(n, f"`{unparse(n)}`: size of a flattened tensor")
        return Val(f"({v.text}.length : Int)", INT)

    def call(self, n: ast.Call, look, par) -> Val:
        f = n.func
        # torch.zeros_like(X)
        if isinstance(f, ast.Attribute) and isinstance(f.value, ast.Name) and f.value.id == "torch":
            if f.attr == "zeros_like" and len(n.args) == 1 and not n.keywords:
                v = self.ex(n.args[0], look)
                t = rty(v.ty)
                if t == LIST:
                    return Val(f"(List.replicate {v.text}.length 0)", LIST, layout=v.layout, fresh=True)
                if t == SCAL:
                    return Val("(0 : Rat)", SCAL, fresh=True)
                if isinstance(t, Param):                     # type not known yet (first pass)
                    return Val(f"(List.replicate {v.text}.length 0)", t, layout=v.layout, fresh=True)
                fail(n, f"torch.zeros_like of a value of type {t}")
            fail(n, f"call of `{unparse(f)}`")
        # len(X)
        if isinstance(f, ast.Name) and f.id == "len" and len(n.args) == 1 and not n.keywords:
            return self.size0(n, n.args[0], ast.Constant(value=0), look, par)
        # observation plumbing / regrouping: identity on a column
        if ((isinstance(f, ast.Name) and f.id in OBS_FUNCS) or
                (isinstance(f, ast.Attribute) and isinstance(f.value, ast.Name) and f.value.id == "self"
                 and f.attr in OBS_FUNCS)) and n.args and not isinstance(n.args[0], ast.Starred):
            v = self.ex(n.args[0], look)
            rest = [unparse(a) for a in n.args[1:]] + [f"{k.arg}={unparse(k.value)}" for k in n.keywords]
            self.assumed.add(f"{unparse(f)}({', '.join(['·'] + rest)})")
            return v
        # the critic
        is_critic = (isinstance(f, ast.Attribute) and isinstance(f.value, ast.Name) and f.value.id == "self"
                     and f.attr == "critic") or (isinstance(f, ast.Name) and f.id == "critic" and f.id in self.fn_params)
        if is_critic:
            if len(n.args) != 1 or n.keywords or isinstance(n.args[0], ast.Starred):
                fail(n, "critic call with other than one positional argument")
            v = self.ex(n.args[0], look)
            if v.opaque is None:
                fail(n, f"critic argument `{unparse(n.args[0])}` does not go back to an element of the experiences")
            p = self.param(("critic", v.opaque), f"critic_{v.opaque}", None)
            return Val(p.name, p, layout=None, opaque=None)
        # methods
        if isinstance(f, ast.Attribute):
            m = f.attr
            if m == "size":
                if len(n.args) != 1 or n.keywords:
                    fail(n, f"`{unparse(n)}`")
                return self.size0(n, f.value, n.args[0], look, par)
            if m in ID_METHODS:
                v = self.ex(f.value, look)
                if rty(v.ty) in (INT, NUM, BOOL):
                    fail(n, f"`.{m}()` on a non-tensor")
                self.assumed.add("." + unparse(n)[len(unparse(f.value)) + 1:])
                return v
            if m == "squeeze":
                if n.args or n.keywords:
                    fail(n, f"`{unparse(n)}` with arguments")
                v = self.need(n, self.ex(f.value, look), SCAL, "`.squeeze()` (would drop the step dimension of a "
                                                               "one-step tensor)")
                self.assumed.add(".squeeze()")
                return v
            if m == "reshape":
                return self.reshape(n, f, look)
        fail(n, f"call of `{unparse(f)}`")

    def reshape(self, n: ast.Call, f, look) -> Val:
        v = self.ex(f.value, look)
        args = list(n.args)
        if n.keywords:
            fail(n, f"`{unparse(n)}`")
        if len(args) == 1 and isinstance(args[0], (ast.Tuple, ast.List)):
            args = list(args[0].elts)

        def is_m1(a):
            return isinstance(a, ast.UnaryOp) and isinstance(a.op, ast.USub) and isinstance(a.operand, ast.Constant) \
                and a.operand.value == 1
        suffix = "." + unparse(n)[len(unparse(f.value)) + 1:]
        if len(args) == 1 and is_m1(args[0]):
            v = self.need(n, v, LIST, f"`{suffix}`")
            self.assumed.add(suffix)
            return v.with_(layout="flat")
        if len(args) == 2 and is_m1(args[1]):
            if isinstance(args[0], ast.Constant) and type(args[0].value) is int and args[0].value == 1:
                v = self.need(n, v, SCAL, f"`{suffix}`")
                self.assumed.add(suffix)
                return v
            d0 = self.ex(args[0], look)
            if rty(d0.ty) != INT:
                fail(n, f"`{suffix}`: first dimension is not an integer variable")
            v = self.need(n, v, LIST, f"`{suffix}`")
            self.assumed.add(suffix)
            return v.with_(layout="m")
        fail(n, f"`{suffix}` (only (1, -1), (<steps>, -1), (-1,) are identity on a column)")

    # ------------------------------------------------------------------ the loop
    def assigned(self, stmts) -> list[str]:
        """names the statements (re)bind or store into, in order of first occurrence"""
        out: list[str] = []

        def add(x):
            if x not in out:
                out.append(x)

        def visit(sts):
            for st in sts:
                if isinstance(st, ast.Assign):
                    for tg in st.targets:
                        self.check_target(tg)
                        add(tg.id if isinstance(tg, ast.Name) else self.base_name(tg))
                elif isinstance(st, ast.AugAssign):
                    self.check_target(st.target)
                    add(st.target.id if isinstance(st.target, ast.Name) else self.base_name(st.target))
                elif isinstance(st, ast.If):
                    visit(st.body)
                    visit(st.orelse)
                elif isinstance(st, ast.Pass) or is_docstring(st):
                    pass
                else:
                    fail(st, f"{type(st).__name__} statement inside the loop")
        visit(stmts)
        return out

    def check_target(self, tg):
        if isinstance(tg, ast.Name):
            return
        if isinstance(tg, ast.Subscript) and isinstance(tg.value, ast.Name) \
                and not isinstance(tg.slice, (ast.Slice, ast.Tuple)):
            return
        fail(tg, f"assignment target `{unparse(tg)}`")

    def exposed_reads(self, stmts) -> set[str]:
        """names read before they are definitely assigned"""
        reads: set[str] = set()

        def names(e) -> set[str]:
            return {n.id for n in ast.walk(e) if isinstance(n, ast.Name) and isinstance(n.ctx, ast.Load)}

        def visit(sts, defined: set[str]) -> set[str]:
            defined = set(defined)
            for st in sts:
                if isinstance(st, ast.Assign):
                    reads.update(names(st.value) - defined)
                    for tg in st.targets:
                        if isinstance(tg, ast.Name):
                            defined.add(tg.id)
                        else:                                    # X[i] = v reads X and i
                            reads.update(({self.base_name(tg)} | names(tg.slice)) - defined)
                elif isinstance(st, ast.AugAssign):
                    reads.update((names(st.value) | {self.base_name(st.target)}) - defined)
                    if isinstance(st.target, ast.Subscript):
                        reads.update(names(st.target.slice) - defined)
                    else:
                        defined.add(st.target.id)
                elif isinstance(st, ast.If):
                    reads.update(names(st.test) - defined)
                    a, b = visit(st.body, defined), visit(st.orelse, defined)
                    defined |= (a & b)
            return defined
        visit(stmts, set())
        return reads

    def run_once(self) -> list[str]:
        loop = self.loop
        if loop.orelse:
            fail(loop, "for … else")
        if not isinstance(loop.target, ast.Name):
            fail(loop, "loop target other than a single name")
        for n in ast.walk(loop):
            if isinstance(n, (ast.Break, ast.Continue, ast.Return, ast.While, ast.Yield, ast.Await)) or \
                    (isinstance(n, ast.For) and n is not loop):
                fail(n, f"{type(n).__name__.lower()} inside the loop")
        tvar = loop.target.id
        it, reverse = loop.iter, False
        if isinstance(it, ast.Call) and isinstance(it.func, ast.Name) and it.func.id == "reversed" \
                and len(it.args) == 1 and not it.keywords:
            it, reverse = it.args[0], True
        if not (isinstance(it, ast.Call) and isinstance(it.func, ast.Name) and it.func.id == "range"
                and len(it.args) == 1 and not it.keywords and not isinstance(it.args[0], ast.Starred)):
            fail(loop, f"loop over `{unparse(loop.iter)}` (only range(n) / reversed(range(n)))")
        npre = len(self.pre)
        before = lambda nm, at: self.resolve(nm, npre, at)          # noqa: E731
        bound = self.ex(it.args[0], before, top=True)
        if rty(bound.ty) not in (INT, NUM):
            fail(loop, "range(<non-integer>)")

        body = [s for s in loop.body if not is_docstring(s) and not isinstance(s, ast.Pass)]
        assigned = self.assigned(body)
        if tvar in assigned:
            fail(loop, f"the loop variable `{tvar}` is assigned inside the loop")
        stored = []                                    # tensors the body stores rows into
        for n in ast.walk(loop):
            tgs = n.targets if isinstance(n, ast.Assign) else [n.target] if isinstance(n, ast.AugAssign) else []
            for tg in tgs:
                if isinstance(tg, ast.Subscript) and self.base_name(tg) not in stored:
                    stored.append(self.base_name(tg))
        if len(stored) != 1:
            fail(loop, f"the loop stores rows into {len(stored)} tensors (exactly one is supported)")
        out_tensor = stored[0]

        # THE END and what stands between the loop and it
        end_idx = None
        for j, st in enumerate(self.post):
            if self.is_hook(st):
                continue
            if isinstance(st, ast.Assign) and len(st.targets) == 1 and isinstance(st.targets[0], ast.Name):
                tg, v = st.targets[0].id, st.value
                if isinstance(v, ast.BinOp) and out_tensor in {x.id for x in ast.walk(v) if isinstance(x, ast.Name)}:
                    end_idx = j
                    break
                if isinstance(v, ast.Call) and isinstance(v.func, ast.Attribute) and v.func.attr == "reshape" \
                        and isinstance(v.func.value, ast.Name) and v.func.value.id == tg:
                    continue
            fail(st, f"statement between the loop and the statement that combines `{out_tensor}` with the values: "
                     f"`{unparse(st)[:70]}`")
        if end_idx is None:
            fail(loop, f"no statement `name = {out_tensor} <op> …` after the loop")
        end_st = self.post[end_idx]
        after_reads = {n.id for st in self.post[:end_idx + 1] if not self.is_hook(st)
                       for n in ast.walk(st) if isinstance(n, ast.Name) and isinstance(n.ctx, ast.Load)}

        exposed = self.exposed_reads(body)
        state = [x for x in assigned if x in exposed or x in after_reads or x == out_tensor]
        loop_locals = [x for x in assigned if x not in state]

        # initial values of the state variables
        init = {}
        for x in state:
            try:
                init[x] = self.resolve(x, npre, loop)
            except Unsupported as e:
                if "no assignment before the loop" in str(e):
                    fail(loop, f"`{x}` is assigned inside the loop, may be read before that assignment (or is read after "
                               f"the loop) and has no definition before the loop")
                raise
        t0 = rty(init[out_tensor].ty)
        if not init[out_tensor].fresh or not (t0 == LIST or isinstance(t0, Param)):
            fail(loop, f"`{out_tensor}` (stored into by the loop) is not a tensor created by torch.zeros_like before the "
                       f"loop (aliasing is not modelled)")
        types = {x: init[x].ty for x in state}
        lines_body: list[str] = []
        order = state
        for _ in range(4):
            order = sorted(state, key=lambda x: (0 if rty(types[x]) == LIST else 1, assigned.index(x)))
            canon = {x: f"s{i}" for i, x in enumerate(order)}
            for i, x in enumerate(loop_locals):
                canon[x] = f"v{i}"
            ctx = BodyCtx(self, canon, tvar, before, out_tensor)
            for x in order:
                ctx.vars[x] = Val(canon[x], types[x], layout=init[x].layout, fresh=init[x].fresh)
            lines_body = ctx.block(body)
            new = {x: self.join(loop, types[x], ctx.vars[x].ty) for x in state}
            if [rty(new[x]) for x in state] == [rty(types[x]) for x in state]:
                break
            types = new
        else:
            fail(loop, "types of the loop state do not settle")

        lty = lambda t: self.lty(loop, t)            # noqa: E731
        st_ty = " × ".join(lty(types[x]) for x in order)
        n = len(order)

        def proj(i):
            if n == 1:
                return "s"
            return "s" + ".2" * i + (".1" if i < n - 1 else "")
        plist = self.ordered_params()
        sig = "".join(f" ({p.name} : {lty(p)})" for p in plist)
        pargs = "".join(f" {p.name}" for p in plist)
        unpack = [f"let {canon[x]} : {lty(types[x])} := {proj(i)}" for i, x in enumerate(order)]
        tup = "(" + ", ".join(canon[x] for x in order) + ")" if n > 1 else canon[order[0]]
        out = [f"/-- body of the `for` loop of `{self.cls_name}.{self.meth_name}`; state: "
               + ", ".join(f"`{canon[x]}`" for x in order)
               + f" (tensors first, then in order of first assignment); `t` is the loop variable -/",
               f"def gae_body{sig} (s : {st_ty}) (t : Nat) : {st_ty} :="]
        out += ind(unpack + lines_body + [tup]) + [""]

        # the whole range
        glines = []
        for x in order:
            v = init[x]
            txt = v.text
            if rty(types[x]) == SCAL and rty(v.ty) == NUM:
                txt = f"({v.text} : Rat)"
            glines.append(f"let {canon[x]} : {lty(types[x])} := {txt}")
        rng = f"(List.range ({self.as_int(bound)}).toNat)" + (".reverse" if reverse else "")
        glines.append(f"let s : {st_ty} := {rng}.foldl (gae_body{pargs}) {tup}")
        glines += unpack
        # statements after the loop
        post_vars: dict[str, Val] = {x: Val(canon[x], types[x], layout=init[x].layout, fresh=init[x].fresh) for x in order}

        def after(nm, at):
            if nm in post_vars:
                return post_vars[nm]
            if nm in loop_locals or nm == tvar:
                fail(at, f"`{nm}` (assigned only inside the loop) read after the loop")
            return before(nm, at)
        for st in self.post[:end_idx]:
            if self.is_hook(st):
                self.assumed.add("if verif_hooks.ENABLED: verif_hooks.record(…)")
                continue
            nm = st.targets[0].id
            post_vars[nm] = self.ex(st.value, after)            # x = x.reshape(…): same column, new layout
        res = self.ex(end_st.value, after, top=True)
        if rty(res.ty) != LIST:
            fail(end_st, f"`{unparse(end_st)[:60]}` is not entry-wise arithmetic on whole tensors")
        nv = len(loop_locals)
        glines.append(f"let v{nv} : List Rat := {res.text}")
        glines.append(f"({canon[out_tensor]}, v{nv})")
        assumed = "; ".join(f"`{a}`" for a in sorted(self.assumed))
        out += [f"/-- the range of `{self.cls_name}.{self.meth_name}` from the definitions of the loop state to the statement "
                f"that adds the values: (tensor written by the loop, result of that statement).",
                f"    Parameters: " + ", ".join(self.describe(p) for p in plist) + ".",
                f"    Assumed identity on a column / without effect on the values: {assumed} -/",
                f"def gae{sig} : List Rat × List Rat :="]
        out += ind(glines) + [""]
        return out

    def lty(self, node, t) -> str:
        t = rty(t)
        if isinstance(t, Param):
            if self.final:
                fail(node, f"cannot tell whether `{t.name}` is a per-step tensor or a row (it is only copied)")
            return "?"
        return LEAN_TY[t]

    def describe(self, p: Param) -> str:
        if p.key[0] == "self":
            return f"`{p.name}` = `self.{p.key[1]}`"
        if p.key[0] == "x":
            return f"`{p.name}` = element {p.key[1]} of the experiences"
        return f"`{p.name}` = the critic's value of `{p.key[1]}`"

    def run(self) -> list[str]:
        _current_file[0] = self.rel
        self.final = False
        self.run_once()                                 # first pass: infers the parameter types
        self.assumed = set()
        self.final = True
        lines = self.run_once()
        return [f"namespace {self.ns}", ""] + lines + [f"end {self.ns}", ""]


class BodyCtx:
    """translation of the statements of the loop body"""

    def __init__(self, ft: FuncTranslator, canon: dict, tvar: str, before, out_tensor: str):
        self.ft, self.canon, self.tvar, self.before, self.out_tensor = ft, canon, tvar, before, out_tensor
        self.vars: dict[str, Val] = {}
        self.np = 0          # `if` results p0, p1, …
        self.nc = 0          # values of chained assignments c0, c1, …

    def look(self, nm, at) -> Val:
        if nm == self.tvar:
            return Val("(t : Int)", INT)
        if nm in self.vars:
            return self.vars[nm]
        if nm in self.canon:
            fail(at, f"`{nm}` may be read before it is assigned")
        return self.before(nm, at)

    def lty(self, t) -> str:
        return self.ft.lty(self.ft.loop, t)

    def bind(self, st, nm: str, v: Val) -> list[str]:
        t = rty(v.ty)
        if t == BOOL:
            fail(st, "boolean local variable")
        if t == LIST:
            fail(st, f"`{nm}` is bound to a whole tensor inside the loop")
        if v.view_of is not None and v.view_of == self.canon.get(self.out_tensor):
            fail(st, f"`{nm}` is a view of the tensor the loop writes (aliasing is not modelled)")
        self.vars[nm] = Val(self.canon[nm], v.ty)
        return [f"let {self.canon[nm]} : {self.lty(v.ty)} := {v.text}"]

    def store(self, st, tg: ast.Subscript, v: Val) -> list[str]:
        nm = tg.value.id
        if nm not in self.vars or not self.vars[nm].fresh:
            fail(st, f"row store into `{nm}`, which is not a tensor created by torch.zeros_like in the translated range")
        cur = self.ft.need(st, self.vars[nm], LIST, f"`{unparse(tg)} = …`")
        i = self.ft.ex(tg.slice, self.look)
        if rty(i.ty) not in (INT, NUM):
            fail(st, f"`{unparse(tg)}`: non-integer index")
        v = self.ft.need(st, v, SCAL, f"`{unparse(tg)} = …`")
        c = self.canon[nm]
        self.vars[nm] = cur.with_(text=c)
        return [f"let {c} : List Rat := pySet {cur.text} {self.ft.as_int(i)} {v.text}"]

    def block(self, stmts) -> list[str]:
        out: list[str] = []
        for st in stmts:
            if is_docstring(st) or isinstance(st, ast.Pass):
                continue
            if isinstance(st, ast.AugAssign):
                tg = st.target
                load = ast.copy_location(ast.Name(id=tg.id, ctx=ast.Load()), tg) if isinstance(tg, ast.Name) else \
                    ast.copy_location(ast.Subscript(value=tg.value, slice=tg.slice, ctx=ast.Load()), tg)
                st = ast.copy_location(ast.Assign(targets=[tg], value=ast.copy_location(
                    ast.BinOp(left=load, op=st.op, right=st.value), st)), st)
            if isinstance(st, ast.Assign):
                v = self.ft.ex(st.value, self.look, top=True)
                if len(st.targets) > 1:
                    # chained assignment: the value is evaluated once, then the targets are assigned left to right
                    tmp = f"c{self.nc}"
                    self.nc += 1
                    out.append(f"let {tmp} : {self.lty(v.ty)} := {v.text}")
                    v = v.with_(text=tmp)
                for tg in st.targets:
                    if isinstance(tg, ast.Name):
                        out += self.bind(st, tg.id, v)
                    else:
                        out += self.store(st, tg, v)
                continue
            if isinstance(st, ast.If):
                out += self.if_(st)
                continue
            fail(st, f"{type(st).__name__} statement inside the loop")
        return out

    def if_(self, st: ast.If) -> list[str]:
        c = self.ft.ex(st.test, self.look, top=True)
        if rty(c.ty) != BOOL:
            fail(st, "if <non-boolean> (truth value of a number / tensor)")
        names = self.ft.assigned(list(st.body) + list(st.orelse))
        snap = dict(self.vars)
        a = self.block(st.body)
        va = self.vars
        self.vars = dict(snap)
        b = self.block(st.orelse)
        vb = self.vars
        tys = []
        for nm in names:
            if nm not in va or nm not in vb:
                fail(st, f"`{nm}` is assigned in one branch only and does not exist before the `if`")
            tys.append(self.ft.join(st, va[nm].ty, vb[nm].ty))
        tup_a = ", ".join(va[nm].text for nm in names)
        tup_b = ", ".join(vb[nm].text for nm in names)
        self.vars = dict(snap)
        if len(names) == 1:
            nm = names[0]
            cn = self.canon[nm]
            out = [f"let {cn} : {self.lty(tys[0])} :=", f"  if {c.text} then"] + ind(a + [tup_a], 4) + ["  else"] + \
                ind(b + [tup_b], 4)
            self.vars[nm] = (va[nm] if rty(va[nm].ty) == LIST else Val(cn, tys[0])).with_(text=cn, ty=tys[0])
            return out
        p = f"p{self.np}"
        self.np += 1
        pty = " × ".join(self.lty(t) for t in tys)
        out = [f"let {p} : {pty} :=", f"  if {c.text} then"] + ind(a + [f"({tup_a})"], 4) + ["  else"] + \
            ind(b + [f"({tup_b})"], 4)
        k = len(names)
        for i, nm in enumerate(names):
            cn = self.canon[nm]
            pr = p + ".2" * i + (".1" if i < k - 1 else "")
            out.append(f"let {cn} : {self.lty(tys[i])} := {pr}")
            self.vars[nm] = (va[nm] if rty(va[nm].ty) == LIST else Val(cn, tys[i])).with_(text=cn, ty=tys[i])
        return out


PRELUDE = [
    "namespace GAEGen",
    "",
    "/-- Python `l[i]` on one column of a tensor: negative indices count from the end; outside the list",
    "    (Python: IndexError) the value is 0 -/",
    "def pyGet (l : List Rat) (i : Int) : Rat :=",
    "  if 0 ≤ i then l.getD i.toNat 0",
    "  else if -i ≤ (l.length : Int) then l.getD (l.length - (-i).toNat) 0",
    "  else 0",
    "",
    "/-- Python `l[i] = v` on one column of a tensor (outside the list: unchanged) -/",
    "def pySet (l : List Rat) (i : Int) (v : Rat) : List Rat :=",
    "  if 0 ≤ i then l.set i.toNat v",
    "  else if -i ≤ (l.length : Int) then l.set (l.length - (-i).toNat) v",
    "  else l",
    "",
]


# ----------------------------------------------------------------------------------------------
def repo_dir(arg: str | None) -> Path:
    if arg:
        return Path(arg)
    return Path(os.environ.get("VERIF_REPO", "/repo"))


def translate(repo: Path) -> tuple[str, str]:
    """returns (lean text, sha256 over the two source files); raises Unsupported"""
    h = hashlib.sha256()
    body: list[str] = list(PRELUDE)
    for ns, rel, cls, meth in TARGETS:
        path = Path(repo) / rel
        try:
            raw = path.read_bytes()
        except OSError as e:
            raise Unsupported(f"cannot read {path}: {e}") from e
        h.update(rel.encode() + b"\0" + raw + b"\0")
        try:
            body += FuncTranslator(ns, rel, cls, meth, raw.decode("utf-8")).run()
        except SyntaxError as e:
            raise Unsupported(f"{rel}:{e.lineno}: not parseable: {e.msg}") from e
        except RecursionError as e:
            raise Unsupported(f"{rel}: definitions before the loop refer to each other without end") from e
    sha = h.hexdigest()
    header = "\n".join([
        "/-",
        "  Gen/GAEGen.lean — GENERATED by harness/py2lean_gae.py from the advantage-estimation loop of",
        f"  `PPO.learn` ({REL_SOURCES[0]}) and `IPPO._learn_individual` ({REL_SOURCES[1]});",
        "  do not edit.  Core Lean only.  One column = one parallel environment of one agent.",
        "  `Proofs/GAEGenEq.lean` proves each definition equal to its counterpart in `Model/GAE.lean`.",
        "-/",
        SHA_PREFIX + sha,
        "set_option linter.unusedVariables false",
        "",
    ])
    return header + "\n" + "\n".join(body).rstrip() + "\n\nend GAEGen\n", sha


def strip_sha(text: str) -> str:
    return "\n".join(ln for ln in text.split("\n") if not ln.startswith(SHA_PREFIX))


def write_if_changed(text: str, out: Path, force: bool = False) -> bool:
    """writes `text` unless the file already holds the same translation (sha line ignored)"""
    out = Path(out)
    old = out.read_text() if out.exists() else None
    if old is not None and not force and strip_sha(old) == strip_sha(text):
        return False
    if old == text:
        return False
    out.parent.mkdir(parents=True, exist_ok=True)
    tmp = out.with_suffix(".lean.tmp")
    tmp.write_text(text)
    os.replace(tmp, out)
    return True


def main(argv: list[str]) -> int:
    import argparse
    ap = argparse.ArgumentParser()
    ap.add_argument("--repo", default=None)
    ap.add_argument("--out", default=str(DEFAULT_OUT))
    ap.add_argument("--stdout", action="store_true")
    ap.add_argument("--force", action="store_true", help="rewrite even if only the sha256 line differs")
    a = ap.parse_args(argv)
    try:
        text, sha = translate(repo_dir(a.repo))
    except Unsupported as e:
        print(f"py2lean_gae: {e}", file=sys.stderr)
        return 1
    if a.stdout:
        sys.stdout.write(text)
        return 0
    changed = write_if_changed(text, Path(a.out), a.force)
    print(f"{a.out}: {'written' if changed else 'unchanged'} (source sha256 {sha[:16]}…, "
          f"translation sha256 {hashlib.sha256(strip_sha(text).encode()).hexdigest()[:16]}…)")
    return 0


if __name__ == "__main__":
    sys.exit(main(sys.argv[1:]))
