#!/usr/bin/env python3
"""
py2lean_hpmut.py — translate `RLParameter.mutate` and `HyperparameterConfig.sample` of
REPO/agilerl/algorithms/core/registry.py into Lean 4.

    python3 harness/py2lean_hpmut.py [--repo DIR] [--out FILE] [--stdout] [--force]

Reads the *source text* only (Python `ast`; agilerl is never imported) and writes
lean/Gen/HpMutGen.lean (namespace HpMutGen, core Lean only, imports nothing).
`Proofs/HpMutGenEq.lean` proves the generated definitions equal to the hand-written model functions
`HpMut.mutate1` / `HpMut.sample` of `Model/HpMut.lean`, and `Props/C06.lean` restates the C06 theorems
over the generated definitions (`C06_source_translation_*`), so they are re-checked against what the
code says now.

What is read of the file (everything else in registry.py is outside the translated range):
  * `@dataclass class RLParameter`: its annotated fields, in declaration order (defaults are not part
    of the methods and are ignored), and the method `mutate(self)`;
  * `class HyperparameterConfig`: the statement `self.config = <the ** parameter>` of `__init__` (it
    fixes the type of the field: a `dict`; no other statement of the class may assign `self.config`),
    and the method `sample(self)`.

Supported subset (anything else raises `Unsupported` naming the construct and its line):
  * field annotations: `float` / `int` / `Number` (→ `Rat`: numbers are exact rationals),
    `Optional[float|int|Number]` (→ `Option Rat`), `Union[Type[float], Type[int]]` or `Type[float]` /
    `Type[int]` (→ the generated enumeration `RLParameter.DType`, one constructor per listed member, and
    `DType.apply` = the builtin conversion `float(x)` = `x` / `int(x)` = truncation toward zero);
  * methods without parameters other than `self`, without decorators;
  * statements: docstring, `x = e`, `self.f = e`, `x op= e` (normalised to `x = x op e`),
    `assert X is not None[, msg]` for an Optional field / local X (→ `match X with | none => none |
    some X => …`), `assert e[, msg]` (→ `if e then … else none`), `return e` (in tail position),
    `if / elif / else` — either every branch returns, or the statement is followed by others and its
    branches only assign: the variables / fields assigned in a branch are joined
    (`let x := if c then <branch; x> else <branch; x>`; several variables: a tuple), a variable that is
    new after the `if` must be assigned on every path of both branches;
  * expressions: int / float literals (a float literal becomes its exact dyadic value `(n : Rat) / d`),
    locals, `self.f`, `+ - *` and `/` (guarded: divisor ≠ 0, else `none`) on numbers, unary `-`,
    comparisons `< <= > >= == !=` (chained), `and / or / not`, `a if c else b`, tuples,
    `min(a, b)` / `max(a, b)` (exactly two positional arguments; → the prelude's `pyMin` / `pyMax`, which
    return the FIRST argument unless the second is strictly smaller / larger, as CPython does),
    `int(x)`, `float(x)`, `self.<DType field>(x)`, `len(d)`, `list(d.keys())`, `list(d.values())`,
    `list(d.items())`, `list(d)` for a dict field `d`, `xs[i]` for a list `xs` (→ `xs[i]?`, bound by a
    `match`; `none` = IndexError), and the two runtime draws below.

External / runtime calls (assumptions):
  * `torch.rand(1).item()` — the k-th occurrence (in source order) becomes the explicit parameter
    `rand<k> : Rat`; nothing is assumed about its value;
  * `torch.randperm(n)` — becomes the explicit parameter `perm<k> : List Nat`, guarded by
    `perm<k>.length = n` (a draw of another length is not a result of this call: `none`); that it is a
    permutation of `0 … n-1` is NOT assumed (an entry `≥ n` runs into the IndexError of the subscript);
    a 0-dim integer tensor used as an index is the natural number it holds;
  * a `dict` is an association list `List (κ × ν)` in insertion order (`keys()` / `values()` /
    `items()` keep that order), for arbitrary key and value types;
  * Python numbers (`int`, `float`) are exact rationals: float rounding is outside the model (the
    correspondence run uses dyadic inputs on which float arithmetic is exact).

Shape of the output:
  * `Class.method (self_<field> : T)… (rand0 : Rat | perm0 : List Nat)… : R` — ALL fields of the class
    in declaration order, then the draws in source order;
  * `R`: the type of the returned expression; if the method assigns fields, a tuple
    `(returned value, assigned field₁, …)` with the fields in declaration order at their declared type
    (`Option Rat` for an `Optional` field); wrapped in `Option` if the method contains an assertion, a
    subscript, a division or a `randperm` draw (`none` = AssertionError / IndexError / …);
  * locals are renamed canonically `v0, v1, …` in order of first assignment, bound subscripts
    `r0, r1, …`; fields keep their names (`self_<field>`; they are the constructor's keywords).
The header carries the sha256 of the source file; `write_if_changed` compares everything *but* that
line, so an edit of registry.py that leaves the translation unchanged does not touch the file.
"""
from __future__ import annotations

import ast
import hashlib
import os
import sys
from pathlib import Path

HERE = Path(__file__).resolve().parent
DEFAULT_OUT = HERE.parent / "lean" / "Gen" / "HpMutGen.lean"
REL_SOURCE = "agilerl/algorithms/core/registry.py"
SHA_PREFIX = "-- sha256(source) = "

TARGETS = [("RLParameter", "mutate"), ("HyperparameterConfig", "sample")]


class Unsupported(Exception):
    pass


def fail(node, what: str):
    line = getattr(node, "lineno", "?")
    raise Unsupported(f"{REL_SOURCE}:{line}: unsupported construct: {what}")


# types: "rat" "nat" "num" (an int literal: rat or nat) "bool" "dtype" "dict" "key" "val",
#        ("opt", t) ("list", t) ("tuple", (t1, …))
RAT, NAT, NUM, BOOL, DTYPE, DICT, KEY, VAL = "rat", "nat", "num", "bool", "dtype", "dict", "key", "val"
CMPOPS = {ast.Eq: "=", ast.NotEq: "≠", ast.Lt: "<", ast.LtE: "≤", ast.Gt: ">", ast.GtE: "≥"}
NUMBER_NAMES = ("float", "int", "Number")
DTYPE_APPLY = {"float": "q", "int": "((pyInt q : Int) : Rat)"}


def lean_ty(t, atom: bool = False) -> str:
    if t == RAT:
        return "Rat"
    if t == NAT:
        return "Nat"
    if t == DTYPE:
        return "RLParameter.DType"
    if t == KEY:
        return "κ"
    if t == VAL:
        return "ν"
    if t == DICT:
        s = "List (κ × ν)"
    elif isinstance(t, tuple) and t[0] == "opt":
        s = "Option " + lean_ty(t[1], True)
    elif isinstance(t, tuple) and t[0] == "list":
        s = "List " + lean_ty(t[1], True)
    elif isinstance(t, tuple) and t[0] == "tuple":
        s = " × ".join(lean_ty(x, True) for x in t[1])
    else:
        raise Unsupported(f"{REL_SOURCE}: no Lean type for {t!r}")
    return f"({s})" if atom else s


def ind(lines: list[str], n: int = 2) -> list[str]:
    return [" " * n + ln for ln in lines]


def is_docstring(st) -> bool:
    return isinstance(st, ast.Expr) and isinstance(st.value, ast.Constant) and isinstance(st.value.value, str)


def rat_literal(x: float) -> str:
    if x != x or x in (float("inf"), float("-inf")):
        raise Unsupported(f"{REL_SOURCE}: non-finite float literal")
    n, d = x.as_integer_ratio()
    num = f"({n} : Rat)" if n >= 0 else f"(({n}) : Rat)"
    return num if d == 1 else f"({num} / {d})"


def self_attr(n) -> bool:
    return isinstance(n, ast.Attribute) and isinstance(n.value, ast.Name) and n.value.id == "self"


def is_call_of(n, *path) -> bool:
    """`a.b.c(...)` with path ("a", "b", "c")"""
    if not isinstance(n, ast.Call):
        return False
    f = n.func
    for name in reversed(path[1:]):
        if not (isinstance(f, ast.Attribute) and f.attr == name):
            return False
        f = f.value
    return isinstance(f, ast.Name) and f.id == path[0]


# ----------------------------------------------------------------------------------------------
class ClassSpec:
    def __init__(self, node: ast.ClassDef):
        self.node, self.name = node, node.name
        self.fields: list[tuple[str, object]] = []          # (python name, type) in declaration order
        self.dtype_members: list[str] | None = None

    def field(self, name: str):
        for f, t in self.fields:
            if f == name:
                return t
        return None

    def method(self, name: str) -> ast.FunctionDef:
        found = [st for st in self.node.body if isinstance(st, ast.FunctionDef) and st.name == name]
        if len(found) != 1:
            raise Unsupported(f"{REL_SOURCE}: {len(found)} definitions of {self.name}.{name} (expected one)")
        fn = found[0]
        if fn.decorator_list:
            fail(fn, f"decorator on {self.name}.{name}")
        a = fn.args
        if a.vararg or a.kwarg or a.kwonlyargs or a.posonlyargs or [x.arg for x in a.args] != ["self"]:
            fail(fn, f"parameters of {self.name}.{name} other than `self`")
        return fn


class Translator:
    def __init__(self, src: str):
        self.mod = ast.parse(src)
        self.out: list[str] = []

    def find_class(self, name: str) -> ast.ClassDef:
        found = [st for st in self.mod.body if isinstance(st, ast.ClassDef) and st.name == name]
        if len(found) != 1:
            raise Unsupported(f"{REL_SOURCE}: {len(found)} definitions of class {name} (expected one)")
        return found[0]

    # ------------------------------------------------------------------ field declarations
    def number_ann(self, a) -> bool:
        return isinstance(a, ast.Name) and a.id in NUMBER_NAMES

    def type_of(self, a):
        """`Type[float]` / `Type[int]` → "float" / "int" """
        if isinstance(a, ast.Subscript) and isinstance(a.value, ast.Name) and a.value.id in ("Type", "type") \
                and isinstance(a.slice, ast.Name) and a.slice.id in DTYPE_APPLY:
            return a.slice.id
        return None

    def dataclass_fields(self, cs: ClassSpec):
        node = cs.node
        decs = [d.func if isinstance(d, ast.Call) else d for d in node.decorator_list]
        if not any(isinstance(d, ast.Name) and d.id == "dataclass" for d in decs):
            fail(node, f"class {cs.name} is not a @dataclass (its fields are read from the annotated declarations)")
        if node.bases or node.keywords:
            fail(node, f"base classes of {cs.name}")
        for st in node.body:
            if not isinstance(st, ast.AnnAssign):
                continue
            if not isinstance(st.target, ast.Name):
                fail(st, "annotated assignment to other than a field name")
            name, a = st.target.id, st.annotation
            if self.number_ann(a):
                t = RAT
            elif isinstance(a, ast.Subscript) and isinstance(a.value, ast.Name) and a.value.id == "Optional" \
                    and self.number_ann(a.slice):
                t = ("opt", RAT)
            elif self.type_of(a) is not None or (
                    isinstance(a, ast.Subscript) and isinstance(a.value, ast.Name) and a.value.id == "Union"
                    and isinstance(a.slice, ast.Tuple) and a.slice.elts
                    and all(self.type_of(e) is not None for e in a.slice.elts)):
                members = [self.type_of(a)] if self.type_of(a) else [self.type_of(e) for e in a.slice.elts]
                if len(set(members)) != len(members):
                    fail(st, f"annotation of field {name} lists a type twice")
                if cs.dtype_members is not None and cs.dtype_members != members:
                    fail(st, "two fields holding number types with different member lists")
                cs.dtype_members = members
                t = DTYPE
            else:
                fail(st, f"annotation `{ast.unparse(a)}` of field {cs.name}.{name}")
            if cs.field(name) is not None:
                fail(st, f"field {name} declared twice")
            cs.fields.append((name, t))
        if not cs.fields:
            fail(node, f"class {cs.name} declares no fields")

    def init_dict_fields(self, cs: ClassSpec):
        """fields of a plain class: `self.f = <the ** parameter>` at the top level of `__init__`"""
        inits = [st for st in cs.node.body if isinstance(st, ast.FunctionDef) and st.name == "__init__"]
        if len(inits) != 1:
            fail(cs.node, f"{len(inits)} definitions of {cs.name}.__init__")
        fn = inits[0]
        kw = fn.args.kwarg.arg if fn.args.kwarg else None
        for st in fn.body:
            if isinstance(st, ast.Assign) and len(st.targets) == 1 and self_attr(st.targets[0]) \
                    and isinstance(st.value, ast.Name) and kw is not None and st.value.id == kw:
                if cs.field(st.targets[0].attr) is not None:
                    fail(st, f"self.{st.targets[0].attr} assigned twice in __init__")
                cs.fields.append((st.targets[0].attr, DICT))
        # nobody else may assign (or delete / mutate by subscript) these fields
        ok = {id(st.targets[0]) for st in fn.body
              if isinstance(st, ast.Assign) and len(st.targets) == 1 and self_attr(st.targets[0])
              and cs.field(st.targets[0].attr) == DICT and isinstance(st.value, ast.Name) and st.value.id == kw}
        for n in ast.walk(cs.node):
            if self_attr(n) and cs.field(n.attr) == DICT and isinstance(n.ctx, (ast.Store, ast.Del)) and id(n) not in ok:
                fail(n, f"second assignment to self.{n.attr}")
            if isinstance(n, ast.Subscript) and isinstance(n.ctx, (ast.Store, ast.Del)) and self_attr(n.value) \
                    and cs.field(n.value.attr) == DICT:
                fail(n, f"item assignment to self.{n.value.attr}")

    # ------------------------------------------------------------------ module
    def run(self) -> str:
        rl = ClassSpec(self.find_class("RLParameter"))
        self.dataclass_fields(rl)
        hc = ClassSpec(self.find_class("HyperparameterConfig"))
        if hc.node.bases or hc.node.keywords or hc.node.decorator_list:
            fail(hc.node, "base classes / decorators of HyperparameterConfig")
        self.init_dict_fields(hc)
        classes = {"RLParameter": rl, "HyperparameterConfig": hc}
        self.emit_prelude(rl)
        for cname, mname in TARGETS:
            cs = classes[cname]
            MethodCtx(self, cs, cs.method(mname)).emit()
        return "\n".join(self.out).rstrip() + "\n\nend HpMutGen\n"

    def emit_prelude(self, rl: ClassSpec):
        self.out += [
            "namespace HpMutGen",
            "",
            "/-- Python's builtin `int(x)` on a number: truncation toward zero -/",
            "def pyInt (q : Rat) : Int := if 0 ≤ q then q.floor else -((-q).floor)",
            "",
            "/-- Python's builtin `min(a, b)`: the first argument unless the second is strictly smaller -/",
            "def pyMin (a b : Rat) : Rat := if b < a then b else a",
            "",
            "/-- Python's builtin `max(a, b)`: the first argument unless the second is strictly larger -/",
            "def pyMax (a b : Rat) : Rat := if b > a then b else a",
            "",
        ]
        if rl.dtype_members is not None:
            f = next(n for n, t in rl.fields if t == DTYPE)
            self.out += [f"/-- the number types the annotation of `RLParameter.{f}` admits -/",
                         "inductive RLParameter.DType where"]
            self.out += [f"  | {m}" for m in rl.dtype_members]
            self.out += ["deriving Repr, DecidableEq", "",
                         "/-- calling such a type on a number: the builtin conversion -/",
                         "def RLParameter.DType.apply : RLParameter.DType → Rat → Rat"]
            self.out += [f"  | .{m}, q => {DTYPE_APPLY[m]}" for m in rl.dtype_members]
            self.out += [""]


# ----------------------------------------------------------------------------------------------
class MethodCtx:
    def __init__(self, tr: Translator, cs: ClassSpec, fn: ast.FunctionDef):
        self.tr, self.cs, self.fn = tr, cs, fn
        self.types: dict[str, object] = {f"self.{f}": t for f, t in cs.fields}      # current type of each key
        self.lean: dict[str, str] = {f"self.{f}": f"self_{f}" for f, _ in cs.fields}
        self.draws: list[tuple[str, str]] = []
        self.binds: list[tuple] | None = None
        self.nbind = 0
        self.njoin = 0
        self.ret_type = None
        self.option = any(
            isinstance(n, (ast.Assert, ast.Subscript)) or (isinstance(n, ast.BinOp) and isinstance(n.op, ast.Div))
            or is_call_of(n, "torch", "randperm") for n in ast.walk(fn))
        self.written = [f for f, _ in cs.fields if f"self.{f}" in self.assigned_keys(fn.body)]
        k = 0
        for key in self.assigned_keys(fn.body):
            if not key.startswith("self."):
                self.lean[key] = f"v{k}"
                k += 1

    # ---------------- keys (locals by name, fields as "self.f")
    def key_of(self, t) -> str:
        if isinstance(t, ast.Name):
            if t.id == "self":
                fail(t, "assignment to self")
            return t.id
        if self_attr(t):
            if self.cs.field(t.attr) is None:
                fail(t, f"self.{t.attr} is not a declared field of {self.cs.name}")
            return f"self.{t.attr}"
        fail(t, f"assignment target {type(t).__name__}")

    def assigned_keys(self, stmts) -> list[str]:
        out = []
        for st in stmts:
            for n in ast.walk(st):
                tg = []
                if isinstance(n, ast.Assign):
                    tg = n.targets
                elif isinstance(n, (ast.AugAssign, ast.AnnAssign)):
                    tg = [n.target]
                elif isinstance(n, (ast.NamedExpr, ast.For, ast.With, ast.Delete, ast.Global, ast.Nonlocal)):
                    fail(n, type(n).__name__)
                for t in tg:
                    key = self.key_of(t)
                    if key not in out:
                        out.append(key)
        return out

    def definitely_assigned(self, stmts) -> set[str]:
        out: set[str] = set()
        for st in stmts:
            if isinstance(st, ast.Assign):
                out |= {self.key_of(t) for t in st.targets}
            elif isinstance(st, ast.AugAssign):
                out.add(self.key_of(st.target))
            elif isinstance(st, ast.If):
                out |= self.definitely_assigned(st.body) & self.definitely_assigned(st.orelse)
        return out

    def always_returns(self, stmts) -> bool:
        if not stmts:
            return False
        last = stmts[-1]
        if isinstance(last, ast.Return):
            return True
        if isinstance(last, ast.If):
            return self.always_returns(last.body) and self.always_returns(last.orelse)
        return False

    def order(self, keys) -> list[str]:
        fields = [f"self.{f}" for f, _ in self.cs.fields if f"self.{f}" in keys]
        locs = sorted((k for k in keys if not k.startswith("self.")), key=lambda k: int(self.lean[k][1:]))
        return fields + locs

    # ---------------- expressions
    def join(self, n, a, b):
        if a == NUM:
            return b
        if b == NUM or a == b:
            return a
        fail(n, f"operands of different types ({a}, {b})")

    def numeric(self, n, t, what: str):
        if t not in (RAT, NAT, NUM):
            fail(n, f"{what} on a non-number ({t})")

    def ex(self, n, top: bool = False):
        par = (lambda s: s) if top else (lambda s: f"({s})")
        if isinstance(n, ast.Constant):
            if type(n.value) is int:
                return (str(n.value) if n.value >= 0 else f"({n.value})"), NUM
            if type(n.value) is float:
                return rat_literal(n.value), RAT
            fail(n, f"constant {n.value!r}")
        if isinstance(n, ast.Name):
            if n.id not in self.types:
                fail(n, f"name {n.id} (not a local assigned before)")
            return self.lean[n.id], self.types[n.id]
        if isinstance(n, ast.Attribute):
            if self_attr(n) and f"self.{n.attr}" in self.types:
                return self.lean[f"self.{n.attr}"], self.types[f"self.{n.attr}"]
            fail(n, f"attribute .{n.attr}")
        if isinstance(n, ast.Tuple):
            parts = [self.ex(e, top=True) for e in n.elts]
            if len(parts) < 2 or any(t in (NUM, BOOL) for _, t in parts):
                fail(n, "tuple with fewer than two elements / of literals or booleans")
            return "(" + ", ".join(t for t, _ in parts) + ")", ("tuple", tuple(t for _, t in parts))
        if isinstance(n, ast.UnaryOp) and isinstance(n.op, ast.USub):
            t, ty = self.ex(n.operand)
            if ty != RAT:
                fail(n, f"unary minus on {ty}")
            return par(f"-{t}"), RAT
        if isinstance(n, ast.UnaryOp) and isinstance(n.op, ast.Not):
            t, ty = self.ex(n.operand)
            if ty != BOOL:
                fail(n, "not <non-boolean>")
            return par(f"¬ {t}"), BOOL
        if isinstance(n, ast.BinOp):
            (a, ta), (b, tb) = self.ex(n.left), self.ex(n.right)
            self.numeric(n, ta, "arithmetic")
            self.numeric(n, tb, "arithmetic")
            t = self.join(n, ta, tb)
            if t == NUM:
                fail(n, "arithmetic on two integer literals")
            if isinstance(n.op, (ast.Add, ast.Mult)):
                return par(f"{a} {'+' if isinstance(n.op, ast.Add) else '*'} {b}"), t
            if isinstance(n.op, ast.Sub) and t == RAT:
                return par(f"{a} - {b}"), t
            if isinstance(n.op, ast.Div) and t == RAT:
                self.bind(n, ("guard", f"{b} ≠ 0"))
                return par(f"{a} / {b}"), t
            fail(n, f"operator {type(n.op).__name__} on {t}")
        if isinstance(n, ast.Compare):
            parts, (ltxt, lt) = [], self.ex(n.left)
            for o, r in zip(n.ops, n.comparators):
                op = CMPOPS.get(type(o)) or fail(n, f"comparison {type(o).__name__}")
                rtxt, rt = self.ex(r)
                self.numeric(n, lt, "comparison")
                self.numeric(n, rt, "comparison")
                if self.join(n, lt, rt) == NUM:
                    fail(n, "comparison of two integer literals")
                parts.append(f"{ltxt} {op} {rtxt}")
                ltxt, lt = rtxt, rt
            return par(" ∧ ".join(parts)), BOOL
        if isinstance(n, ast.BoolOp):
            vs = []
            for v in n.values:
                t, ty = self.ex(v)
                if ty != BOOL:
                    fail(v, "non-boolean operand of and / or")
                vs.append(t)
            return par((" ∧ " if isinstance(n.op, ast.And) else " ∨ ").join(vs)), BOOL
        if isinstance(n, ast.IfExp):
            c, tc = self.ex(n.test, top=True)
            if tc != BOOL:
                fail(n, "<a> if <non-boolean> else <b>")
            before = len(self.binds) if self.binds is not None else 0
            (a, ta), (b, tb) = self.ex(n.body, top=True), self.ex(n.orelse, top=True)
            if self.binds is not None and len(self.binds) != before:
                fail(n, "conditional expression whose branches can fail (subscript / division / draw)")
            t = self.join(n, ta, tb)
            if t in (NUM, BOOL):
                fail(n, "conditional expression of literals / booleans")
            return f"(if {c} then {a} else {b})", t
        if isinstance(n, ast.Subscript):
            v, tv = self.ex(n.value)
            if not (isinstance(tv, tuple) and tv[0] == "list"):
                fail(n, f"subscript of a non-list ({tv})")
            i, ti = self.ex(n.slice, top=True)
            if ti not in (NAT, NUM) or (ti == NUM and i.startswith("(")):
                fail(n, f"list index of type {ti}")
            r = f"r{self.nbind}"
            self.nbind += 1
            self.bind(n, ("match", r, f"{v}[{i}]?"))
            return r, tv[1]
        if isinstance(n, ast.Call):
            return self.call(n, par)
        fail(n, type(n).__name__)

    def bind(self, n, entry):
        if self.binds is None:
            fail(n, "subscript / division / draw in a position where it cannot be bound")
        self.binds.append(entry)

    def plain_args(self, n: ast.Call, k: int, what: str):
        if n.keywords or len(n.args) != k or any(isinstance(a, ast.Starred) for a in n.args):
            fail(n, f"{what} with other than {k} positional argument(s)")
        return n.args

    def call(self, n: ast.Call, par):
        f = n.func
        # torch.rand(1).item()
        if isinstance(f, ast.Attribute) and f.attr == "item" and is_call_of(f.value, "torch", "rand"):
            self.plain_args(n, 0, ".item()")
            a, = self.plain_args(f.value, 1, "torch.rand")
            if not (isinstance(a, ast.Constant) and type(a.value) is int and a.value == 1):
                fail(n, "torch.rand(<other than 1>).item()")
            name = f"rand{sum(1 for _, t in self.draws if t == 'Rat')}"
            self.draws.append((name, "Rat"))
            return name, RAT
        if is_call_of(n, "torch", "randperm"):
            a, = self.plain_args(n, 1, "torch.randperm")
            txt, ty = self.ex(a, top=True)
            if ty not in (NAT, NUM):
                fail(n, f"torch.randperm(<{ty}>)")
            name = f"perm{sum(1 for _, t in self.draws if t != 'Rat')}"
            self.draws.append((name, "List Nat"))
            self.bind(n, ("guard", f"{name}.length = {txt}"))
            return name, ("list", NAT)
        if isinstance(f, ast.Name) and f.id in ("min", "max"):
            a, b = self.plain_args(n, 2, f.id)
            (ta, tya), (tb, tyb) = self.ex(a), self.ex(b)
            if self.join(n, tya, tyb) != RAT:
                fail(n, f"{f.id} on other than two rational numbers")
            return par(f"{'pyMin' if f.id == 'min' else 'pyMax'} {ta} {tb}"), RAT
        if isinstance(f, ast.Name) and f.id in ("int", "float"):
            a, = self.plain_args(n, 1, f.id)
            t, ty = self.ex(a)
            if ty != RAT:
                fail(n, f"{f.id}(<{ty}>)")
            return (t if f.id == "float" else f"((pyInt {t} : Int) : Rat)"), RAT
        if isinstance(f, ast.Name) and f.id == "len":
            a, = self.plain_args(n, 1, "len")
            t, ty = self.ex(a)
            if not (ty == DICT or (isinstance(ty, tuple) and ty[0] == "list")):
                fail(n, f"len(<{ty}>)")
            return f"{t}.length", NAT
        if isinstance(f, ast.Name) and f.id == "list":
            a, = self.plain_args(n, 1, "list")
            if isinstance(a, ast.Call) and isinstance(a.func, ast.Attribute) and a.func.attr in ("keys", "values", "items"):
                self.plain_args(a, 0, f".{a.func.attr}")
                t, ty = self.ex(a.func.value)
                if ty != DICT:
                    fail(n, f"<{ty}>.{a.func.attr}()")
                if a.func.attr == "items":
                    return t, ("list", ("tuple", (KEY, VAL)))
                fst = a.func.attr == "keys"
                return par(f"{t}.map {'Prod.fst' if fst else 'Prod.snd'}"), ("list", KEY if fst else VAL)
            t, ty = self.ex(a)
            if ty == DICT:
                return par(f"{t}.map Prod.fst"), ("list", KEY)
            if isinstance(ty, tuple) and ty[0] == "list":
                return t, ty
            fail(n, f"list(<{ty}>)")
        if self_attr(f) and self.types.get(f"self.{f.attr}") == DTYPE:
            a, = self.plain_args(n, 1, f"self.{f.attr}")
            t, ty = self.ex(a)
            if ty != RAT:
                fail(n, f"self.{f.attr}(<{ty}>)")
            return par(f"{self.lean[f'self.{f.attr}']}.apply {t}"), RAT
        fail(n, f"call of {ast.unparse(f)}")

    def with_binds(self, build) -> list[str]:
        """run `build()` (it translates expressions, then the continuation) inside the binds it made"""
        saved, self.binds = self.binds, []
        lines = build()
        binds, self.binds = self.binds, saved
        for b in reversed(binds):
            if b[0] == "match":
                lines = [f"match {b[2]} with", "| none => none", f"| some {b[1]} =>"] + ind(lines)
            else:
                lines = [f"if {b[1]} then"] + ind(lines) + ["else none"]
        return lines

    # ---------------- statements
    def result(self, st, txt: str, ty) -> list[str]:
        if ty in (NUM, BOOL):
            fail(st, "returning a literal / boolean")
        if self.ret_type is not None and self.ret_type != ty:
            fail(st, f"returns of different types ({self.ret_type}, {ty})")
        self.ret_type = ty
        parts = [txt]
        for f in self.written:
            key, decl = f"self.{f}", self.cs.field(f)
            cur = self.types[key]
            if cur == decl:
                parts.append(self.lean[key])
            elif decl == ("opt", cur):
                parts.append(f"some {self.lean[key]}")
            else:
                fail(st, f"field {f} holds a {cur} at return, declared {decl}")
        tup = parts[0] if len(parts) == 1 else "(" + ", ".join(parts) + ")"
        return [f"some {tup}" if self.option and len(parts) > 1 else (f"some {par_atom(tup)}" if self.option else tup)]

    def block(self, stmts, k, tail: bool) -> list[str]:
        """translate `stmts`; `k()` gives the lines of what follows (tail: nothing follows but the method end)"""
        if not stmts:
            return k()
        st, rest = stmts[0], stmts[1:]
        cont = lambda: self.block(rest, k, tail)          # noqa: E731
        if is_docstring(st):
            return cont()
        if isinstance(st, ast.AugAssign):
            load = ast.copy_location(
                ast.Name(id=st.target.id, ctx=ast.Load()) if isinstance(st.target, ast.Name)
                else ast.Attribute(value=st.target.value, attr=st.target.attr, ctx=ast.Load())
                if self_attr(st.target) else fail(st, "augmented assignment target"), st)
            st = ast.copy_location(ast.Assign(targets=[st.target], value=ast.copy_location(
                ast.BinOp(left=load, op=st.op, right=st.value), st)), st)
        if isinstance(st, ast.Assign):
            if len(st.targets) != 1:
                fail(st, "chained assignment")
            key = self.key_of(st.targets[0])

            def build():
                txt, ty = self.ex(st.value, top=True)
                if ty == BOOL:
                    fail(st, "boolean variable")
                if key.startswith("self."):
                    decl = self.cs.field(key[5:])
                    want = decl[1] if isinstance(decl, tuple) and decl[0] == "opt" else decl
                    if ty == NUM and want == RAT:
                        ty = RAT
                    if ty not in (decl, want):
                        fail(st, f"{key} (declared {decl}) = <{ty}>")
                else:
                    if ty == NUM:
                        ty = self.types.get(key) if self.types.get(key) in (RAT, NAT) else \
                            fail(st, f"integer literal assigned to the new variable {key}: its number type is not determined")
                    if key in self.types and self.types[key] != ty:
                        fail(st, f"variable {key} changes its type ({self.types[key]} → {ty})")
                self.types[key] = ty
                return [f"let {self.lean[key]} : {lean_ty(ty)} := {txt}"] + cont()
            return self.with_binds(build)
        if isinstance(st, ast.Assert):
            t = st.test
            if isinstance(t, ast.Compare) and len(t.ops) == 1 and isinstance(t.ops[0], ast.IsNot) \
                    and isinstance(t.comparators[0], ast.Constant) and t.comparators[0].value is None:
                key = t.left.id if isinstance(t.left, ast.Name) else \
                    f"self.{t.left.attr}" if self_attr(t.left) else fail(st, "assert <expression> is not None")
                ty = self.types.get(key)
                if not (isinstance(ty, tuple) and ty[0] == "opt"):
                    fail(st, f"assert {key} is not None, where {key} is not Optional here ({ty})")
                self.types[key] = ty[1]
                x = self.lean[key]
                return [f"match {x} with", "| none => none", f"| some {x} =>"] + ind(cont())

            def build():
                c, ty = self.ex(st.test, top=True)
                if ty != BOOL:
                    fail(st, "assert <non-boolean>")
                return [f"if {c} then"] + ind(cont()) + ["else none"]
            return self.with_binds(build)
        if isinstance(st, ast.Return):
            if rest:
                fail(rest[0], "statement after return")
            if not tail:
                fail(st, "return inside a branch that is followed by other statements")
            if st.value is None:
                fail(st, "bare return")

            def build():
                txt, ty = self.ex(st.value, top=True)
                return self.result(st, txt, ty)
            return self.with_binds(build)
        if isinstance(st, ast.If):
            return self.if_stmt(st, rest, k, tail)
        fail(st, "expression statement" if isinstance(st, ast.Expr) else type(st).__name__)

    def if_stmt(self, st: ast.If, rest, k, tail: bool) -> list[str]:
        def cond():
            c, ty = self.ex(st.test, top=True)
            if ty != BOOL:
                fail(st, "if <non-boolean>")
            return c
        if self.always_returns(st.body):
            if not tail:
                fail(st, "return inside a branch that is followed by other statements")
            if st.orelse and self.always_returns(st.orelse) and rest:
                fail(rest[0], "statement after an if whose branches all return")

            def build():
                c = cond()
                snap = dict(self.types)
                a = self.block(st.body, k, True)
                self.types = dict(snap)
                b = self.block(list(st.orelse) + list(rest), k, True)
                return [f"if {c} then"] + ind(a) + ["else"] + ind(b)
            return self.with_binds(build)
        for n in ast.walk(st):
            if isinstance(n, ast.Return):
                fail(n, "return in only some branches of an if")
        keys = self.order(self.assigned_keys(list(st.body) + list(st.orelse)))
        if not keys:
            fail(st, "if without effect (its branches assign nothing)")
        da = self.definitely_assigned(st.body) & self.definitely_assigned(st.orelse)
        for key in keys:
            if key not in self.types and key not in da:
                fail(st, f"variable {key} is assigned in only some paths of this if and not before it")

        def build():
            c = cond()
            snap = dict(self.types)
            names = [self.lean[x] for x in keys]
            tup = names[0] if len(names) == 1 else "(" + ", ".join(names) + ")"
            a = self.block(st.body, lambda: [tup], False)
            ta = [self.types.get(x) for x in keys]
            self.types = dict(snap)
            b = self.block(st.orelse, lambda: [tup], False)
            tb = [self.types.get(x) for x in keys]
            for x, u, v in zip(keys, ta, tb):
                if u != v:
                    fail(st, f"{x} has different types after the two branches ({u}, {v})")
            expr = [f"if {c} then"] + ind(a) + ["else"] + ind(b)
            if len(keys) == 1:
                head = [f"let {names[0]} : {lean_ty(ta[0])} :="] + ind(expr)
            else:
                j = f"j{self.njoin}"
                self.njoin += 1
                head = [f"let {j} : {' × '.join(lean_ty(t, True) for t in ta)} :="] + ind(expr)
                for i, (nm, t) in enumerate(zip(names, ta)):
                    proj = ".2" * i + (".1" if i < len(names) - 1 else "")
                    head.append(f"let {nm} : {lean_ty(t)} := {j}{proj}")
            return head + self.block(rest, k, tail)
        return self.with_binds(build)

    # ---------------- the definition
    def emit(self):
        def end():
            fail(self.fn, f"{self.cs.name}.{self.fn.name}: a path reaches the end without `return`")
        body = self.block([s for s in self.fn.body if not is_docstring(s)], end, True)
        if self.ret_type is None:
            fail(self.fn, f"{self.cs.name}.{self.fn.name} never returns a value")
        parts = [self.ret_type] + [self.cs.field(f) for f in self.written]
        rt = lean_ty(parts[0]) if len(parts) == 1 else " × ".join(lean_ty(t, True) for t in parts)
        if self.option:
            rt = f"Option ({rt})"
        generic = " {κ ν : Type}" if any(t == DICT for _, t in self.cs.fields) else ""
        params = "".join(f" (self_{f} : {lean_ty(t)})" for f, t in self.cs.fields) \
            + "".join(f" ({n} : {t})" for n, t in self.draws)
        what = "the returned value" if not self.written else \
            "(the returned value, " + ", ".join(f"`self.{f}` afterwards" for f in self.written) + ")"
        self.tr.out += [
            f"/-- `{self.cs.name}.{self.fn.name}`: {what}"
            + ("; `none` = an exception (AssertionError / IndexError / …)" if self.option else "") + " -/",
            f"def {self.cs.name}.{self.fn.name}{generic}{params} : {rt} :=",
        ] + ind(body) + [""]


def par_atom(s: str) -> str:
    return s if s.startswith("(") or " " not in s else f"({s})"


# ----------------------------------------------------------------------------------------------
def repo_dir(arg: str | None = None) -> Path:
    if arg:
        return Path(arg)
    return Path(os.environ.get("VERIF_REPO", "/repo"))


def translate(repo: Path) -> tuple[str, str]:
    """returns (lean text, sha256 of the source); raises Unsupported"""
    path = Path(repo) / REL_SOURCE
    try:
        raw = path.read_bytes()
    except OSError as e:
        raise Unsupported(f"cannot read {path}: {e}") from e
    sha = hashlib.sha256(raw).hexdigest()
    try:
        body = Translator(raw.decode("utf-8")).run()
    except SyntaxError as e:
        raise Unsupported(f"{REL_SOURCE}:{e.lineno}: not parseable: {e.msg}") from e
    header = "\n".join([
        "/-",
        "  Gen/HpMutGen.lean — GENERATED by harness/py2lean_hpmut.py from `RLParameter.mutate` and",
        f"  `HyperparameterConfig.sample` of {REL_SOURCE}; do not edit.  Core Lean only.",
        "  `Proofs/HpMutGenEq.lean` proves each definition equal to its counterpart in `Model/HpMut.lean`.",
        "-/",
        SHA_PREFIX + sha,
        "set_option linter.unusedVariables false",
        "",
    ])
    return header + "\n" + body, sha


def strip_sha(text: str) -> str:
    return "\n".join(ln for ln in text.split("\n") if not ln.startswith(SHA_PREFIX))


def write_if_changed(text: str, out: Path, force: bool = False) -> bool:
    """writes `text` unless the file already holds the same translation (sha line ignored)"""
    out = Path(out)
    old = out.read_text() if out.exists() else None
    if old is not None and not force and strip_sha(old) == strip_sha(text):
        return False
    if old == text:
        return False
    out.parent.mkdir(parents=True, exist_ok=True)
    tmp = out.with_suffix(".lean.tmp")
    tmp.write_text(text)
    os.replace(tmp, out)
    return True


def main(argv: list[str]) -> int:
    import argparse
    ap = argparse.ArgumentParser()
    ap.add_argument("--repo", default=None)
    ap.add_argument("--out", default=str(DEFAULT_OUT))
    ap.add_argument("--stdout", action="store_true")
    ap.add_argument("--force", action="store_true", help="rewrite even if only the sha256 line differs")
    a = ap.parse_args(argv)
    try:
        text, sha = translate(repo_dir(a.repo))
    except Unsupported as e:
        print(f"py2lean_hpmut: {e}", file=sys.stderr)
        return 1
    if a.stdout:
        sys.stdout.write(text)
        return 0
    changed = write_if_changed(text, Path(a.out), a.force)
    print(f"{a.out}: {'written' if changed else 'unchanged'} (source sha256 {sha[:16]}…, "
          f"translation sha256 {hashlib.sha256(strip_sha(text).encode()).hexdigest()[:16]}…)")
    return 0


if __name__ == "__main__":
    sys.exit(main(sys.argv[1:]))
