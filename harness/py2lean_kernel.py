#!/usr/bin/env python3
"""
py2lean_kernel.py — translate `calc_max_kernel_sizes` (agilerl/utils/evolvable_networks.py) and
`MutableKernelSizes._later_layers_fit` (agilerl/modules/cnn.py) into Lean 4.

    python3 harness/py2lean_kernel.py [--repo DIR] [--out FILE] [--stdout] [--force]

Reads the *source text* only (Python `ast`; agilerl / numpy are never imported) of the module-level
function `calc_max_kernel_sizes(channel_size, kernel_size, stride_size, input_shape)` — the function
`py2lean_arch.py` leaves as an explicit parameter of the translated CNN methods — and of the method
`MutableKernelSizes._later_layers_fit(self, hidden_layer, new_kernel_size, stride_size, input_shape)` (the walk the
repaired `change_kernel_size` uses to re-validate the later layers; likewise a parameter of the translated
`change_kernel_size`), and writes lean/Gen/KernelGen.lean (namespace KernelGen, core Lean only, imports nothing).
`Proofs/KernelGenEq.lean` proves the generated functions equal to the model's `CNN.maxKernels`
(`Model/Arch.lean`: `mapsAux`, `convOut`, `clampK`) and `CNN.laterFit` (`fitsAux`) for every architecture with
strides ≥ 1 and instantiates both parameters of `Proofs/ArchGenEq.lean` with them (`gen_cnn_step_eq_kernel`).
A method: `self` is dropped, every attribute read through `self.` (`self.int_sizes`) becomes a list parameter in
order of appearance, a parameter annotated `int` is an `Int`, every other one a `List Int`.

Arithmetic.  The function mixes Python ints, numpy float64 (`np.floor(x / y)`) and a float literal
(`* 0.25`).  It is translated into EXACT integer / rational arithmetic with a static type per
expression:
  * `int`  (Lean `Int`): int literals, elements of the argument lists, `+ - *` of ints, `np.floor(e)`
    (a float64 holding an integral value), `int(e)`, `min / max` of ints;
  * `rat`  (Lean `Rat`): a float literal (its exact value `float.as_integer_ratio()`), `a / b` (true
    division), and `+ - *`, `min / max` with at least one `rat` operand (the `int` side is cast).
  `np.floor(e)` is `Rat.floor e`, `int(e)` of a `rat` is truncation toward zero (`truncI`).
  `a / b` with `b = 0` is `none` (ZeroDivisionError for Python ints; inf / nan for numpy floats, on which
  `int(…)` raises).

Shape of the output:
  * `calc_max_kernel_sizes.body params idx c0 c1 …  : Option (T0 × T1 × …)` — one iteration of the `for`
    loop: `idx` the loop index, `c<k>` the loop-carried variables (the locals that exist before the loop
    and are assigned or appended to in its body, in order of their first assignment); straight-line code
    in continuation-passing style: `x = e` is `let a<k> : T := e` (k-th assignment statement of the
    function), `xs[i]` is `match pyGet xs i with | none => none | some r<k> => …` (IndexError = `none`),
    a division first binds its divisor `q<k>` and tests it against zero; after `if / elif / else` the rest
    of the body is emitted in every branch, so statement order, every operator, constant, comparison and
    index expression appear as they are in the source;
  * `calc_max_kernel_sizes.loop params n idx c… ` — `n` more iterations from index `idx` (structural
    recursion on `n`; `for idx, _ in enumerate(xs)` / `for idx in range(len(xs))` both run
    `idx = 0 … len(xs) - 1`);
  * `calc_max_kernel_sizes params : Option (List Int)` — the statements before the loop, the loop with
    `n = len(xs)`, the `return`; `a, b = xs[lo:hi]` is a `match` on the slice (`| [a, b] => … | _ => none`,
    ValueError).
  Names: parameters keep their names, every other local is renamed canonically (`a<k>`, `c<k>`, `r<k>`,
  `q<k>`), so renaming a local does not change the text; `x += e` is `x = x + e`, `xs.append(e)` is
  `xs = xs + [e]`.

Supported subset (anything else raises `Unsupported` naming the construct and its line):
  * statements: docstring, `x = e`, `x op= e` (op ∈ + - *), `x = []`, `a, b = xs[lo:hi]` (literal or absent
    bounds), `xs.append(e)`, `if / elif / else` over these, exactly one `for idx, v in enumerate(xs):` (`v` may be
    read and re-assigned in the body: it starts as `xs[idx]`) or `for idx in range(len(xs)):` at the top level,
    `return True / False` as the last statement of a block inside the loop (the loop then carries
    `Option Bool`: `some b` = returned), a final `return xs` / `return True / False`;
  * expressions: int and float literals, locals, parameters, `self.xs`, `xs[i]`, `+ - *` (binary), unary `-`, `/`,
    `a // b` on ints (`Int.fdiv`, zero divisor = `none`),
    `np.floor(e)` / `math.floor(e)`, `int(e)`, `min(a, b)` / `max(a, b)` (two arguments, CPython's tie rule),
    comparisons `< <= > >= == !=` (not chained), `and / or / not` of comparisons, parentheses.

Assumptions (what is NOT translated):
  * float64 arithmetic is exact here: every intermediate value is an integer of magnitude < 2^53, a
    quotient of two such integers that is floored immediately (the rounding error of the quotient is
    smaller than its distance 1/stride to the next integer for sizes < 2^26), or a multiple of 1/4 of such
    an integer — checked by the correspondence run of harness/c03.py (`calc-max-kernel` suite: real
    function vs model on random shapes up to 4096, strides up to 7, non-square inputs);
  * the arguments are lists of Python / numpy ints (no tuples of kernel sizes: `MutableKernelSizes` hands
    over `int_sizes`);
  * numpy warnings (divide by zero) are not modelled: a zero divisor is `none`.
The header carries the sha256 of the source file; `write_if_changed` compares everything *but* that line.
"""
from __future__ import annotations

import ast
import hashlib
import os
import sys
from pathlib import Path

HERE = Path(__file__).resolve().parent
DEFAULT_OUT = HERE.parent / "lean" / "Gen" / "KernelGen.lean"
REL_SOURCES = ("agilerl/utils/evolvable_networks.py", "agilerl/modules/cnn.py")
REL_SOURCE = "agilerl/utils/evolvable_networks.py + agilerl/modules/cnn.py"      # messages only
FUNC = "calc_max_kernel_sizes"
METHOD = ("MutableKernelSizes", "_later_layers_fit")
_current = [REL_SOURCES[0]]
SHA_PREFIX = "-- sha256(source) = "

INT, RAT, LIST, BOOL = "int", "rat", "list", "bool"
LEAN_TY = {INT: "Int", RAT: "Rat", LIST: "List Int", BOOL: "Bool"}
CMPOPS = {ast.Eq: "=", ast.NotEq: "≠", ast.Lt: "<", ast.LtE: "≤", ast.Gt: ">", ast.GtE: "≥"}
BINOPS = {ast.Add: "+", ast.Sub: "-", ast.Mult: "*"}


class Unsupported(Exception):
    pass


class Retype(Exception):
    """a loop-carried variable changes its numeric type inside the loop: redo with the wider type"""

    def __init__(self, name):
        self.name = name


def fail(node, what: str):
    line = getattr(node, "lineno", "?")
    raise Unsupported(f"{_current[0]}:{line}: unsupported construct: {what}")


def repo_dir(arg: str | None = None) -> Path:
    return Path(arg or os.environ.get("VERIF_REPO") or "/repo")


PRELUDE = '''namespace KernelGen

/-- Python's builtin `min(a, b)`: the first argument unless the second is strictly smaller -/
def pyMin (a b : Int) : Int := if b < a then b else a
/-- Python's builtin `max(a, b)`: the first argument unless the second is strictly larger -/
def pyMax (a b : Int) : Int := if b > a then b else a
def pyMinQ (a b : Rat) : Rat := if b < a then b else a
def pyMaxQ (a b : Rat) : Rat := if b > a then b else a

/-- `xs[i]`: a negative index counts from the end; `none` = IndexError -/
def pyGet (xs : List Int) (i : Int) : Option Int :=
  if 0 ≤ i then xs[i.toNat]?
  else if 0 ≤ (xs.length : Int) + i then xs[((xs.length : Int) + i).toNat]?
  else none

/-- a slice bound clamped into `0 … n` -/
def pyBound (n : Nat) (i : Int) : Nat := if i < 0 then ((n : Int) + i).toNat else min i.toNat n

/-- `xs[lo:hi]` (step 1; an absent bound is `none`) -/
def pySlice (xs : List Int) (lo hi : Option Int) : List Int :=
  let a := match lo with | none => 0 | some i => pyBound xs.length i
  let b := match hi with | none => xs.length | some i => pyBound xs.length i
  (xs.take b).drop a

/-- `int(x)` of a float: truncation toward zero -/
def truncI (x : Rat) : Int := if 0 ≤ x then x.floor else x.ceil
'''


class Tr:
    def __init__(self, fn: ast.FunctionDef, name: str | None = None, method: bool = False):
        self.fn = fn
        self.name = name or fn.name
        if fn.args.vararg or fn.args.kwarg or fn.args.kwonlyargs or fn.args.defaults or fn.args.posonlyargs:
            fail(fn, "signature with defaults / *args / **kwargs")
        args = list(fn.args.args)
        self.ptypes: dict[str, str] = {}
        self.params = []
        if method:
            if not args or args[0].arg != "self":
                fail(fn, "method without self")
            args = args[1:]
            # every attribute read through `self.` is a list parameter (kernel sizes: `int_sizes`)
            for n in ast.walk(fn):
                if isinstance(n, ast.Attribute) and isinstance(n.value, ast.Name) and n.value.id == "self":
                    if not isinstance(n.ctx, ast.Load):
                        fail(n, f"assignment to self.{n.attr}")
                    if n.attr not in self.params:
                        self.params.append(n.attr)
                        self.ptypes[n.attr] = LIST
                elif isinstance(n, ast.Name) and n.id == "self" and not isinstance(getattr(n, "ctx", None), ast.Load):
                    fail(n, "assignment to self")
        for a in args:
            ann = a.annotation
            nm = ann.id if isinstance(ann, ast.Name) else None
            self.params.append(a.arg)
            self.ptypes[a.arg] = INT if (method and nm == "int") else LIST
        self.carried_ty: dict[str, str] = {}
        self.ret_ty = None

    # ------------------------------------------------------------------ fresh names
    def reset(self):
        self.n_assign = 0
        self.n_read = 0
        self.n_div = 0

    def fresh_a(self):
        self.n_assign += 1
        return f"a{self.n_assign - 1}"

    def fresh_r(self):
        self.n_read += 1
        return f"r{self.n_read - 1}"

    def fresh_q(self):
        self.n_div += 1
        return f"q{self.n_div - 1}"

    # ------------------------------------------------------------------ expressions
    # returns (wrappers, term, type); a wrapper is a function body -> text lines, applied outermost first
    def cast(self, term: str, ty: str, to: str, node) -> str:
        if ty == to:
            return term
        if ty == INT and to == RAT:
            return f"(({term} : Int) : Rat)"
        fail(node, f"a {ty} where a {to} is needed")

    def expr(self, e, env, pre):
        if isinstance(e, ast.Constant):
            if isinstance(e.value, bool):
                fail(e, "bool literal")
            if isinstance(e.value, int):
                return (f"{e.value}" if e.value >= 0 else f"({e.value})"), INT
            if isinstance(e.value, float):
                if e.value != e.value or e.value in (float("inf"), float("-inf")):
                    fail(e, "non-finite float literal")
                n, d = e.value.as_integer_ratio()
                return f"(({n} : Rat) / {d})", RAT
            fail(e, f"literal {e.value!r}")
        if isinstance(e, ast.Name):
            if e.id not in env:
                fail(e, f"name `{e.id}` is not a parameter or a local assigned before")
            return env[e.id]
        if isinstance(e, ast.Attribute) and isinstance(e.value, ast.Name) and e.value.id == "self" and e.attr in env:
            return env[e.attr]
        if isinstance(e, ast.UnaryOp) and isinstance(e.op, ast.USub):
            t, ty = self.expr(e.operand, env, pre)
            if ty == LIST:
                fail(e, "negation of a list")
            return f"(-{t})", ty
        if isinstance(e, ast.BinOp):
            if isinstance(e.op, ast.Div):
                a, ta = self.expr(e.left, env, pre)
                b, tb = self.expr(e.right, env, pre)
                if LIST in (ta, tb):
                    fail(e, "division of a list")
                q = self.fresh_q()
                pre.append(("div", q, self.cast(b, tb, RAT, e)))
                return f"({self.cast(a, ta, RAT, e)} / {q})", RAT
            if isinstance(e.op, ast.FloorDiv):
                a, ta = self.expr(e.left, env, pre)
                b, tb = self.expr(e.right, env, pre)
                if ta != INT or tb != INT:
                    fail(e, "`//` on other than two ints")
                q = self.fresh_q()
                pre.append(("fdiv", q, b))
                return f"(Int.fdiv {a} {q})", INT
            if type(e.op) in BINOPS:
                a, ta = self.expr(e.left, env, pre)
                b, tb = self.expr(e.right, env, pre)
                op = BINOPS[type(e.op)]
                if ta == LIST and tb == LIST and isinstance(e.op, ast.Add):
                    return f"({a} ++ {b})", LIST
                if LIST in (ta, tb):
                    fail(e, "arithmetic on a list")
                ty = RAT if RAT in (ta, tb) else INT
                return f"({self.cast(a, ta, ty, e)} {op} {self.cast(b, tb, ty, e)})", ty
            fail(e, f"operator {type(e.op).__name__}")
        if isinstance(e, ast.Subscript):
            xs, tx = self.expr(e.value, env, pre)
            if tx != LIST:
                fail(e, "subscript of a non-list")
            if isinstance(e.slice, ast.Slice):
                fail(e, "slice outside an unpacking assignment")
            i, ti = self.expr(e.slice, env, pre)
            if ti != INT:
                fail(e, "non-integer index")
            r = self.fresh_r()
            pre.append(("get", r, xs, i))
            return r, INT
        if isinstance(e, ast.List):
            items = []
            for it in e.elts:
                t, ty = self.expr(it, env, pre)
                if ty != INT:
                    fail(e, "list of non-int values")
                items.append(t)
            return "[" + ", ".join(items) + "]", LIST
        if isinstance(e, ast.Call):
            if e.keywords:
                fail(e, "keyword arguments")
            f = e.func
            name = None
            if isinstance(f, ast.Name):
                name = f.id
            elif isinstance(f, ast.Attribute) and isinstance(f.value, ast.Name) and f.value.id in ("np", "numpy", "math"):
                name = f.value.id + "." + f.attr
            if name in ("np.floor", "numpy.floor", "math.floor") and len(e.args) == 1:
                t, ty = self.expr(e.args[0], env, pre)
                if ty == INT:
                    return t, INT
                if ty == RAT:
                    return f"(Rat.floor {t})", INT
                fail(e, "floor of a list")
            if name == "int" and len(e.args) == 1:
                t, ty = self.expr(e.args[0], env, pre)
                if ty == INT:
                    return t, INT
                if ty == RAT:
                    return f"(truncI {t})", INT
                fail(e, "int of a list")
            if name in ("min", "max") and len(e.args) == 2:
                a, ta = self.expr(e.args[0], env, pre)
                b, tb = self.expr(e.args[1], env, pre)
                if LIST in (ta, tb):
                    fail(e, f"{name} of lists")
                ty = RAT if RAT in (ta, tb) else INT
                fn = {("min", INT): "pyMin", ("max", INT): "pyMax", ("min", RAT): "pyMinQ", ("max", RAT): "pyMaxQ"}[(name, ty)]
                return f"({fn} {self.cast(a, ta, ty, e)} {self.cast(b, tb, ty, e)})", ty
            if name == "len" and len(e.args) == 1:
                t, ty = self.expr(e.args[0], env, pre)
                if ty != LIST:
                    fail(e, "len of a non-list")
                return f"({t}.length : Int)", INT
            fail(e, f"call of `{ast.unparse(f)}`")
        fail(e, type(e).__name__)

    def cond(self, e, env, pre):
        if isinstance(e, ast.Compare):
            if len(e.ops) != 1:
                fail(e, "chained comparison")
            if type(e.ops[0]) not in CMPOPS:
                fail(e, f"comparison {type(e.ops[0]).__name__}")
            a, ta = self.expr(e.left, env, pre)
            b, tb = self.expr(e.comparators[0], env, pre)
            if LIST in (ta, tb):
                fail(e, "comparison of lists")
            ty = RAT if RAT in (ta, tb) else INT
            return f"{self.cast(a, ta, ty, e)} {CMPOPS[type(e.ops[0])]} {self.cast(b, tb, ty, e)}"
        if isinstance(e, ast.BoolOp):
            n0 = len(pre)
            parts = [self.cond(v, env, pre) for v in e.values]
            if len(pre) != n0:
                fail(e, "and / or over operands that can raise")
            return "(" + (" ∧ " if isinstance(e.op, ast.And) else " ∨ ").join(parts) + ")"
        if isinstance(e, ast.UnaryOp) and isinstance(e.op, ast.Not):
            return f"¬ ({self.cond(e.operand, env, pre)})"
        fail(e, "condition that is not a comparison")

    # ------------------------------------------------------------------ statements (CPS)
    @staticmethod
    def wrap(pre, ind, lines_fn):
        """emit the bindings collected while translating an expression, then the continuation"""
        out = []
        cur = ind
        for p in pre:
            if p[0] == "get":
                _, r, xs, i = p
                out.append(f"{cur}match pyGet {xs} {i} with")
                out.append(f"{cur}| none => none")
                out.append(f"{cur}| some {r} =>")
                cur += "  "
            else:
                kind, q, b = p
                out.append(f"{cur}let {q} : {'Rat' if kind == 'div' else 'Int'} := {b}")
                out.append(f"{cur}if {q} = 0 then none else")
        out.extend(lines_fn(cur))
        return out

    def stmts(self, body, env, ind, k):
        """translate `body` in environment `env`, then call `k(env, ind)` for the rest"""
        if not body:
            return k(env, ind)
        st, rest = body[0], body[1:]
        if isinstance(st, ast.Expr) and isinstance(st.value, ast.Constant) and isinstance(st.value.value, str):
            return self.stmts(rest, env, ind, k)
        if isinstance(st, ast.Pass):
            return self.stmts(rest, env, ind, k)
        # xs.append(e)  ==  xs = xs + [e]
        if (isinstance(st, ast.Expr) and isinstance(st.value, ast.Call) and isinstance(st.value.func, ast.Attribute)
                and st.value.func.attr == "append" and isinstance(st.value.func.value, ast.Name)
                and len(st.value.args) == 1 and not st.value.keywords):
            tgt = st.value.func.value
            new = ast.BinOp(left=ast.Name(id=tgt.id, ctx=ast.Load()), op=ast.Add(),
                            right=ast.List(elts=[st.value.args[0]], ctx=ast.Load()))
            st = ast.copy_location(ast.Assign(targets=[ast.Name(id=tgt.id, ctx=ast.Store())], value=new), st)
            ast.fix_missing_locations(st)
        if isinstance(st, ast.AugAssign):
            if not isinstance(st.target, ast.Name) or type(st.op) not in BINOPS:
                fail(st, "augmented assignment")
            new = ast.BinOp(left=ast.Name(id=st.target.id, ctx=ast.Load()), op=st.op, right=st.value)
            st = ast.copy_location(ast.Assign(targets=[ast.Name(id=st.target.id, ctx=ast.Store())], value=new), st)
            ast.fix_missing_locations(st)
        if isinstance(st, ast.AnnAssign) and st.value is not None and isinstance(st.target, ast.Name):
            st = ast.copy_location(ast.Assign(targets=[st.target], value=st.value), st)
        if isinstance(st, ast.Assign):
            if len(st.targets) != 1:
                fail(st, "multiple assignment targets")
            tgt = st.targets[0]
            if isinstance(tgt, ast.Tuple):
                return self.unpack(st, tgt, rest, env, ind, k)
            if not isinstance(tgt, ast.Name):
                fail(st, "assignment to a non-name")
            if tgt.id in self.params:
                fail(st, f"assignment to the parameter `{tgt.id}`")
            pre = []
            t, ty = self.expr(st.value, env, pre)
            name = self.fresh_a()

            def cont(cur):
                env2 = dict(env)
                env2[tgt.id] = (name, ty)
                return [f"{cur}let {name} : {LEAN_TY[ty]} := {t}"] + self.stmts(rest, env2, cur, k)
            return self.wrap(pre, ind, cont)
        if isinstance(st, ast.Return):
            if self.on_return is None:
                fail(st, "return here")
            return self.on_return(st, env, ind)
        if isinstance(st, ast.If):
            pre = []
            c = self.cond(st.test, env, pre)

            def cont(cur):
                out = [f"{cur}if {c} then"]
                out += self.stmts(st.body + rest, env, cur + "  ", k)
                out.append(f"{cur}else")
                out += self.stmts(st.orelse + rest, env, cur + "  ", k)
                return out
            return self.wrap(pre, ind, cont)
        fail(st, type(st).__name__)

    def unpack(self, st, tgt, rest, env, ind, k):
        v = st.value
        if not (isinstance(v, ast.Subscript) and isinstance(v.slice, ast.Slice) and v.slice.step is None):
            fail(st, "tuple unpacking of something other than a slice `xs[lo:hi]`")
        names = []
        for el in tgt.elts:
            if not isinstance(el, ast.Name) or el.id in self.params:
                fail(st, "unpacking target")
            names.append(el.id)
        pre = []
        xs, tx = self.expr(v.value, env, pre)
        if tx != LIST or pre:
            fail(st, "slice of a non-list")

        def bound(b):
            if b is None:
                return "none"
            if isinstance(b, ast.UnaryOp) and isinstance(b.op, ast.USub) and isinstance(b.operand, ast.Constant) \
                    and type(b.operand.value) is int:
                return f"(some (-{b.operand.value}))"
            if isinstance(b, ast.Constant) and type(b.value) is int:
                return f"(some {b.value})"
            fail(st, "slice bound that is not an int literal")
        fresh = [self.fresh_a() for _ in names]
        env2 = dict(env)
        for n, f in zip(names, fresh):
            env2[n] = (f, INT)
        out = [f"{ind}match pySlice {xs} {bound(v.slice.lower)} {bound(v.slice.upper)} with",
               f"{ind}| [{', '.join(fresh)}] =>"]
        out += self.stmts(rest, env2, ind + "  ", k)
        out.append(f"{ind}| _ => none")
        return out

    # ------------------------------------------------------------------ the function
    @staticmethod
    def assigned(body) -> list[str]:
        out = []
        for n in body:
            for s in ast.walk(n):
                if isinstance(s, ast.Assign):
                    for t in s.targets:
                        for nm in ast.walk(t):
                            if isinstance(nm, ast.Name) and nm.id not in out:
                                out.append(nm.id)
                elif isinstance(s, (ast.AugAssign, ast.AnnAssign)) and isinstance(s.target, ast.Name):
                    if s.target.id not in out:
                        out.append(s.target.id)
                elif (isinstance(s, ast.Call) and isinstance(s.func, ast.Attribute) and s.func.attr == "append"
                      and isinstance(s.func.value, ast.Name) and s.func.value.id not in out):
                    out.append(s.func.value.id)
        return out

    def loop_header(self, loop: ast.For):
        """returns (index variable, name of the list whose length bounds the loop)"""
        if loop.orelse:
            fail(loop, "for … else")
        it = loop.iter
        if isinstance(it, ast.Call) and isinstance(it.func, ast.Name) and not it.keywords and len(it.args) == 1:
            if it.func.id == "enumerate" and isinstance(it.args[0], ast.Name):
                t = loop.target
                if not (isinstance(t, ast.Tuple) and len(t.elts) == 2 and all(isinstance(x, ast.Name) for x in t.elts)):
                    fail(loop, "target of a loop over enumerate(…)")
                elem = t.elts[1].id
                used = any(isinstance(n, ast.Name) and n.id == elem
                           for n in ast.walk(ast.Module(body=loop.body, type_ignores=[])))
                return t.elts[0].id, it.args[0].id, (elem if used else None)
            if it.func.id == "enumerate" and isinstance(it.args[0], ast.Attribute) \
                    and isinstance(it.args[0].value, ast.Name) and it.args[0].value.id == "self":
                t = loop.target
                if not (isinstance(t, ast.Tuple) and len(t.elts) == 2 and all(isinstance(x, ast.Name) for x in t.elts)):
                    fail(loop, "target of a loop over enumerate(…)")
                elem = t.elts[1].id
                used = any(isinstance(n, ast.Name) and n.id == elem
                           for n in ast.walk(ast.Module(body=loop.body, type_ignores=[])))
                return t.elts[0].id, it.args[0].attr, (elem if used else None)
            if it.func.id == "range":
                a = it.args[0]
                if (isinstance(a, ast.Call) and isinstance(a.func, ast.Name) and a.func.id == "len" and len(a.args) == 1
                        and isinstance(a.args[0], ast.Name) and isinstance(loop.target, ast.Name)):
                    return loop.target.id, a.args[0].id, None
        fail(loop, "loop that is not `for i, _ in enumerate(xs)` / `for i in range(len(xs))`")

    def run(self) -> str:
        for _ in range(4):
            try:
                return self.run_once()
            except Retype as r:
                self.carried_ty[r.name] = RAT
        fail(self.fn, "loop-carried variable types do not stabilise")

    def run_once(self) -> str:
        self.reset()
        fn = self.fn
        body = list(fn.body)
        if body and isinstance(body[0], ast.Expr) and isinstance(body[0].value, ast.Constant) \
                and isinstance(body[0].value.value, str):
            body = body[1:]
        loops = [i for i, s in enumerate(body) if isinstance(s, ast.For)]
        if len(loops) != 1:
            fail(fn, f"{len(loops)} top-level for loops (exactly one expected)")
        li = loops[0]
        before, loop, after = body[:li], body[li], body[li + 1:]
        if len(after) != 1 or not isinstance(after[0], ast.Return) or after[0].value is None:
            fail(after[0] if after else fn, "the loop must be followed by exactly one `return <name or True / False>`")
        for s in ast.walk(ast.Module(body=before, type_ignores=[])):
            if isinstance(s, (ast.Return, ast.Break, ast.Continue, ast.For, ast.While, ast.Try, ast.With, ast.Raise)):
                fail(s, f"{type(s).__name__} before the loop")
        for s in ast.walk(ast.Module(body=loop.body, type_ignores=[])):
            if isinstance(s, (ast.Break, ast.Continue, ast.For, ast.While, ast.Try, ast.With, ast.Raise)):
                fail(s, f"{type(s).__name__} inside the loop")
            for blk in (getattr(s, "body", None), getattr(s, "orelse", None)):
                if isinstance(blk, list):
                    for j, x in enumerate(blk):
                        if isinstance(x, ast.Return) and j != len(blk) - 1:
                            fail(blk[j + 1], "statement after return")
        early = any(isinstance(s, ast.Return) for s in ast.walk(ast.Module(body=loop.body, type_ignores=[])))
        idx, over, elem = self.loop_header(loop)
        if over not in self.params:
            fail(loop, f"loop over `{over}`, which is not a parameter / attribute of self")
        pnames = " ".join(self.params)
        pdecl = " ".join(f"({p} : {LEAN_TY[self.ptypes[p]]})" for p in self.params)
        env0 = {p: (p, self.ptypes[p]) for p in self.params}
        self.on_return = None
        FUNC = self.name
        pre_assigned = self.assigned(before)
        carried = [n for n in pre_assigned if n in self.assigned(loop.body)]
        retv = after[0].value

        def ret_value(v, env, node):
            """text and type of a returned expression (a list local or a bool literal)"""
            if isinstance(v, ast.Constant) and isinstance(v.value, bool):
                ty, txt = BOOL, ("true" if v.value else "false")
            elif isinstance(v, ast.Name) and v.id in env and env[v.id][1] == LIST:
                ty, txt = LIST, env[v.id][0]
            else:
                fail(node, "return of other than a list local or True / False")
            if self.ret_ty not in (None, ty):
                fail(node, "returns of different types")
            self.ret_ty = ty
            return txt
        if idx in pre_assigned or idx in self.assigned(loop.body) or idx in self.params:
            fail(loop, "loop index is assigned elsewhere")

        result: dict = {}

        def after_prelude(env, ind):
            # types of the carried variables at loop entry
            tys = []
            inits = []
            for n in carried:
                t, ty = env[n]
                want = self.carried_ty.get(n, ty)
                inits.append(self.cast(t, ty, want, loop))
                tys.append(want)
            result["tys"] = tys
            cst = "st.2" if early else "st"
            env2 = dict(env)
            for pos, n in enumerate(carried):
                proj = cst + "".join([".2"] * pos) + (".1" if pos < len(carried) - 1 else "")
                if len(carried) == 1:
                    proj = cst
                env2[n] = (proj, tys[pos])
            rt = ret_value(retv, env2, after[0])
            out = [f"{ind}match {FUNC}.loop {pnames} {over}.length 0 {' '.join(inits)} with",
                   f"{ind}| none => none"]
            if early:
                out += [f"{ind}| some st =>", f"{ind}  match st.1 with", f"{ind}  | some v => some v",
                        f"{ind}  | none => some {rt}"]
            else:
                out += [f"{ind}| some st => some {rt}"]
            return out

        main_lines = self.stmts(before, env0, "  ", after_prelude)
        tys = result["tys"]
        if not carried:
            fail(loop, "no loop-carried variable")
        # one iteration
        cenv = dict(env0)
        cenv[idx] = ("idx", INT)
        for i, (n, ty) in enumerate(zip(carried, tys)):
            cenv[n] = (f"c{i}", ty)
        # locals assigned before the loop but not in it stay visible inside: not supported (keeps the body closed)
        for n in pre_assigned:
            if n not in carried:
                for s in ast.walk(ast.Module(body=loop.body, type_ignores=[])):
                    if isinstance(s, ast.Name) and s.id == n:
                        fail(loop, f"the loop reads `{n}`, a local that it does not update")

        def carried_now(env):
            outs = []
            for n, ty in zip(carried, tys):
                t, t_ty = env[n]
                if t_ty != ty:
                    if t_ty == RAT and ty == INT:
                        raise Retype(n)
                    t = self.cast(t, t_ty, ty, loop)
                outs.append(t)
            return ", ".join(outs)

        def end_body(env, ind):
            if early:
                return [f"{ind}some (none, {carried_now(env)})"]
            return [f"{ind}some ({carried_now(env)})"]

        def loop_return(st, env, ind):
            return [f"{ind}some (some {ret_value(st.value, env, st)}, {carried_now(env)})"]

        self.on_return = loop_return if early else None
        if elem is not None:
            if elem in carried or elem in self.params or elem in pre_assigned:
                fail(loop, f"element variable `{elem}` is also assigned outside the loop")
            r = self.fresh_r()
            cenv[elem] = (r, INT)
            inner = self.stmts(loop.body, cenv, "    ", end_body)
            body_lines = [f"  match pyGet {over} idx with", "  | none => none", f"  | some {r} =>"] + inner
        else:
            body_lines = self.stmts(loop.body, cenv, "  ", end_body)
        self.on_return = None
        if self.ret_ty is None:
            fail(fn, "no return type")
        c_ty = " × ".join(LEAN_TY[t] for t in tys)
        st_ty = f"Option {LEAN_TY[self.ret_ty]} × {c_ty}" if early else c_ty
        cdecl = " ".join(f"(c{i} : {LEAN_TY[t]})" for i, t in enumerate(tys))
        cnames = " ".join(f"c{i}" for i in range(len(tys)))
        projs = []
        cst = "st.2" if early else "st"
        for i in range(len(tys)):
            p = cst + "".join([".2"] * i) + (".1" if i < len(tys) - 1 else "")
            projs.append(cst if len(tys) == 1 else p)
        doc_c = ", ".join(f"c{i} = `{n}`" for i, n in enumerate(carried))
        out = []
        out.append(f"/-- one iteration of the `for` loop of `{FUNC}` (line {loop.lineno}): `idx` the loop index;")
        out.append(f"    loop-carried variables {doc_c}; `none` = exception (IndexError, zero divisor) -/")
        out.append(f"def {FUNC}.body {pdecl} (idx : Int) {cdecl} : Option ({st_ty}) :=")
        out += body_lines
        out.append("")
        out.append(f"/-- `n` more iterations of the loop from index `idx` -/")
        out.append(f"def {FUNC}.loop {pdecl} : Nat → Int → {' → '.join(LEAN_TY[t] for t in tys)} → Option ({st_ty})")
        out.append(f"  | 0, _, {', '.join(f'c{i}' for i in range(len(tys)))} => some ({'none, ' if early else ''}{', '.join(f'c{i}' for i in range(len(tys)))})")
        out.append(f"  | n + 1, idx, {', '.join(f'c{i}' for i in range(len(tys)))} =>")
        out.append(f"    match {FUNC}.body {pnames} idx {cnames} with")
        out.append(f"    | none => none")
        if early:
            out.append(f"    | some st =>")
            out.append(f"      match st.1 with")
            out.append(f"      | some v => some (some v, st.2)")
            out.append(f"      | none => {FUNC}.loop {pnames} n (idx + 1) {' '.join(projs)}")
        else:
            out.append(f"    | some st => {FUNC}.loop {pnames} n (idx + 1) {' '.join(projs)}")
        out.append("")
        out.append(f"/-- `{FUNC}({', '.join(self.params)})`: the loop runs over the indices of `{over}`; `none` = exception -/")
        out.append(f"def {FUNC} {pdecl} : Option ({LEAN_TY[self.ret_ty]}) :=")
        out += main_lines
        out.append("")
        return "\n".join(out) + "\n"


def translate(repo: Path) -> tuple[str, str]:
    """returns (lean text, sha256 over the source files); raises Unsupported"""
    h = hashlib.sha256()
    trees = {}
    for rel in REL_SOURCES:
        path = Path(repo) / rel
        try:
            raw = path.read_bytes()
        except OSError as e:
            raise Unsupported(f"cannot read {path}: {e}") from e
        h.update(rel.encode() + b"\0" + raw + b"\0")
        try:
            trees[rel] = ast.parse(raw.decode("utf-8"))
        except (SyntaxError, UnicodeDecodeError) as e:
            raise Unsupported(f"{rel}: cannot parse: {e}") from e
    sha = h.hexdigest()
    _current[0] = REL_SOURCES[0]
    fns = [n for n in trees[REL_SOURCES[0]].body if isinstance(n, ast.FunctionDef) and n.name == FUNC]
    if len(fns) != 1:
        raise Unsupported(f"{REL_SOURCES[0]}: {len(fns)} module-level definitions of `{FUNC}`")
    if fns[0].decorator_list:
        fail(fns[0], "decorated function")
    if [a.arg for a in fns[0].args.args] != ["channel_size", "kernel_size", "stride_size", "input_shape"]:
        fail(fns[0], "signature other than (channel_size, kernel_size, stride_size, input_shape) — the call sites of "
                     "py2lean_arch.py pass these four lists in this order")
    try:
        body = Tr(fns[0]).run()
        _current[0] = REL_SOURCES[1]
        cls = [n for n in trees[REL_SOURCES[1]].body if isinstance(n, ast.ClassDef) and n.name == METHOD[0]]
        if len(cls) != 1:
            raise Unsupported(f"{REL_SOURCES[1]}: {len(cls)} definitions of class {METHOD[0]}")
        ms = [n for n in cls[0].body if isinstance(n, ast.FunctionDef) and n.name == METHOD[1]]
        if len(ms) != 1:
            raise Unsupported(f"{REL_SOURCES[1]}: {len(ms)} definitions of {METHOD[0]}.{METHOD[1]}")
        if ms[0].decorator_list:
            fail(ms[0], "decorated method")
        tr2 = Tr(ms[0], name="later_layers_fit", method=True)
        if tr2.params != ["int_sizes", "hidden_layer", "new_kernel_size", "stride_size", "input_shape"]:
            fail(ms[0], f"parameters {tr2.params}: expected self.int_sizes and (hidden_layer, new_kernel_size, stride_size, "
                        "input_shape) — the call site of py2lean_arch.py passes these in this order")
        body2 = tr2.run()
    except RecursionError as e:
        raise Unsupported(f"{_current[0]}: nesting too deep") from e
    header = "\n".join([
        "/-",
        f"  Gen/KernelGen.lean — GENERATED by harness/py2lean_kernel.py from `{FUNC}`",
        f"  ({REL_SOURCES[0]}) and `{METHOD[0]}.{METHOD[1]}` ({REL_SOURCES[1]}); do not edit.  Core Lean only.",
        "  Exact integer / rational arithmetic (`np.floor` = `Rat.floor`, `int(…)` = truncation toward zero, a float",
        "  literal = its exact value, `//` = `Int.fdiv`; a zero divisor = `none`).  `Proofs/KernelGenEq.lean` proves the",
        "  functions equal to `CNN.maxKernels` / `CNN.laterFit` of `Model/Arch.lean` for every architecture with strides ≥ 1.",
        "-/",
        SHA_PREFIX + sha,
        "set_option linter.unusedVariables false",
        "",
    ])
    return header + "\n" + PRELUDE + "\n" + body + body2 + "end KernelGen\n", sha


def strip_sha(text: str) -> str:
    return "\n".join(ln for ln in text.split("\n") if not ln.startswith(SHA_PREFIX))


def write_if_changed(text: str, out: Path, force: bool = False) -> bool:
    """writes `text` unless the file already holds the same translation (sha line ignored)"""
    out = Path(out)
    old = out.read_text() if out.exists() else None
    if old is not None and not force and strip_sha(old) == strip_sha(text):
        return False
    if old == text:
        return False
    out.parent.mkdir(parents=True, exist_ok=True)
    tmp = out.with_suffix(".lean.tmp")
    tmp.write_text(text)
    os.replace(tmp, out)
    return True


def main(argv: list[str]) -> int:
    import argparse
    ap = argparse.ArgumentParser()
    ap.add_argument("--repo", default=None)
    ap.add_argument("--out", default=str(DEFAULT_OUT))
    ap.add_argument("--stdout", action="store_true")
    ap.add_argument("--force", action="store_true", help="rewrite even if only the sha256 line differs")
    a = ap.parse_args(argv)
    try:
        text, sha = translate(repo_dir(a.repo))
    except Unsupported as e:
        print(f"py2lean_kernel: {e}", file=sys.stderr)
        return 1
    if a.stdout:
        sys.stdout.write(text)
        return 0
    changed = write_if_changed(text, Path(a.out), a.force)
    print(f"{a.out}: {'written' if changed else 'unchanged'} (source sha256 {sha[:16]}…, "
          f"translation sha256 {hashlib.sha256(strip_sha(text).encode()).hexdigest()[:16]}…)")
    return 0


if __name__ == "__main__":
    sys.exit(main(sys.argv[1:]))
