#!/usr/bin/env python3
"""
py2lean_loop.py — translate the COUNTER SLICE of the six training functions of REPO/agilerl/training/
(train_off_policy, train_on_policy, train_offline, train_bandits, train_multi_agent_off_policy,
train_multi_agent_on_policy) into Lean 4.

    python3 harness/py2lean_loop.py [--repo DIR] [--out FILE] [--stdout] [--force]

Reads the *source text* only (Python `ast`; agilerl is never imported) and writes lean/Gen/LoopGen.lean (core Lean
only; one namespace per function: `LoopGen.Off`, `.On`, `.Offline`, `.Bandit`, `.MaOff`, `.MaOn`).
`Proofs/LoopGenEq.lean` proves the generated definitions equal to `cond`, `offStep` / `onOuter` / … , `trainAgent`,
`genTrain`, `genSelect`, `genCheckpoint`, `genBody`, `whileStep`, `run` of the hand-written `Model/Loop.lean`;
`Props/C20.lean` restates the C20 theorems over the generated `run` (`C20_source_translation_*`).

The translator is a SLICING SYMBOLIC EXECUTOR.  Per file: THE FUNCTION = the one top-level `def train_*`; THE LOOP =
its one top-level `while`; THE POPULATION = the first element of the returned tuple (`return pop, R`), R the
list of per-generation fitness lists.  Everything below flows from the AST:

  * `cond`      — the `while` test: comprehensions over the population, `np.less/less_equal/greater/greater_equal`,
                  `.all()` / `.any()`, `np.sum` / `sum`, comparisons (`.all()` ↔ `.any()`, per agent ↔ summed,
                  `<` ↔ `<=` all change the text).
  * `S<k>`      — one state transformer per SLICED top-level statement of the loop body, in source order
                  (`St → St`, written in SSA form: one `let` per assignment / event, `bif` merges after an `if`);
                  `genBody` composes them; after a statement that contains a `return` the rest runs only if the
                  function has not returned (`bif s.halted then s else …`).
  * `agentBody<k>` — the body of a `for [i,] agent in [enumerate(]pop[)]` loop that steps the environment, adds to the
                  memory or learns (threaded through the population by `forPop`); population loops that only
                  write the agent become `pop.map (fun agent => …)`.
  * `loop<path>_body` — one definition per `for v in range(N)` loop nested in an agent body (`iterate body N`), the
                  bound N an integer expression over the parameters (`evo_steps // num_envs`,
                  `-(evo_steps // -agent.learn_step)` → `Int.toNat (-(Int.fdiv …))`, …).
  * `whileStep`, `run` — the fixed wrapper: one trip round the `while` (nothing once returned), a fold over the
                  per-generation inputs.

What is KEPT (the slice): assignments to / arithmetic on integer counters — function-level counters initialised
to a constant before the loop (roles by structure, not by name: `total` = updated inside a population loop,
`ckpts` = updated next to the checkpoint save, `evoCount` = updated next to the selection), the per-agent counter
`steps` (initialised in the population loop's body), temporaries (`learn_step = agent.learn_step // num_envs`,
substituted); `agent.steps[-1] op= e`, `agent.steps.append(e)`; the learn-scheduling tests over `len(memory)`,
`memory.size`, `memory.counter`, `agent.batch_size`, `agent.learn_step`, `idx % k == 0`; the opaque EVENTS in order:
`env.step(…)` (env += num_envs of the environment, its += 1), `agent.learn(…)` (learns += 1), `memory.add(…)` /
`memory.save_to_memory(…)` (`ops.add`), `v = n_step_memory.add(…)` (`ops.nAdd`, `v is not None` = its flag),
`[agent.test(…) for agent in pop]` (one fitness entry per agent), `R.append(fitnesses)` (gens += 1),
`pop = tournament_selection_and_mutation(population=pop, …)` (`tsm`, an abstract function of an external state and
the population), `save_population_checkpoint(population=pop, …)` (records every agent's `steps[-1]`), `return pop, R`.

Supported subset inside the slice
  * statements: `x = e`, `x op= e` (`+ * // %`; a counter must stay a natural number), `agent.steps[-1] = / op= e`, event
    calls as expression statements or as the whole right-hand side of an assignment to plain names, `if / elif / else`
    (both branches executed on a forked store, merged per variable with `bif c then … else …`), `for v in range(e)` with a
    plain loop variable (no `else`, no `break` / `continue`), `for [i,] agent in [enumerate(]pop[)]`, `return pop, R` inside
    `if`s at generation level (nothing of the slice may follow it inside the same top-level statement), `pass`.
  * expressions: natural constants, `True` / `False`, integer parameters (`max_steps evo_steps learning_delay episode_steps
    checkpoint`), the `num_envs` local, counters, temporaries, function-level names initialised to a constant and never
    written in the loop (constants), loop variables, `agent.learn_step / batch_size / index`, `X.steps[-1]` and `len(X.steps)`
    for `X` = the loop's agent or `pop[k]`, `len(memory)`, `memory.size`, `memory.counter`, `len(pop)`, `+ - * // %`, unary
    minus, `min / max / int`, comparisons, `and / or / not`, `a if c else b`, `x is [not] None` and truthiness of
    `checkpoint target tournament mutation n_step_memory` and of an n-step result, `[e for agent in pop]`,
    `np.less / less_equal / greater / greater_equal / equal / not_equal(list, n)`, `.all() / .any() / np.all / np.any / all / any`,
    `np.sum / sum / .sum()`.

What is DROPPED: every other statement (environment handling, tensors, logging, wandb, progress bars) — but only
after checking that it does not write a sliced variable (a counter, `pop`, the loop's `agent`, `memory`, `env`,
`num_envs`, an integer parameter), does not store to `agent.steps / fitness / learn_step / batch_size / index`, calls
no unknown method on the memory, hides no event call, aliases no sliced object and contains no `break` / `continue` /
`return` / `raise` of a kept loop.  A violation, a sliced variable flowing through something untranslatable, or a
non-sliced condition guarding two different slices is `Unsupported` with file:line.  Never guessed.
An `if` whose two branches have the SAME slice is merged and its condition dropped (`if per: … learn … else: … learn`).
A conjunct of a generation-level condition that reads fitness data (`np.all(np.greater([np.mean(agent.fitness[-10:]) …],
target))`) becomes the per-generation Bool input `in0`.

Assumptions (listed again in the header of the generated file):
  * integers are unbounded; parameters and counters are naturals (`a - b`, unary minus switch to `Int`, `//` = `Int.fdiv`);
  * `num_envs` is bound by `if hasattr(env, "num_envs"): num_envs = env.num_envs else: num_envs = 1` (checked) and one
    `env.step` of that environment performs `num_envs` environment steps (1 when the function has no such binding);
  * `agent.test` appends exactly one entry to `agent.fitness`; `agent.learn`, `get_action` and the other agent methods
    do not change `steps`, `fitness`, `learn_step`, `batch_size`, `index`; `learn_step` / `batch_size` in force during a
    generation are inputs (`hp`; mutation may change them between generations);
  * the population on loop entry is the one after the pre-training mutation; the memory on loop entry is an input
    (train_offline fills it before the loop); `accelerator`-only statements are dropped like logging;
  * functions that receive `pop` / `agent` / `memory` as an argument, other than the events, do not change counters.

The header carries the sha256 of the six source files; `write_if_changed` compares everything *but* that line.
"""
from __future__ import annotations

import ast
import hashlib
import os
import sys
from pathlib import Path

HERE = Path(__file__).resolve().parent
DEFAULT_OUT = HERE.parent / "lean" / "Gen" / "LoopGen.lean"
TARGETS = (            # namespace, source, function
    ("Off", "agilerl/training/train_off_policy.py", "train_off_policy"),
    ("On", "agilerl/training/train_on_policy.py", "train_on_policy"),
    ("Offline", "agilerl/training/train_offline.py", "train_offline"),
    ("Bandit", "agilerl/training/train_bandits.py", "train_bandits"),
    ("MaOff", "agilerl/training/train_multi_agent_off_policy.py", "train_multi_agent_off_policy"),
    ("MaOn", "agilerl/training/train_multi_agent_on_policy.py", "train_multi_agent_on_policy"),
)
REL_SOURCES = tuple(t[1] for t in TARGETS)
REL_SOURCE = "agilerl/training/train_{off_policy,on_policy,offline,bandits,multi_agent_off_policy,multi_agent_on_policy}.py"
SHA_PREFIX = "-- sha256(source) = "

INT_PARAMS = ("max_steps", "evo_steps", "learning_delay", "episode_steps", "checkpoint")
FLAG_PARAMS = ("checkpoint", "target", "tournament", "mutation", "n_step_memory")       # `X is not None` / truthiness
AGENT_INT_ATTRS = {"learn_step": "ls", "batch_size": "bs", "index": "index"}
AGENT_GUARDED_ATTRS = {"steps", "fitness", "learn_step", "batch_size", "index"}
MEM_NAMES = ("memory", "n_step_memory")
MEM_EVENT_METHODS = {"add", "save_to_memory"}
MEM_PURE_METHODS = {"update_priorities", "sample", "sample_from_indices", "__len__"}
TSM_FUNC = "tournament_selection_and_mutation"
SAVE_FUNC = "save_population_checkpoint"
CMP = {ast.Eq: "=", ast.NotEq: "≠", ast.Lt: "<", ast.LtE: "≤", ast.Gt: ">", ast.GtE: "≥"}
NP_CMP = {"less": "<", "less_equal": "≤", "greater": ">", "greater_equal": "≥", "equal": "=", "not_equal": "≠"}
ROLL_VARS = ("m", "steps", "total", "env", "its", "learns")
ST_VARS = ("pop", "mem", "ext", "total", "ckpts", "evoCount", "gens", "halted", "saved", "learns", "selects", "events")
AGENT_VARS = ("cur", "past", "fit")


class Unsupported(Exception):
    pass


_current_file = [REL_SOURCE]


def where(node) -> str:
    return f"{_current_file[0]}:{getattr(node, 'lineno', '?')}"


def unparse(n, k: int = 80) -> str:
    s = " ".join(ast.unparse(n).split()).replace("-/", "- /").replace("/-", "/ -")
    return s if len(s) <= k else s[:k] + "…"


def bad(node, what: str):
    raise Unsupported(f"{where(node)}: {what}: `{unparse(node)}`")


# ---------------------------------------------------------------------------------------------- fixed Lean prelude
PRELUDE = r'''namespace LoopGen

/-- an agent as the training loops see it: `cur` = `steps[-1]`, `past` = `steps[:-1]` (newest first), `fit` =
    `len(fitness)`, `ls` / `bs` = `learn_step` / `batch_size`; `env`, `its`, `learns` count the events of its lineage
    (environment steps, `env.step` calls, `learn` calls); `tag` names the weights -/
structure Agent where
  index : Nat := 0
  cur : Nat := 0
  past : List Nat := []
  fit : Nat := 0
  ls : Nat := 1
  bs : Nat := 1
  env : Nat := 0
  its : Nat := 0
  learns : Nat := 0
  tag : Nat := 0
deriving Repr, DecidableEq, Inhabited

/-- the replay memories, abstract: `add` = `memory.add` / `save_to_memory`, `nAdd` = `n_step_memory.add` (the Bool:
    the returned transition is not None), `len` = `len(memory)`, `size` = `memory.size`, `counter` = `memory.counter` -/
structure MemOps (μ : Type) where
  add : μ → μ
  nAdd : μ → μ × Bool
  len : μ → Nat
  size : μ → Nat
  counter : μ → Nat

/-- arguments of a training function (`has_x` = `x is not None` / `x` is truthy) -/
structure Params where
  max_steps : Nat := 0
  evo_steps : Nat := 0
  num_envs : Nat := 1
  learning_delay : Nat := 0
  episode_steps : Nat := 0
  checkpoint : Nat := 0
  has_checkpoint : Bool := false
  has_target : Bool := false
  has_tournament : Bool := false
  has_mutation : Bool := false
  has_n_step_memory : Bool := false
deriving Repr, Inhabited

/-- local state of one agent's rollout -/
structure Roll (μ : Type) where
  m : μ
  steps : Nat := 0
  total : Nat := 0
  env : Nat := 0
  its : Nat := 0
  learns : Nat := 0

inductive Ev where
  | train | test | fitnessAppend | stepsAppend | earlyReturn | select | save
deriving Repr, DecidableEq, Inhabited

/-- state of a training function between two statements of the `while` body; `ext` = the state of the world the
    abstract selection reads and writes, `events` = the events of the current trip in order -/
structure St (μ ε : Type) where
  pop : List Agent := []
  mem : μ
  ext : ε
  total : Nat := 0
  ckpts : Nat := 0
  evoCount : Nat := 0
  gens : Nat := 0
  halted : Bool := false
  saved : List (List Nat) := []
  learns : List (List Nat) := []
  selects : Nat := 0
  events : List Ev := []

/-- `f 0`, then `f 1`, …, then `f (n-1)`: `for i in range(n)` -/
def iterate {α} (f : Nat → α → α) : Nat → α → α
  | 0, x => x
  | n + 1, x => f n (iterate f n x)

/-- what a population loop shares between its iterations -/
structure Shared (μ : Type) where
  m : μ
  total : Nat
  learns : List Nat

/-- `for agent in pop: body` with the shared state threaded through -/
def forPop {μ} (f : Agent → Shared μ → Agent × Shared μ) : List Agent → Shared μ → List Agent × Shared μ
  | [], sh => ([], sh)
  | a :: as, sh =>
    let (a', sh') := f a sh
    let (as', sh'') := forPop f as sh'
    (a' :: as', sh'')

/-- the hyper-parameters in force during a generation -/
def applyHp : List Agent → List (Nat × Nat) → List Agent
  | [], _ => []
  | as, [] => as
  | a :: as, (l, b) :: hs => { a with ls := l, bs := b } :: applyHp as hs

/-- per-generation inputs: hyper-parameters in force, the opaque condition, the abstract selection + mutation -/
structure GenIn (ε : Type) where
  hp : List (Nat × Nat) := []
  in0 : Bool := false
  tsm : ε → List Agent → ε × List Agent
'''

STAGE_SIG = ("{μ ε} (P : Params) (ops : MemOps μ) (tsm : ε → List Agent → ε × List Agent) (in0 : Bool) "
             "(s : St μ ε) : St μ ε :=")

WRAPPER = r'''def whileStep {μ ε} (P : Params) (ops : MemOps μ) (i : GenIn ε) (s : St μ ε) : St μ ε :=
  bif s.halted || !(cond P s.pop) then s
  else genBody P ops i.tsm i.in0 { s with pop := applyHp s.pop i.hp, events := [] }

def run {μ ε} (P : Params) (ops : MemOps μ) (s : St μ ε) (ins : List (GenIn ε)) : St μ ε :=
  ins.foldl (fun s i => whileStep P ops i s) s
'''


# ---------------------------------------------------------------------------------------------- symbolic store
class Ctx:
    """SSA store of one generated definition: `cur[v]` = Lean term currently holding state variable v; `lets` = the
    emitted bindings (shared by the branches of an `if`: everything is pure, so hoisting is sound); value numbering:
    the same right-hand side for the same variable reuses its name"""

    def __init__(self, kind: str, init: dict, inline: bool = False):
        self.kind = kind                  # 'gen' | 'agent' | 'roll' | 'lambda'
        self.cur = dict(init)
        self.lets: list[str] = []
        self.n: dict[str, int] = {}
        self.defs: dict[tuple, str] = {}
        self.inline = inline
        self.tmp: dict[str, tuple] = {}   # temporaries: name -> (term, type)
        self.flags: dict[str, str] = {}   # locals holding an Optional: name -> Bool term of `is not None`
        self.markers: dict[str, str] = {} # locals holding a recognised value (e.g. the list of test results)
        self.idx: dict[str, str] = {}     # range-loop variables -> canonical `i<d>`
        self.returned = False

    def bind(self, var: str, rhs: str, ty: str | None = None) -> str:
        """let var<k> := rhs ; returns the name"""
        if self.inline:
            return f"({rhs})" if " " in rhs and not rhs.startswith("(") else rhs
        key = (var, rhs)
        if key in self.defs:
            return self.defs[key]
        self.n[var] = self.n.get(var, 0) + 1
        name = f"{var}{self.n[var]}"
        self.lets.append(f"  let {name}{(' : ' + ty) if ty else ''} := {rhs}")
        self.defs[key] = name
        return name

    def set(self, var: str, rhs: str, ty: str | None = None):
        self.cur[var] = self.bind(var, rhs, ty)

    def fork(self) -> "Ctx":
        c = Ctx.__new__(Ctx)
        c.__dict__.update(self.__dict__)
        c.cur, c.tmp, c.flags, c.markers = dict(self.cur), dict(self.tmp), dict(self.flags), dict(self.markers)
        return c                                  # lets, n, defs, idx stay shared


# ---------------------------------------------------------------------------------------------- expressions
def par(t: str) -> str:
    return t if (t.isidentifier() or t.isdigit() or (t.startswith("(") and t.endswith(")") and _balanced(t))
                 or all(p.isidentifier() or p.isdigit() for p in t.split("."))) else f"({t})"


def _balanced(t: str) -> bool:
    d = 0
    for i, ch in enumerate(t):
        d += ch == "("
        d -= ch == ")"
        if d == 0 and i < len(t) - 1:
            return False
    return d == 0


def to_int(v):
    t, ty = v
    return (t, ty) if ty == "int" else (f"Int.ofNat {par(t)}", "int")


class Fn:
    """one training function: names found by structure + the expression / statement translators"""

    def __init__(self, ns: str, rel: str, fdef: ast.FunctionDef):
        self.ns, self.rel, self.fdef = ns, rel, fdef
        self.params = [a.arg for a in fdef.args.args + fdef.args.kwonlyargs]
        self.pop = self.ret = None        # names of the population / the returned fitness list
        self.agent = None                 # variable of the population loop being executed
        self.nenv = None                  # local bound to env.num_envs / 1
        self.roles: dict[str, str] = {}   # source counter name -> total | ckpts | evoCount | steps
        self.temps: set[str] = set()
        self.defs: list[str] = []         # emitted Lean definitions, in order
        self.notes: list[str] = []        # header remarks (dropped events, opaque inputs)
        self.in0_src: str | None = None
        self.depth = 0

    # ---- helpers
    def is_name(self, n, name) -> bool:
        return isinstance(n, ast.Name) and n.id == name

    def is_agent(self, n) -> bool:
        return self.agent is not None and self.is_name(n, self.agent)

    def pop_elem(self, n, ctx):
        """`pop[k]` -> Lean term of that agent, else None"""
        if isinstance(n, ast.Subscript) and self.is_name(n.value, self.pop) and isinstance(n.slice, ast.Constant) \
                and isinstance(n.slice.value, int) and n.slice.value >= 0 and "pop" in ctx.cur:
            k = n.slice.value
            p = par(ctx.cur["pop"])
            return f"({p}.headD default)" if k == 0 else f"({p}.getD {k} default)"
        return None

    def agent_term(self, n, ctx):
        """Lean term of the agent denoted by `n` (`agent` or `pop[k]`) and whether its SSA fields apply"""
        if self.is_agent(n):
            return "agent", True
        e = self.pop_elem(n, ctx)
        return (e, False) if e else (None, False)

    def steps_last(self, n, ctx):
        """`X.steps[-1]` -> term"""
        if isinstance(n, ast.Subscript) and isinstance(n.value, ast.Attribute) and n.value.attr == "steps" \
                and isinstance(n.slice, ast.UnaryOp) and isinstance(n.slice.op, ast.USub) \
                and isinstance(n.slice.operand, ast.Constant) and n.slice.operand.value == 1:
            a, ssa = self.agent_term(n.value.value, ctx)
            if a is None:
                return None
            return ctx.cur["cur"] if (ssa and "cur" in ctx.cur) else f"{a}.cur"
        return None

    def mem_term(self, ctx):
        return ctx.cur.get("m") or ctx.cur.get("mem")

    # ---- the expression translator: (term, type) with type nat | int | bool | listnat | listbool; None if `soft`
    def expr(self, n, ctx: Ctx, soft: bool = False):
        try:
            return self._expr(n, ctx)
        except Unsupported:
            if soft:
                return None
            raise

    def _arith(self, n, op, a, b):
        if op in (ast.Sub,) or a[1] == "int" or b[1] == "int":
            a, b = to_int(a), to_int(b)
            sym = {ast.Add: "+", ast.Sub: "-", ast.Mult: "*"}.get(op)
            if sym:
                return f"{par(a[0])} {sym} {par(b[0])}", "int"
            if op is ast.FloorDiv:
                return f"Int.fdiv {par(a[0])} {par(b[0])}", "int"
            if op is ast.Mod:
                return f"Int.fmod {par(a[0])} {par(b[0])}", "int"
            bad(n, "integer operator outside the subset")
        sym = {ast.Add: "+", ast.Mult: "*", ast.FloorDiv: "/", ast.Mod: "%"}.get(op)
        if not sym:
            bad(n, "integer operator outside the subset")
        return f"{par(a[0])} {sym} {par(b[0])}", "nat"

    def _num(self, n, ctx):
        v = self._expr(n, ctx)
        if v[1] not in ("nat", "int"):
            bad(n, "an integer is needed here")
        return v

    def _bool(self, n, ctx):
        v = self._expr(n, ctx)
        if v[1] != "bool":
            bad(n, "a condition over counters / flags is needed here")
        return v

    def _expr(self, n, ctx: Ctx):
        if isinstance(n, ast.Constant):
            if isinstance(n.value, bool):
                return ("true" if n.value else "false"), "bool"
            if isinstance(n.value, int) and n.value >= 0:
                return str(n.value), "nat"
            bad(n, "constant outside the subset")
        if isinstance(n, ast.Name):
            x = n.id
            if x in ctx.idx:
                return ctx.idx[x], "nat"
            if x in ctx.tmp:
                return ctx.tmp[x]
            if x == self.nenv:
                return "P.num_envs", "nat"
            if x in getattr(self, "consts", {}):
                return self.consts[x], "nat"
            if x in self.roles:
                r = self.roles[x]
                if r in ctx.cur and ctx.cur[r] is not None:
                    return ctx.cur[r], "nat"
                bad(n, f"counter `{x}` ({r}) read where it is not available / before it is assigned")
            if x in INT_PARAMS and x in self.params:
                return f"P.{x}", "nat"
            if x in FLAG_PARAMS and x in self.params:
                return f"P.has_{x}", "bool"
            if x in ctx.flags:
                bad(n, "an Optional local used as a number")
            if x in getattr(self, "rejected", {}):
                bad(n, f"`{x}` is not an integer counter (it is assigned `{unparse(self.rejected[x], 40)}` at "
                       f"{where(self.rejected[x])}) but flows into the slice")
            bad(n, "name is not a counter, an integer parameter or a flag")
        if isinstance(n, ast.Attribute):
            a, _ = self.agent_term(n.value, ctx)
            if a is not None and n.attr in AGENT_INT_ATTRS:
                return f"{a}.{AGENT_INT_ATTRS[n.attr]}", "nat"
            if self.is_name(n.value, "memory") and n.attr in ("size", "counter") and self.mem_term(ctx):
                return f"ops.{n.attr} {par(self.mem_term(ctx))}", "nat"
            bad(n, "attribute outside the subset")
        if isinstance(n, ast.Subscript):
            t = self.steps_last(n, ctx)
            if t is not None:
                return t, "nat"
            bad(n, "subscript outside the subset")
        if isinstance(n, ast.UnaryOp):
            if isinstance(n.op, ast.USub):
                v = to_int(self._num(n.operand, ctx))
                return f"-{par(v[0])}", "int"
            if isinstance(n.op, ast.Not):
                return f"!{par(self._bool(n.operand, ctx)[0])}", "bool"
            bad(n, "unary operator outside the subset")
        if isinstance(n, ast.BinOp):
            return self._arith(n, type(n.op), self._num(n.left, ctx), self._num(n.right, ctx))
        if isinstance(n, ast.BoolOp):
            sym = " && " if isinstance(n.op, ast.And) else " || "
            return sym.join(par(self._bool(v, ctx)[0]) for v in n.values), "bool"
        if isinstance(n, ast.IfExp):
            c, a, b = self._bool(n.test, ctx), self._num(n.body, ctx), self._num(n.orelse, ctx)
            if a[1] != b[1]:
                a, b = to_int(a), to_int(b)
            return f"bif {c[0]} then {a[0]} else {b[0]}", a[1]
        if isinstance(n, ast.Compare):
            return self._compare(n, ctx)
        if isinstance(n, ast.ListComp):
            return self._listcomp(n, ctx)
        if isinstance(n, ast.Call):
            return self._call(n, ctx)
        bad(n, "expression outside the subset")

    def _compare(self, n: ast.Compare, ctx: Ctx):
        if len(n.ops) != 1:
            bad(n, "chained comparison")
        op, l, r = n.ops[0], n.left, n.comparators[0]
        if isinstance(op, (ast.Is, ast.IsNot)):
            if not (isinstance(r, ast.Constant) and r.value is None and isinstance(l, ast.Name)):
                bad(n, "`is` test outside the subset")
            if l.id in ctx.flags:
                t = ctx.flags[l.id]
            elif l.id in FLAG_PARAMS and l.id in self.params:
                t = f"P.has_{l.id}"
            else:
                bad(n, "`is None` test of a value that is not a sliced Optional")
            return (t if isinstance(op, ast.IsNot) else f"!{par(t)}"), "bool"
        if type(op) not in CMP:
            bad(n, "comparison outside the subset")
        a, b = self._expr(l, ctx), self._expr(r, ctx)
        if a[1] in ("nat", "int") and b[1] in ("nat", "int"):
            if a[1] != b[1]:
                a, b = to_int(a), to_int(b)
            return f"decide ({par(a[0])} {CMP[type(op)]} {par(b[0])})", "bool"
        bad(n, "comparison of values that are not integers")

    def _listcomp(self, n: ast.ListComp, ctx: Ctx):
        g = n.generators[0] if len(n.generators) == 1 else None
        if g is None or g.ifs or g.is_async or not isinstance(g.target, ast.Name) or not self.is_name(g.iter, self.pop) \
                or "pop" not in ctx.cur:
            bad(n, "comprehension outside the subset (only `[e for agent in pop]`)")
        saved, self.agent = self.agent, g.target.id
        try:
            lam = Ctx("lambda", {"cur": "agent.cur", "past": "agent.past", "fit": "agent.fit"}, inline=True)
            lam.idx = ctx.idx
            e = self._expr(n.elt, lam)
        finally:
            self.agent = saved
        if e[1] not in ("nat", "bool"):
            bad(n, "comprehension element is not a natural number / condition")
        return f"{par(ctx.cur['pop'])}.map (fun agent => {e[0]})", "list" + e[1]

    def _call(self, n: ast.Call, ctx: Ctx):
        f = n.func
        path = []
        g = f
        while isinstance(g, ast.Attribute):
            path.append(g.attr)
            g = g.value
        root = g.id if isinstance(g, ast.Name) else None
        path = list(reversed(path))
        if n.keywords and not (root in ("np", "numpy")):
            bad(n, "call with keywords outside the subset")
        # len(...)
        if root == "len" and not path and len(n.args) == 1:
            a = n.args[0]
            if self.is_name(a, "memory") and self.mem_term(ctx):
                return f"ops.len {par(self.mem_term(ctx))}", "nat"
            if self.is_name(a, self.pop) and "pop" in ctx.cur:
                return f"{par(ctx.cur['pop'])}.length", "nat"
            if isinstance(a, ast.Attribute) and a.attr == "steps":
                t, ssa = self.agent_term(a.value, ctx)
                if t is not None:
                    past = ctx.cur["past"] if (ssa and "past" in ctx.cur) else f"{t}.past"
                    return f"{par(past)}.length + 1", "nat"
            bad(n, "len() of something that is not the memory, the population or a steps list")
        if root in ("int",) and not path and len(n.args) == 1:
            return self._num(n.args[0], ctx)
        if root in ("min", "max") and not path and len(n.args) == 2:
            a, b = self._num(n.args[0], ctx), self._num(n.args[1], ctx)
            if a[1] != b[1]:
                a, b = to_int(a), to_int(b)
            return f"{root} {par(a[0])} {par(b[0])}", a[1]
        # numpy / builtin reductions and element-wise comparisons
        if root in ("np", "numpy") and len(path) == 1 and path[0] in NP_CMP and len(n.args) == 2 and not n.keywords:
            a, b = self._expr(n.args[0], ctx), self._expr(n.args[1], ctx)
            if a[1] == "listnat" and b[1] == "nat":
                return f"{par(a[0])}.map (fun x => decide (x {NP_CMP[path[0]]} {par(b[0])}))", "listbool"
            if a[1] == "nat" and b[1] == "listnat":
                return f"{par(b[0])}.map (fun x => decide ({par(a[0])} {NP_CMP[path[0]]} x))", "listbool"
            bad(n, "element-wise comparison outside the subset")
        red = None
        if root in ("np", "numpy") and len(path) == 1 and path[0] in ("sum", "all", "any") and len(n.args) == 1 and not n.keywords:
            red, arg = path[0], self._expr(n.args[0], ctx)
        elif root in ("sum", "all", "any") and not path and len(n.args) == 1:
            red, arg = root, self._expr(n.args[0], ctx)
        elif path and path[-1] in ("all", "any", "sum") and not n.args and not n.keywords:
            red, arg = path[-1], self._expr(f.value, ctx)
        if red:
            if red == "sum" and arg[1] == "listnat":
                return f"{par(arg[0])}.sum", "nat"
            if red in ("all", "any") and arg[1] == "listbool":
                return f"{par(arg[0])}.{red} id", "bool"
            bad(n, "reduction outside the subset")
        bad(n, "call outside the subset")

    # ---- conditions: Bool term, or None when the test reads nothing the slice knows (decided by the caller)
    def mentions_sliced(self, n) -> bool:
        """does the expression read a counter, an agent's steps, the memory fill or an Optional of the slice?"""
        for x in ast.walk(n):
            if isinstance(x, ast.Name) and (x.id in self.roles or x.id in self.temps or x.id == self.nenv
                                           or x.id in INT_PARAMS):
                return True
            if isinstance(x, ast.Attribute) and x.attr in ("steps", "size", "counter", "learn_step", "batch_size"):
                return True
            if isinstance(x, ast.Call) and isinstance(x.func, ast.Name) and x.func.id == "len" and x.args \
                    and isinstance(x.args[0], ast.Name) and x.args[0].id in MEM_NAMES:
                return True
        return False

    def cond(self, n, ctx: Ctx):
        """Bool term of a test; a generation-level conjunct over fitness data becomes the input `in0`; None = the
        test reads nothing of the slice (the caller requires the two branches to have the same slice)"""
        if isinstance(n, ast.BoolOp) and ctx.kind == "gen":
            parts = [self.cond(v, ctx) for v in n.values]
            if all(p is not None for p in parts):
                return (" && " if isinstance(n.op, ast.And) else " || ").join(par(p) for p in parts)
            if all(p is None for p in parts):
                return None
            bad(n, "a condition mixes sliced and non-sliced operands that cannot be separated")
        v = self.expr(n, ctx, soft=True)
        if v is not None:
            if v[1] != "bool":
                bad(n, "truthiness of an integer is outside the subset")
            return v[0]
        for x in ast.walk(n):
            if isinstance(x, ast.Name) and x.id in ctx.flags:
                bad(n, "an Optional of the slice flows through an untranslatable condition")
        if self.mentions_sliced(n):
            bad(n, "a sliced variable flows through an untranslatable condition")
        if ctx.kind == "gen" and any(isinstance(x, ast.Attribute) and x.attr == "fitness" for x in ast.walk(n)):
            src = unparse(n, 200)
            if self.in0_src is not None and self.in0_src != src:
                bad(n, "a second opaque fitness condition (only one per function is supported)")
            self.in0_src = src
            return "in0"
        return None

    # ------------------------------------------------------------------------------------------ events, slices
    def event_of(self, c):
        """kind of the opaque event a call is, or None"""
        if not isinstance(c, ast.Call):
            return None
        f = c.func
        if isinstance(f, ast.Name):
            return {TSM_FUNC: "tsm", SAVE_FUNC: "save"}.get(f.id)
        if not isinstance(f, ast.Attribute):
            return None
        v = f.value
        if f.attr == "step" and self.is_name(v, "env"):
            return "envstep"
        if f.attr in ("learn", "test") and (self.is_agent(v) or (isinstance(v, ast.Name) and v.id == "agent")
                                            or isinstance(v, ast.Subscript) and self.is_name(v.value, self.pop)):
            return f.attr
        if f.attr in MEM_EVENT_METHODS and self.is_name(v, "memory"):
            return "memadd"
        if f.attr == "add" and self.is_name(v, "n_step_memory"):
            return "nadd"
        if f.attr == "append" and isinstance(v, ast.Attribute) and v.attr == "steps":
            return "stepsappend"
        if f.attr == "append" and self.ret is not None and self.is_name(v, self.ret):
            return "retappend"
        return None

    def protected(self) -> set:
        s = set(self.roles) | set(self.temps) | {self.pop, self.ret, self.nenv, "env", *MEM_NAMES}
        s |= {p for p in INT_PARAMS + FLAG_PARAMS if p in self.params}
        if self.agent:
            s.add(self.agent)
        s.discard(None)
        return s

    @staticmethod
    def walk_nocomp_targets(n):
        """ast.walk that does not yield the (scoped) target variables of comprehensions"""
        todo = [n]
        while todo:
            x = todo.pop()
            yield x
            for ch in ast.iter_child_nodes(x):
                if isinstance(x, ast.comprehension) and ch is x.target:
                    continue
                todo.append(ch)

    def has_slice(self, st) -> bool:
        """does the statement (with everything nested in it) belong to the slice?"""
        prot = set(self.roles) | set(self.temps)
        for x in self.walk_nocomp_targets(st):
            if isinstance(x, ast.Call) and self.event_of(x):
                return True
            if isinstance(x, ast.Name) and isinstance(x.ctx, (ast.Store, ast.Del)) and x.id in prot:
                return True
            if isinstance(x, ast.Return):
                return True
            if isinstance(x, (ast.Assign, ast.AugAssign, ast.AnnAssign)):
                for t in (x.targets if isinstance(x, ast.Assign) else [x.target]):
                    if self.guarded_store(t):
                        return True
        return False

    def guarded_store(self, t) -> str | None:
        """the guarded attribute a store target goes through: `<anything>.steps…` / `.fitness…`, and
        `.learn_step` / `.batch_size` / `.index` of the loop's agent or of an element of the population"""
        hit = None
        while isinstance(t, (ast.Attribute, ast.Subscript, ast.Starred)):
            if isinstance(t, ast.Attribute) and t.attr in AGENT_GUARDED_ATTRS:
                hit = t.attr
                root = t.value
                while isinstance(root, (ast.Attribute, ast.Subscript)):
                    root = root.value
                if hit in ("steps", "fitness") or (isinstance(root, ast.Name) and root.id in (self.agent, self.pop, "agent")):
                    return hit
            t = t.value
        return None

    def check_dropped(self, st, in_kept_loop: bool):
        """a statement that is not part of the slice may be dropped only if it cannot touch the slice"""
        prot = self.protected()
        called = {id(c.func) for c in ast.walk(st) if isinstance(c, ast.Call)}
        for x in self.walk_nocomp_targets(st):
            if isinstance(x, ast.Name) and isinstance(x.ctx, (ast.Store, ast.Del)) and x.id in prot:
                bad(x, f"unexpected write to the sliced variable `{x.id}` in a statement outside the slice")
            if isinstance(x, ast.Attribute) and id(x) not in called and isinstance(x.ctx, ast.Load) \
                    and self.event_of(ast.Call(func=x, args=[], keywords=[])):
                bad(x, "an event method is taken as a value (it could be called under another name)")
            if isinstance(x, ast.Name) and id(x) not in called and isinstance(x.ctx, ast.Load) and x.id in (TSM_FUNC, SAVE_FUNC):
                bad(x, "an event function is taken as a value (it could be called under another name)")
            if isinstance(x, (ast.Assign, ast.AugAssign, ast.AnnAssign)):
                for t in (x.targets if isinstance(x, ast.Assign) else [x.target]):
                    g = self.guarded_store(t)
                    if g:
                        bad(x, f"unexpected store to `.{g}` in a statement outside the slice")
                v = x.value
                if isinstance(x, ast.Assign) and v is not None and (
                        (isinstance(v, ast.Name) and v.id in ({self.pop, self.agent, *MEM_NAMES} - {None}))
                        or (isinstance(v, ast.Attribute) and v.attr in ("steps", "fitness"))):
                    bad(x, "a sliced object is aliased")
            if isinstance(x, ast.Call):
                if self.event_of(x):
                    bad(x, "an event call is hidden in a statement the slicer cannot translate")
                f = x.func
                if isinstance(f, ast.Attribute):
                    if isinstance(f.value, ast.Attribute) and f.value.attr in ("steps", "fitness") \
                            and f.attr not in ("index", "count", "copy"):
                        bad(x, f"unexpected method call on `.{f.value.attr}`")
                    if isinstance(f.value, ast.Name) and f.value.id in MEM_NAMES \
                            and f.attr not in MEM_PURE_METHODS | MEM_EVENT_METHODS:
                        bad(x, f"unknown method `{f.attr}` of the replay memory")
            if isinstance(x, (ast.Return, ast.Raise, ast.Global, ast.Nonlocal)):
                bad(x, "control flow outside the subset in a statement outside the slice")
        if in_kept_loop:
            todo = [st]
            while todo:
                x = todo.pop()
                if isinstance(x, (ast.Break, ast.Continue)):
                    bad(x, "`break` / `continue` of a kept loop")
                if isinstance(x, (ast.For, ast.While, ast.AsyncFor)) and x is not st:
                    todo.extend(x.orelse)
                    continue
                if isinstance(x, (ast.For, ast.While)) and x is st:
                    todo.extend(x.orelse)       # its own break / continue stay inside it
                    continue
                todo.extend(ast.iter_child_nodes(x))

    # ------------------------------------------------------------------------------------------ statements
    def apply_event(self, kind: str, call: ast.Call, ctx: Ctx, target=None):
        k = ctx.kind
        if kind == "envstep" and k in ("agent", "roll"):
            ctx.set("env", f"{par(ctx.cur['env'])} + {'P.num_envs' if self.nenv else '1'}")
            ctx.set("its", f"{par(ctx.cur['its'])} + 1")
        elif kind == "learn" and k in ("agent", "roll"):
            ctx.set("learns", f"{par(ctx.cur['learns'])} + 1")
        elif kind == "memadd" and k in ("agent", "roll"):
            ctx.set("m", f"ops.add {par(ctx.cur['m'])}")
        elif kind == "nadd" and k in ("agent", "roll"):
            old = par(ctx.cur["m"])
            ctx.set("m", f"(ops.nAdd {old}).1")
            if target is not None:
                ctx.flags[target] = f"(ops.nAdd {old}).2"
        elif kind == "tsm" and k == "gen":
            arg = next((kw.value for kw in call.keywords if kw.arg == "population"), call.args[0] if call.args else None)
            if target != self.pop or not self.is_name(arg, self.pop):
                bad(call, "selection must read and rebind the population (`pop = tsm(population=pop, …)`)")
            t = ctx.bind("tsm", f"tsm {par(ctx.cur['ext'])} {par(ctx.cur['pop'])}")
            ctx.set("ext", f"{t}.1")
            ctx.set("pop", f"{t}.2", "List Agent")
            ctx.set("selects", f"{par(ctx.cur['selects'])} + 1")
            ctx.set("events", f"{par(ctx.cur['events'])} ++ [Ev.select]")
        elif kind == "save" and k == "gen":
            arg = next((kw.value for kw in call.keywords if kw.arg == "population"), call.args[0] if call.args else None)
            if not self.is_name(arg, self.pop):
                bad(call, "the checkpoint must save the population")
            ctx.set("saved", f"({par(ctx.cur['pop'])}.map (fun agent => agent.cur)) :: {par(ctx.cur['saved'])}")
            ctx.set("events", f"{par(ctx.cur['events'])} ++ [Ev.save]")
        elif kind == "retappend" and k == "gen":
            a = call.args[0] if len(call.args) == 1 else None
            if not (isinstance(a, ast.Name) and self.markers.get(a.id) == "tests"):
                bad(call, "the returned list must receive the list of this generation's test results")
            ctx.set("gens", f"{par(ctx.cur['gens'])} + 1")
            ctx.set("events", f"{par(ctx.cur['events'])} ++ [Ev.fitnessAppend]")
        elif kind == "stepsappend" and k in ("agent", "lambda"):
            f = call.func
            if not self.is_agent(f.value.value) or len(call.args) != 1:
                bad(call, "steps.append of something that is not the loop's agent")
            v = self._num(call.args[0], ctx)
            if v[1] != "nat":
                bad(call, "appended step count is not a natural number")
            old = ctx.cur["cur"]
            ctx.set("past", f"{par(old)} :: {par(ctx.cur['past'])}")
            if v[0] != old:
                ctx.set("cur", v[0])
            ctx.appended = True
        else:
            bad(call, f"event `{kind}` at a place where the slicer does not expect it ({k} level)")

    def exec_block(self, stmts, ctx: Ctx, in_loop: bool):
        for st in stmts:
            if ctx.returned and self.has_slice(st):
                bad(st, "sliced statement after a `return`")
            if getattr(ctx, "sealed", False) and self.has_slice(st):
                bad(st, "sliced statement after a conditional `return` inside one top-level statement")
            self.exec_stmt(st, ctx, in_loop)

    def counter_target(self, t):
        """('role', r) | ('temp', name) | ('cur', None) for `agent.steps[-1]` | None"""
        if isinstance(t, ast.Name):
            if t.id in self.roles:
                return "role", self.roles[t.id]
            if t.id in self.temps:
                return "temp", t.id
            return None
        if isinstance(t, ast.Subscript) and isinstance(t.value, ast.Attribute) and t.value.attr == "steps" \
                and self.is_agent(t.value.value) and isinstance(t.slice, ast.UnaryOp) \
                and isinstance(t.slice.op, ast.USub) and isinstance(t.slice.operand, ast.Constant) \
                and t.slice.operand.value == 1:
            return "cur", None
        return None

    def assign_counter(self, st, tgt, val, ctx: Ctx):
        kind, r = tgt
        if val[1] != "nat":
            bad(st, "a counter would leave the natural numbers (only `+`, `*`, `//`, `%` keep it there)")
        if kind == "temp":
            ctx.tmp[r] = val
            return
        var = "cur" if kind == "cur" else r
        if var not in ctx.cur:
            bad(st, f"counter `{var}` written at the {ctx.kind} level, where the slicer cannot carry it")
        ctx.set(var, val[0])

    def exec_stmt(self, st, ctx: Ctx, in_loop: bool):
        if isinstance(st, (ast.Pass,)):
            return
        if isinstance(st, ast.Expr) and isinstance(st.value, ast.Constant):
            return
        if not self.has_slice(st):
            self.check_dropped(st, in_loop)
            return
        if isinstance(st, ast.Expr):
            ev = self.event_of(st.value)
            if ev:
                self.check_args(st.value)
                return self.apply_event(ev, st.value, ctx)
            bad(st, "sliced expression statement outside the subset")
        if isinstance(st, ast.Assign):
            return self.exec_assign(st, ctx)
        if isinstance(st, ast.AugAssign):
            tgt = self.counter_target(st.target)
            if tgt is None:
                bad(st, "augmented assignment to something of the slice that is not a counter")
            if tgt[0] == "temp":
                bad(st, "a temporary is updated in place (it would need to be carried: no role)")
            var = "cur" if tgt[0] == "cur" else tgt[1]
            if ctx.cur.get(var) is None:
                bad(st, f"counter `{var}` updated before it is assigned / where it is not available")
            old = (ctx.cur[var], "nat")
            return self.assign_counter(st, tgt, self._arith(st, type(st.op), old, self._num(st.value, ctx)), ctx)
        if isinstance(st, ast.If):
            return self.exec_if(st, ctx, in_loop)
        if isinstance(st, ast.For):
            return self.exec_for(st, ctx)
        if isinstance(st, ast.Return):
            return self.exec_return(st, ctx)
        bad(st, "sliced statement outside the subset")

    def check_args(self, call: ast.Call):
        """arguments of an event call must not hide other events or writes"""
        for a in list(call.args) + [k.value for k in call.keywords]:
            for x in self.walk_nocomp_targets(a):
                if isinstance(x, ast.Call) and self.event_of(x):
                    bad(x, "an event call nested in the arguments of another")
                if isinstance(x, ast.NamedExpr):
                    bad(x, "assignment expression in the arguments of an event")

    def exec_assign(self, st: ast.Assign, ctx: Ctx):
        v = st.value
        ev = self.event_of(v)
        if ev:
            self.check_args(v)
            names = []
            for t in st.targets:
                for x in ast.walk(t):
                    if isinstance(x, ast.Name):
                        names.append(x.id)
                    elif not isinstance(x, (ast.Tuple, ast.List, ast.Starred, ast.Store)):
                        bad(st, "result of an event stored into something that is not a plain name")
            if ev == "tsm":
                if len(st.targets) != 1 or not isinstance(st.targets[0], ast.Name):
                    bad(st, "selection result must be bound to the population")
                return self.apply_event(ev, v, ctx, target=st.targets[0].id)
            if set(names) & self.protected():
                bad(st, "result of an event overwrites a sliced variable")
            if ev == "nadd":
                if len(st.targets) != 1 or not isinstance(st.targets[0], ast.Name):
                    bad(st, "n-step result must be bound to one name")
                return self.apply_event(ev, v, ctx, target=names[0])
            for nm in names:
                ctx.flags.pop(nm, None)
            return self.apply_event(ev, v, ctx)
        # fitnesses = [agent.test(...) for agent in pop]
        if isinstance(v, ast.ListComp) and self.event_of(v.elt) == "test":
            g = v.generators[0] if len(v.generators) == 1 else None
            if ctx.kind != "gen" or g is None or g.ifs or not isinstance(g.target, ast.Name) \
                    or not self.is_name(g.iter, self.pop) or not self.is_name(v.elt.func.value, g.target.id) \
                    or len(st.targets) != 1 or not isinstance(st.targets[0], ast.Name) \
                    or st.targets[0].id in self.protected():
                bad(st, "evaluation outside the subset (only `X = [agent.test(…) for agent in pop]`)")
            self.check_args(v.elt)
            ctx.set("pop", f"{par(ctx.cur['pop'])}.map (fun agent => {{ agent with fit := agent.fit + 1 }})", "List Agent")
            ctx.set("events", f"{par(ctx.cur['events'])} ++ [Ev.test]")
            self.markers[st.targets[0].id] = "tests"
            return
        if len(st.targets) != 1:
            bad(st, "chained assignment in the slice")
        tgt = self.counter_target(st.targets[0])
        if tgt is None:
            bad(st, "assignment in the slice outside the subset")
        for x in ast.walk(v):
            if isinstance(x, ast.Call) and self.event_of(x):
                bad(st, "an event call nested in an expression")
        return self.assign_counter(st, tgt, self._num(v, ctx), ctx)

    def exec_return(self, st: ast.Return, ctx: Ctx):
        v = st.value
        if ctx.kind != "gen" or not (isinstance(v, ast.Tuple) and len(v.elts) == 2 and self.is_name(v.elts[0], self.pop)
                                     and self.is_name(v.elts[1], self.ret)):
            bad(st, "`return` outside the subset (only `return pop, <fitness list>` at generation level)")
        ctx.set("halted", "true")
        ctx.set("events", f"{par(ctx.cur['events'])} ++ [Ev.earlyReturn]")
        ctx.returned = True

    def exec_if(self, st: ast.If, ctx: Ctx, in_loop: bool):
        c = self.cond(st.test, ctx)
        a, b = ctx.fork(), ctx.fork()
        a.returned = b.returned = False
        self.exec_block(st.body, a, in_loop)
        self.exec_block(st.orelse, b, in_loop)
        changed = [v for v in ctx.cur if a.cur.get(v) != b.cur.get(v)]
        if not changed and a.flags == b.flags and a.tmp == b.tmp:
            ctx.cur, ctx.flags, ctx.tmp = a.cur, a.flags, a.tmp        # same slice on both sides: condition dropped
        else:
            if c is None:
                bad(st.test, "a condition outside the slice guards two different slices")
            cn = ctx.bind("c", c)
            for v in ctx.cur:
                x, y = a.cur.get(v), b.cur.get(v)
                if x == y:
                    ctx.cur[v] = x
                elif x is None or y is None:
                    ctx.cur[v] = None                    # assigned on one path only: unusable afterwards
                else:
                    ctx.set(v, f"bif {cn} then {x} else {y}", "List Agent" if v == "pop" else None)
            ctx.flags = {k: v for k, v in a.flags.items() if b.flags.get(k) == v}
            ctx.tmp = {k: v for k, v in a.tmp.items() if b.tmp.get(k) == v}
        if a.returned or b.returned or getattr(a, "has_return", False) or getattr(b, "has_return", False):
            if a.returned and b.returned:
                ctx.returned = True
            ctx.sealed = True
            ctx.has_return = True
        for k in ("appended",):
            if getattr(a, k, False) or getattr(b, k, False):
                setattr(ctx, k, True)

    def range_bound(self, st: ast.For, ctx: Ctx):
        it = st.iter
        if not (isinstance(it, ast.Call) and isinstance(it.func, ast.Name) and it.func.id == "range"
                and len(it.args) == 1 and not it.keywords):
            return None
        v = self._num(it.args[0], ctx)
        return v[0] if v[1] == "nat" else f"Int.toNat {par(v[0])}"

    def exec_for(self, st: ast.For, ctx: Ctx):
        if st.orelse:
            bad(st, "`for … else` in the slice")
        if ctx.kind == "gen":
            return self.pop_loop(st, ctx)
        if ctx.kind not in ("agent", "roll"):
            bad(st, "loop in the slice at a place where the slicer does not expect it")
        n = self.range_bound(st, ctx)
        if n is None:
            bad(st.iter, "a loop of the slice must run over `range(<integer expression>)`")
        if not isinstance(st.target, ast.Name):
            bad(st, "loop variable outside the subset")
        if st.target.id in self.protected():
            bad(st, "loop variable overwrites a sliced variable")
        # the body as its own definition over Roll
        path = self.loop_path + [self.loop_count.get(tuple(self.loop_path), 0)]
        self.loop_count[tuple(self.loop_path)] = path[-1] + 1
        name = "loop" + "_".join(str(i) for i in path) + "_body"
        d = len(ctx.idx)
        sub = Ctx("roll", {v: f"r.{v}" for v in ROLL_VARS})
        sub.idx = dict(ctx.idx)
        sub.idx[st.target.id] = f"i{d}"
        saved_path, self.loop_path = self.loop_path, path
        try:
            self.exec_block(st.body, sub, True)
        finally:
            self.loop_path = saved_path
        text = "\n".join(sub.lets + ["  { " + ", ".join(f"{v} := {sub.cur[v]}" for v in ROLL_VARS) + " }"])
        if ctx.cur.get("steps") is None and "r.steps" in text.replace("steps := r.steps", ""):
            bad(st, "the per-agent counter is read in a loop before it is assigned")
        idxs = " ".join(f"(i{k} : Nat)" for k in range(d + 1))
        self.defs.append(f"/-- body of `for {st.target.id} in {unparse(st.iter, 60)}` -/\n"
                         f"def {name} {{μ}} (P : Params) (ops : MemOps μ) (agent : Agent) {idxs} (r : Roll μ) : Roll μ :=\n"
                         + text + "\n")
        rec = "{ " + ", ".join(f"{v} := {ctx.cur[v] if ctx.cur.get(v) is not None else '0'}" for v in ROLL_VARS) + " }"
        outer = "".join(f" i{k}" for k in range(d))
        r = ctx.bind("r", f"iterate ({name} P ops agent{outer}) {par(n)} {rec}")
        for v in ROLL_VARS:
            if sub.cur[v] != f"r.{v}":
                ctx.cur[v] = f"{r}.{v}"

    # ------------------------------------------------------------------------------------------ population loops
    def pop_loop_agent(self, st: ast.For):
        it, tg = st.iter, st.target
        if self.is_name(it, self.pop) and isinstance(tg, ast.Name):
            return tg.id
        if isinstance(it, ast.Call) and isinstance(it.func, ast.Name) and it.func.id == "enumerate" and len(it.args) == 1 \
                and not it.keywords and self.is_name(it.args[0], self.pop) and isinstance(tg, ast.Tuple) \
                and len(tg.elts) == 2 and all(isinstance(e, ast.Name) for e in tg.elts):
            return tg.elts[1].id
        return None

    def is_train_body(self, body) -> bool:
        for st in body:
            for x in self.walk_nocomp_targets(st):
                if isinstance(x, ast.Call) and self.event_of(x) in ("envstep", "learn", "memadd", "nadd"):
                    return True
                if isinstance(x, ast.For) and self.has_slice(x):
                    return True
                if isinstance(x, ast.Name) and isinstance(x.ctx, ast.Store) and self.roles.get(x.id) in ("total", "steps"):
                    return True
        return False

    def pop_loop(self, st: ast.For, ctx: Ctx):
        av = self.pop_loop_agent(st)
        if av is None:
            bad(st, "a generation-level loop of the slice must run over the population")
        if av in self.protected() or any(isinstance(e, ast.Name) and e.id in self.protected()
                                         for e in ast.walk(st.target)):
            bad(st, "loop variable overwrites a sliced variable")
        saved, self.agent = self.agent, av
        try:
            if self.is_train_body(st.body):
                k = self.n_agent_bodies
                self.n_agent_bodies += 1
                a = Ctx("agent", {"cur": "agent.cur", "past": "agent.past", "fit": "agent.fit", "m": "sh.m",
                                  "steps": None, "total": "sh.total", "env": "0", "its": "0", "learns": "0"})
                self.loop_path, self.loop_count = [k], {}
                self.exec_block(st.body, a, True)
                for v in ("cur", "past", "fit", "m", "total", "env", "its", "learns"):
                    if a.cur[v] is None:
                        bad(st, f"`{v}` is assigned on one path only")
                self.defs.append(
                    f"/-- body of `for {unparse(st.target)} in {unparse(st.iter)}` -/\n"
                    f"def agentBody{k} {{μ}} (P : Params) (ops : MemOps μ) (agent : Agent) (sh : Shared μ) : Agent × Shared μ :=\n"
                    + "\n".join(a.lets + [
                        f"  ({{ index := agent.index, cur := {a.cur['cur']}, past := {a.cur['past']}, fit := {a.cur['fit']}, "
                        f"ls := agent.ls, bs := agent.bs,\n     env := agent.env + {par(a.cur['env'])}, "
                        f"its := agent.its + {par(a.cur['its'])}, learns := agent.learns + {par(a.cur['learns'])}, tag := agent.tag }},\n"
                        f"   {{ m := {a.cur['m']}, total := {a.cur['total']}, learns := sh.learns ++ [{a.cur['learns']}] }})"]) + "\n")
                fp = ctx.bind("fp", f"forPop (agentBody{k} P ops) {par(ctx.cur['pop'])} "
                                    f"{{ m := {ctx.cur['mem']}, total := {ctx.cur['total']}, learns := [] }}")
                ctx.set("pop", f"{fp}.1", "List Agent")
                ctx.set("mem", f"{fp}.2.m")
                ctx.set("total", f"{fp}.2.total")
                ctx.set("learns", f"{fp}.2.learns :: {par(ctx.cur['learns'])}")
                ctx.set("events", f"{par(ctx.cur['events'])} ++ [Ev.train]")
            else:
                lam = Ctx("lambda", {"cur": "agent.cur", "past": "agent.past", "fit": "agent.fit"}, inline=True)
                self.exec_block(st.body, lam, True)
                ch = [(v, lam.cur[v]) for v in AGENT_VARS if lam.cur[v] != f"agent.{v}"]
                if any(t is None for _, t in ch):
                    bad(st, "an agent field is assigned on one path only")
                if not ch:
                    bad(st, "a population loop of the slice that changes nothing the slicer understands")
                ctx.set("pop", f"{par(ctx.cur['pop'])}.map (fun agent => {{ agent with "
                               + ", ".join(f"{v} := {t}" for v, t in ch) + " })", "List Agent")
                if getattr(lam, "appended", False):
                    ctx.set("events", f"{par(ctx.cur['events'])} ++ [Ev.stepsAppend]")
        finally:
            self.agent = saved

    # ------------------------------------------------------------------------------------------ analysis
    def looks_int(self, n, cands: set, loopvars: set) -> bool:
        if isinstance(n, ast.Constant):
            return isinstance(n.value, int) and not isinstance(n.value, bool)
        if isinstance(n, ast.Name):
            return n.id in cands or n.id in loopvars or n.id == self.nenv or (n.id in INT_PARAMS and n.id in self.params)
        if isinstance(n, ast.Attribute):
            return n.attr in AGENT_INT_ATTRS and isinstance(n.value, ast.Name)
        if isinstance(n, ast.Subscript):
            return isinstance(n.value, ast.Attribute) and n.value.attr == "steps" and isinstance(n.slice, ast.UnaryOp)
        if isinstance(n, ast.BinOp):
            return isinstance(n.op, (ast.Add, ast.Sub, ast.Mult, ast.FloorDiv, ast.Mod)) \
                and self.looks_int(n.left, cands, loopvars) and self.looks_int(n.right, cands, loopvars)
        if isinstance(n, ast.UnaryOp):
            return isinstance(n.op, ast.USub) and self.looks_int(n.operand, cands, loopvars)
        return False

    def analyse(self):
        body = self.fdef.body
        whiles = [i for i, st in enumerate(body) if isinstance(st, ast.While)]
        if len(whiles) != 1:
            bad(self.fdef, f"expected exactly one top-level `while` in {self.fdef.name}, found {len(whiles)}")
        self.wh = body[whiles[0]]
        if self.wh.orelse:
            bad(self.wh, "`while … else`")
        self.prefix, self.suffix = body[:whiles[0]], body[whiles[0] + 1:]
        last = self.suffix[-1] if self.suffix else None
        if not (isinstance(last, ast.Return) and isinstance(last.value, ast.Tuple) and len(last.value.elts) == 2
                and all(isinstance(e, ast.Name) for e in last.value.elts)):
            bad(last or self.fdef, "the function must end with `return <population>, <fitness list>`")
        self.pop, self.ret = (e.id for e in last.value.elts)
        if self.pop not in self.params:
            bad(last, "the returned population is not a parameter of the function")
        # num_envs = env.num_envs / 1
        for st in self.prefix:
            if isinstance(st, ast.If) and isinstance(st.test, ast.Call) and isinstance(st.test.func, ast.Name) \
                    and st.test.func.id == "hasattr" and len(st.test.args) == 2 and self.is_name(st.test.args[0], "env") \
                    and isinstance(st.test.args[1], ast.Constant) and st.test.args[1].value == "num_envs":
                yes = [s for s in st.body if isinstance(s, ast.Assign) and isinstance(s.value, ast.Attribute)
                       and s.value.attr == "num_envs" and self.is_name(s.value.value, "env")]
                if len(yes) != 1 or len(yes[0].targets) != 1 or not isinstance(yes[0].targets[0], ast.Name):
                    bad(st, "the vector-environment test does not bind `env.num_envs` to one local")
                x = yes[0].targets[0].id
                no = [s for s in st.orelse if isinstance(s, ast.Assign) and any(self.is_name(t, x) for t in s.targets)]
                if len(no) != 1 or not (isinstance(no[0].value, ast.Constant) and no[0].value.value == 1
                                        and not isinstance(no[0].value.value, bool)):
                    bad(st, f"a plain environment must count as `{x} = 1`")
                if sum(isinstance(y, ast.Name) and y.id == x and isinstance(y.ctx, ast.Store) for y in ast.walk(st)) != 2:
                    bad(st, f"`{x}` is assigned more than once per branch")
                if self.nenv is not None:
                    bad(st, "two vector-environment tests")
                self.nenv, self.nenv_stmt = x, st
        # counters: names whose every assignment is an integer expression over parameters / counters
        loopvars, stores = set(), {}
        for x in ast.walk(self.fdef):
            if isinstance(x, ast.For) and isinstance(x.iter, ast.Call) and isinstance(x.iter.func, ast.Name) \
                    and x.iter.func.id == "range" and isinstance(x.target, ast.Name):
                loopvars.add(x.target.id)
        for x in self.walk_nocomp_targets(self.fdef):
            if isinstance(x, ast.Assign):
                for t in x.targets:
                    for y in ast.walk(t):
                        if isinstance(y, ast.Name):
                            stores.setdefault(y.id, []).append(x.value if (y is t and len(x.targets) == 1) else None)
            elif isinstance(x, ast.AugAssign) and isinstance(x.target, ast.Name):
                stores.setdefault(x.target.id, []).append(x.value)
            elif isinstance(x, (ast.For, ast.AsyncFor, ast.With, ast.AnnAssign, ast.NamedExpr, ast.ExceptHandler)):
                tg = getattr(x, "target", None) or getattr(x, "name", None)
                for y in ([tg] if isinstance(tg, ast.AST) else []) + \
                         [i.optional_vars for i in getattr(x, "items", []) if i.optional_vars is not None]:
                    for z in ast.walk(y):
                        if isinstance(z, ast.Name) and not (isinstance(x, ast.For) and z.id in loopvars):
                            stores.setdefault(z.id, []).append(None)
        stores.pop(self.nenv, None)
        cands = {k for k, vs in stores.items() if all(v is not None for v in vs) and k not in self.params}
        self.rejected = {}
        while True:
            drop = {}
            for k in cands:
                for v in stores[k]:
                    if not self.looks_int(v, cands, loopvars):
                        drop[k] = v
                        break
            if not drop:
                break
            self.rejected.update(drop)
            cands -= set(drop)
        self.assign_roles(cands, stores)

    def assign_roles(self, cands: set, stores: dict):
        def const_init(stmts, k):
            return [s for s in stmts if isinstance(s, ast.Assign) and len(s.targets) == 1 and self.is_name(s.targets[0], k)
                    and isinstance(s.value, ast.Constant)]
        pop_loops = [x for x in ast.walk(self.wh) if isinstance(x, ast.For) and self.pop_loop_agent(x)]
        self.init, self.consts = {}, {}

        def plain_init(stmts, k):
            return [s for s in stmts if isinstance(s, ast.Assign) and len(s.targets) == 1 and self.is_name(s.targets[0], k)
                    and not any(isinstance(y, ast.Name) and y.id == k for y in ast.walk(s.value))]
        for k in sorted(cands):
            aug = [x for x in ast.walk(self.wh) if isinstance(x, (ast.AugAssign, ast.Assign))
                   and any(self.is_name(t, k) for t in (x.targets if isinstance(x, ast.Assign) else [x.target]))]
            top = const_init(self.prefix, k)
            if top:
                if not aug:
                    if len(top) == 1 and isinstance(top[0].value.value, int) and not isinstance(top[0].value.value, bool) \
                            and top[0].value.value >= 0:
                        self.consts[k] = str(top[0].value.value)   # never written in the loop: a constant
                    continue
                if len(top) != 1:
                    bad(top[1], f"counter `{k}` initialised twice")
                in_pop = [a for a in aug if any(a in list(ast.walk(p)) for p in pop_loops)]
                role = None
                if in_pop:
                    role = "total" if len(in_pop) == len(aug) else None
                else:
                    for blk in self.blocks(self.wh):
                        if any(a in blk for a in aug):
                            evs = {self.event_of(c) for s in blk for c in ast.walk(s) if isinstance(c, ast.Call)}
                            r = "ckpts" if "save" in evs else "evoCount" if "tsm" in evs else None
                            if role not in (None, r) or r is None:
                                role = None
                                break
                            role = r
                if role is None:
                    bad(aug[0], f"counter `{k}` has no role the slicer knows (total / ckpts / evoCount)")
                if role in self.roles.values():
                    bad(aug[0], f"two counters with the role `{role}`")
                self.roles[k] = role
                self.init[role] = top[0].value.value
                continue
            inits = [s for p in pop_loops for s in plain_init(p.body, k)]
            others = [a for a in aug if a not in inits]
            carried = [a for a in others if isinstance(a, ast.AugAssign)
                       or any(isinstance(y, ast.Name) and y.id == k for y in ast.walk(a.value))]
            if inits and others and all(any(a in list(ast.walk(p)) for p in pop_loops) for a in aug):
                if "steps" in self.roles.values():
                    bad(inits[0], "two per-agent counters")
                self.roles[k] = "steps"
                continue
            if carried:
                bad(carried[0], f"counter `{k}` is updated in place but has no role (it would have to be carried)")
            self.temps.add(k)

    @staticmethod
    def blocks(n):
        for x in ast.walk(n):
            for f in ("body", "orelse", "finalbody"):
                b = getattr(x, f, None)
                if isinstance(b, list) and b and isinstance(b[0], ast.stmt):
                    yield b

    # ------------------------------------------------------------------------------------------ prefix / suffix
    def check_prefix(self, stmts, top: bool):
        for st in stmts:
            if st is getattr(self, "nenv_stmt", None):
                for s in st.body + st.orelse:
                    if not (isinstance(s, ast.Assign) and any(self.is_name(t, self.nenv) for t in s.targets)):
                        self.check_prefix([s], False)
                continue
            if isinstance(st, ast.Assign) and len(st.targets) == 1 and isinstance(st.targets[0], ast.Name):
                x = st.targets[0].id
                if top and x in self.roles and isinstance(st.value, ast.Constant):
                    continue                                        # counter initialisation (recorded in `init`)
                if x == self.pop and isinstance(st.value, ast.Call) and isinstance(st.value.func, ast.Attribute) \
                        and st.value.func.attr == "mutation" and st.value.args and self.is_name(st.value.args[0], self.pop):
                    self.notes.append(f"{self.ns}: pre-training mutation before the loop: the population on loop entry is the mutated one")
                    continue
                if x == "memory" and isinstance(st.value, ast.Call) and not self.event_of(st.value):
                    self.notes.append(f"{self.ns}: `memory` rebound before the loop: the memory on loop entry is an input")
                    continue
                if x == self.ret and isinstance(st.value, ast.List) and not st.value.elts:
                    continue                                        # pop_fitnesses = []
            if isinstance(st, ast.Expr) and self.event_of(st.value) in ("memadd", "nadd"):
                self.notes.append(f"{self.ns}: memory filled before the loop: the memory on loop entry is an input")
                continue
            if isinstance(st, (ast.If, ast.For, ast.With, ast.Try)):
                for f in ("body", "orelse", "finalbody"):
                    self.check_prefix(getattr(st, f, []) or [], False)
                for h in getattr(st, "handlers", []):
                    self.check_prefix(h.body, False)
                if isinstance(st, ast.For):
                    for y in ast.walk(st.target):
                        if isinstance(y, ast.Name) and y.id in self.protected():
                            bad(st, "loop variable overwrites a sliced variable")
                continue
            if isinstance(st, ast.Assert):
                continue
            self.check_dropped(st, False)

    # ------------------------------------------------------------------------------------------ emission
    def translate(self) -> list[str]:
        self.markers, self.n_agent_bodies, self.loop_path, self.loop_count = {}, 0, [], {}
        self.analyse()
        saved_ret, self.ret = self.ret, self.ret
        self.check_prefix(self.prefix, True)
        for st in self.suffix[:-1]:
            self.check_dropped(st, False)
        # the while test
        c = Ctx("gen", {"pop": "pop"}, inline=True)
        t = self._bool(self.wh.test, c)
        out = [f"namespace {self.ns}\n",
               f"/-- the `while` test: `{unparse(self.wh.test, 100)}` -/\n"
               f"def cond (P : Params) (pop : List Agent) : Bool :=\n  {t[0]}\n"]
        init = getattr(self, "init", {})
        out.append("/-- the state on loop entry: the counters as initialised before the loop -/\n"
                   "def start {μ ε} (pop : List Agent) (mem : μ) (ext : ε) : St μ ε :=\n"
                   f"  {{ pop := pop, mem := mem, ext := ext, total := {init.get('total', 0)}, "
                   f"ckpts := {init.get('ckpts', 0)}, evoCount := {init.get('evoCount', 0)} }}\n")
        stages = []
        for st in self.wh.body:
            if not self.has_slice(st):
                self.check_dropped(st, True)
                continue
            g = Ctx("gen", {v: f"s.{v}" for v in ST_VARS})
            self.exec_stmt(st, g, True)
            for v in ST_VARS:
                if g.cur[v] is None:
                    bad(st, f"`{v}` is assigned on one path only")
            k = len(stages)
            first = unparse(st, 90)
            self.defs.append(f"/-- `{first}` -/\ndef S{k} {STAGE_SIG}\n"
                             + "\n".join(g.lets + ["  { " + ", ".join(f"{v} := {g.cur[v]}" for v in ST_VARS) + " }"]) + "\n")
            stages.append(bool(getattr(g, "has_return", False) or g.returned))
            if g.returned:
                bad(st, "unconditional `return` inside the loop")
        if not stages:
            bad(self.wh, "the loop body has no sliced statement")
        out += self.defs
        lines = ["def genBody " + STAGE_SIG]
        for k, ret in enumerate(stages):
            lines.append(f"  let s := S{k} P ops tsm in0 s")
            if ret and k < len(stages) - 1:
                lines.append("  bif s.halted then s else")
        lines.append("  s\n")
        out.append("/-- the body of the `while` loop -/\n" + "\n".join(lines))
        out.append(WRAPPER)
        out.append(f"end {self.ns}\n")
        return out


# ---------------------------------------------------------------------------------------------- driver
def translate_function(ns: str, rel: str, fname: str, src: str) -> tuple[list[str], list[str]]:
    _current_file[0] = rel
    mod = ast.parse(src)
    fns = [x for x in mod.body if isinstance(x, ast.FunctionDef) and x.name == fname]
    if len(fns) != 1:
        raise Unsupported(f"{rel}: expected one top-level `def {fname}`, found {len(fns)}")
    fn = Fn(ns, rel, fns[0])
    out = fn.translate()
    notes = list(fn.notes)
    if fn.in0_src:
        notes.append(f"{ns}: `in0` = `{fn.in0_src}`")
    notes.append(f"{ns}: counters " + (", ".join(f"`{k}` = {v}" for k, v in sorted(fn.roles.items())) or "none")
                 + ("; temporaries " + ", ".join(f"`{k}`" for k in sorted(fn.temps)) if fn.temps else "")
                 + (f"; `{fn.nenv}` = env.num_envs / 1" if fn.nenv else "; one environment step per `env.step`"))
    return out, notes


def repo_dir(arg: str | None) -> Path:
    if arg:
        return Path(arg)
    return Path(os.environ.get("VERIF_REPO", "/repo"))


def translate(repo: Path) -> tuple[str, str]:
    """returns (lean text, sha256 over the six source files); raises Unsupported"""
    h = hashlib.sha256()
    body: list[str] = [PRELUDE]
    notes: list[str] = []
    for ns, rel, fname in TARGETS:
        path = Path(repo) / rel
        try:
            raw = path.read_bytes()
        except OSError as e:
            raise Unsupported(f"cannot read {path}: {e}") from e
        h.update(rel.encode() + b"\0" + raw + b"\0")
        try:
            lines, ns_notes = translate_function(ns, rel, fname, raw.decode("utf-8"))
        except SyntaxError as e:
            raise Unsupported(f"{rel}:{e.lineno}: not parseable: {e.msg}") from e
        except RecursionError as e:
            raise Unsupported(f"{rel}: expression too deep") from e
        body += lines
        notes += ns_notes
    sha = h.hexdigest()
    header = "\n".join([
        "/-",
        "  Gen/LoopGen.lean — GENERATED by harness/py2lean_loop.py from the counter slice (loop structure, integer",
        "  counters, budget test, learn scheduling, events in order) of the six training functions",
        "  " + REL_SOURCE + "; do not edit.  Core Lean only.",
        "  `Proofs/LoopGenEq.lean` proves the definitions equal to their counterparts in `Model/Loop.lean`.",
        "  Read off the source:",
    ] + [f"    * {a}" for a in notes] + [
        "-/",
        SHA_PREFIX + sha,
        "set_option linter.unusedVariables false",
        "",
    ])
    return header + "\n" + "\n".join(body).rstrip() + "\n\nend LoopGen\n", sha


def strip_sha(text: str) -> str:
    return "\n".join(ln for ln in text.split("\n") if not ln.startswith(SHA_PREFIX))


def write_if_changed(text: str, out: Path, force: bool = False) -> bool:
    """writes `text` unless the file already holds the same translation (sha line ignored)"""
    out = Path(out)
    old = out.read_text() if out.exists() else None
    if old is not None and not force and strip_sha(old) == strip_sha(text):
        return False
    if old == text:
        return False
    out.parent.mkdir(parents=True, exist_ok=True)
    tmp = out.with_suffix(".lean.tmp")
    tmp.write_text(text)
    os.replace(tmp, out)
    return True


def main(argv: list[str]) -> int:
    import argparse
    ap = argparse.ArgumentParser()
    ap.add_argument("--repo", default=None)
    ap.add_argument("--out", default=str(DEFAULT_OUT))
    ap.add_argument("--stdout", action="store_true")
    ap.add_argument("--force", action="store_true", help="rewrite even if only the sha256 line differs")
    ap.add_argument("--only", default=None, help="(debugging) translate one namespace and print it")
    a = ap.parse_args(argv)
    if a.only:
        for ns, rel, fname in TARGETS:
            if ns == a.only:
                try:
                    out, notes = translate_function(ns, rel, fname, (repo_dir(a.repo) / rel).read_text())
                except Unsupported as e:
                    print(f"py2lean_loop: {e}", file=sys.stderr)
                    return 1
                print("\n".join(out))
                print("\n".join("-- " + n for n in notes))
        return 0
    try:
        text, sha = translate(repo_dir(a.repo))
    except Unsupported as e:
        print(f"py2lean_loop: {e}", file=sys.stderr)
        return 1
    if a.stdout:
        sys.stdout.write(text)
        return 0
    changed = write_if_changed(text, Path(a.out), a.force)
    print(f"{a.out}: {'written' if changed else 'unchanged'} (source sha256 {sha[:16]}…, "
          f"translation sha256 {hashlib.sha256(strip_sha(text).encode()).hexdigest()[:16]}…)")
    return 0


if __name__ == "__main__":
    sys.exit(main(sys.argv[1:]))
