#!/usr/bin/env python3
"""
py2lean_maplumb.py — translate the MULTI-AGENT MASK / ENV-DEFINED-ACTION PLUMBING of property C14 into Lean 4: which
action mask and which env-defined action reaches which agent and which environment row.

  * REPO/agilerl/utils/algo_utils.py        `key_in_nested_dict` (at the two levels `infos` / one agent's info)
  * REPO/agilerl/algorithms/core/base.py    `MultiAgentRLAlgorithm.get_homo_id`, `._agent_position`,
                                            `.extract_action_masks`, `.extract_agent_masks`,
                                            `.disassemble_homogeneous_outputs`
  * REPO/agilerl/algorithms/ippo.py         `IPPO.extract_action_masks`, `.process_infos`, and of `.get_action` the
                                            `self.process_infos(infos)` statement before the per-agent loop and every
                                            statement after it
  * REPO/agilerl/algorithms/maddpg.py, matd3.py   `.process_infos` and the same parts of `.get_action`

    python3 harness/py2lean_maplumb.py [--repo DIR] [--out FILE] [--stdout] [--force]

Reads the *source text* only (Python `ast`; agilerl / numpy / torch are never imported) and writes
lean/Gen/MaPlumbGen.lean (namespaces `MaPlumbGen.Base`, `.IPPO`, `.MADDPG`, `.MATD3`; core Lean only).
`Proofs/MaPlumbGenEq.lean` proves the generated definitions equal to the plumbing functions of the hand-written
`Model/Action.lean`; `Props/C14.lean` restates the plumbing theorems over them (`C14_source_translation_plumbing_*`).

Representation (the fixed prelude of the generated file; `Model/Action.lean` has the same)
  * a dict keyed by strings is `PyDict V = List (String × V)`: the pairs IN INSERTION ORDER, so "`infos` lists the agents
    in another order than `self.agent_ids`" is expressible; `d[k]` is `pyGet d k : Option V` (`none` = KeyError),
    `d[k] = v` is `pySet` (an existing key keeps its place), `{k: v for …}` is `pyDictOfPairs`;
  * `infos[agent]` is an `Info α`: `isDict` (`isinstance(info, dict)`), `truthy` (`bool(info)`), `keys`, and the two
    entries the library reads, `info.get("action_mask", None) : Option (Arr Bool)` and
    `info.get("env_defined_actions", None) : Arr (Option α)`; the `.get` literal becomes the field name;
  * `Arr β` is `None`, a Python number, a 1-D or a 2-D ndarray (rows = environment rows); NaN is `none : Option α`;
    the numpy operations used are prelude functions (`arrNdim` = `len(x.shape)`, `arrCol` = `x[:, np.newaxis]`,
    `arrRow` = `x[np.newaxis, :]`, `npIsnan`, `npWhere`, `arrAstypeBool`, `arrSqueeze`, `npRSubMask` = `c - mask`,
    `npEmpty` / `arrFill`, `arrOfNum11` = `np.array([[x]])`, `npReshape3` = `np.reshape(x, (n, e, -1))`,
    `arrMaskCopy dst m src` = the statement `dst[m] = src[m]`, accepted only with the SAME mask expression on both
    sides: numpy requires `m` to have the shape of `dst` and of `src` and copies where `m` holds);
  * a Python exception anywhere is `none` (every generated function is `Option`-valued, `do` notation, statements in
    source order); `assert c` is `pyAssert c`;
  * `for x in it: <body>` is `pyForM it <state> (fun x <state> => do … return <state>)` — the state is the tuple of
    variables the body re-assigns (also through `d[k] = …`, `.append`) that live outside the loop;
    a loop whose body only consists of `if c: return e` statements is `pyFirst` (first returned value);
  * `sorted(l, key=self.m)` is the stable `pySortedByM`; `s.rsplit(sep, 1)` is `pyRsplit1`.

Supported subset (anything else raises `Unsupported` naming construct and line — never a guess)
  * statements: docstring, `x = e`, `x: T = e`, `a, b = e`, `d[k] = e`, `x[:] = e`, `D[k][m] = S[k][m]`, `x.append(e)`,
    `d[k].append(e)`, `if / elif / else`, `for` (the two forms above), `assert e[, msg]`, `return e`;
  * expressions: `None / True / False`, naturals, strings, names, `self.<attr>` (typed by the table SELF_TYPES: the API
    anchors), `np.nan`, `{}`, tuples, `a if c else b`, `and / or / not` (short circuit: an operand that can raise is evaluated only when needed), `is [not] None`
    (on a value whose type has no `None` it is decided statically), `in`, `== != < <= > >=` on naturals / strings,
    `isinstance(x, dict | str | (int, float))` (by the type of `x`), `len`, `all / any` of a generator, `enumerate`,
    `sorted(…, key=self.<method>)`, `list`, `.keys() .values() .items()`, `.get(<literal>, None)` of an info,
    `.rsplit(sep, 1)`, `.index`, `l[i]`, `d[k]`, list / dict comprehensions and generators with one `for` (+ `if`),
    calls of the translated methods / `key_in_nested_dict`, and the numpy forms named above; `np.ma.array(a, mask=m)`
    followed by `.argmax(axis=-1)` is the explicit parameter `np_ma_argmax` (its per-row meaning is `maPick`,
    py2lean_action.py); `torch.Tensor(np.array(<list of masks>))` is `slotStack`.
  * of `get_action`: before the first top-level `for … in [enumerate(]zip(…)[)]:` only assignments from a translated
    method (`self.process_infos(infos)`); other statements there (the `assert` on `obs`, `get_vect_dim`,
    `preprocess_observation`: property C15) are skipped; the loop itself is py2lean_action.py's; its output dict (the
    target of the first `<dict>[key] = …` of the loop body) and, for IPPO, `vect_dim` are parameters; components of the
    returned tuple that mention other skipped locals (log-probs, entropies, values) are dropped.

Assumptions (listed again in the header of the generated file)
  * the values stored in one agent's info dict are not dicts themselves (`key_in_nested_dict` stops one level down);
  * "action_mask" is `None` or a 0/1 array; "env_defined_actions" is `None`, a Python number, a 1-D or 2-D float array;
  * `np.empty` is modelled as holding NaN (its content is unspecified); `.astype`, `np.array(<array>)`, `list(…)` of a list
    keep values; stacking masks with `np.array` keeps their order (first axis = agent within the group);
  * the masked arg-max is a parameter; agent ids are strings.

Locals are renamed canonically (`v0, v1, …` in order of first binding; parameters keep their names), so renaming a local
does not change the output.  The header carries the sha256 over the source files; `write_if_changed` ignores that line.
"""
from __future__ import annotations

import ast
import hashlib
import json
import os
import sys
from pathlib import Path

HERE = Path(__file__).resolve().parent
DEFAULT_OUT = HERE.parent / "lean" / "Gen" / "MaPlumbGen.lean"
UTILS = "agilerl/utils/algo_utils.py"
BASE = "agilerl/algorithms/core/base.py"
LEARNERS = (("IPPO", "agilerl/algorithms/ippo.py"), ("MADDPG", "agilerl/algorithms/maddpg.py"),
            ("MATD3", "agilerl/algorithms/matd3.py"))
REL_SOURCES = (UTILS, BASE) + tuple(f for _, f in LEARNERS)
REL_SOURCE = "agilerl/{utils/algo_utils,algorithms/core/base,algorithms/ippo,algorithms/maddpg,algorithms/matd3}.py"
SHA_PREFIX = "-- sha256(source) = "
BASE_CLASS = "MultiAgentRLAlgorithm"
BASE_METHODS = ("get_homo_id", "_agent_position", "extract_action_masks", "extract_agent_masks",
                "disassemble_homogeneous_outputs")


class Unsupported(Exception):
    pass


class Skipped(Exception):
    """a name assigned only in the part of get_action that is not translated"""


# ----------------------------------------------------------------------------------------------- types
STR, NAT, BOOL, INFO, NONE, EMPTY, SLOT, LEAF, FLAT, MA, UNK, NAN = (
    "Str", "Nat", "Bool", "Info", "NoneT", "EmptyDict", "Slot", "Leaf", "Flat", "MA", "Unk", "NaN")


def Opt(t): return ("Opt", t)
def Dict(t): return ("Dict", t)
def Lst(t): return ("List", t)
def Arr(e): return ("Arr", e)
def Tup(*ts): return ("Tup", tuple(ts))


def kind(t):
    return t[0] if isinstance(t, tuple) else t


def lt(t) -> str:
    k = kind(t)
    if k == "Opt": return f"Option ({lt(t[1])})"
    if k == "Dict": return f"PyDict ({lt(t[1])})"
    if k == "List": return f"List ({lt(t[1])})"
    if k == "Arr": return {"OA": "Arr (Option α)", "B": "Arr Bool", "A": "Arr α", "N": "Arr Nat"}[t[1]]
    if k == "Tup": return "(" + " × ".join(lt(x) for x in t[1]) + ")"
    return {STR: "String", NAT: "Nat", BOOL: "Bool", INFO: "Info α", SLOT: "Slot (Arr Bool)", LEAF: "Unit", FLAT: "HOut α",
            MA: "(Arr α × Arr Bool)", NONE: "Option Unit", EMPTY: "PyDict Unit", UNK: "Unit", NAN: "Option α"}[k]


def join(a, b):
    if a == b or b is None: return a
    if a is None: return b
    ka, kb = kind(a), kind(b)
    if ka == UNK: return b
    if kb == UNK: return a
    if ka == NONE:
        return b if kb in ("Arr", SLOT, "Opt") else Opt(b)
    if kb == NONE:
        return join(b, a)
    if ka == EMPTY and kb in ("Dict", INFO): return b
    if kb == EMPTY and ka in ("Dict", INFO): return a
    if ka == NAN and b == Arr("OA"): return b
    if a == Lst(UNK) and kb == SLOT: return b
    if b == Lst(UNK) and ka == SLOT: return a
    if ka == "Opt" and kb == "Opt": return Opt(join(a[1], b[1]))
    if ka == "Opt": return Opt(join(a[1], b))
    if kb == "Opt": return Opt(join(a, b[1]))
    if ka == kb and ka in ("Dict", "List"): return (ka, join(a[1], b[1]))
    if ka == kb == "Tup" and len(a[1]) == len(b[1]): return Tup(*(join(x, y) for x, y in zip(a[1], b[1])))
    raise Unsupported(f"a variable holds values of the types {lt(a)} and {lt(b)}")


#: `self.<attr>` → type (API anchors of MultiAgentRLAlgorithm)
SELF_TYPES = {"agent_ids": Lst(STR), "shared_agent_ids": Lst(STR), "action_dims": Lst(NAT), "discrete_actions": BOOL,
              "homogeneous_agents": Dict(Lst(STR))}
#: parameter types of the translated functions, by position
PARAM_TYPES = {"get_homo_id": [STR], "_agent_position": [STR], "extract_action_masks": [Dict(INFO)],
               "extract_agent_masks": [Dict(INFO)], "process_infos": [Opt(Dict(INFO))],
               "disassemble_homogeneous_outputs": [Dict(FLAT), NAT], "get_action": None}


def where(node, file) -> str:
    return f"{file}:{getattr(node, 'lineno', '?')}"


def unparse(n) -> str:
    s = " ".join(ast.unparse(n).split())
    return s if len(s) <= 70 else s[:67] + "..."


RAISES = "(←"


# ----------------------------------------------------------------------------------------------- the compiler
class Unit:
    """all sources; compiles functions on demand"""

    def __init__(self, repo: Path):
        self.trees, self.raw = {}, {}
        for rel in REL_SOURCES:
            p = repo / rel
            try:
                raw = p.read_bytes()
            except OSError as e:
                raise Unsupported(f"cannot read {p}: {e}") from e
            self.raw[rel] = raw
            try:
                self.trees[rel] = ast.parse(raw.decode("utf-8"))
            except SyntaxError as e:
                raise Unsupported(f"{rel}:{e.lineno}: not parseable: {e.msg}") from e
        self.classes = {"Base": (BASE, self.find_class(BASE, BASE_CLASS, None))}
        for ns, rel in LEARNERS:
            self.classes[ns] = (rel, self.find_class(rel, None, "get_action"))
        self.done: dict = {}       # (ns, name, variant) -> Compiled
        self.order: list = []

    def find_class(self, rel, name, marker):
        cs = [n for n in self.trees[rel].body if isinstance(n, ast.ClassDef) and
              (n.name == name if name else any(isinstance(m, ast.FunctionDef) and m.name == marker for m in n.body))]
        if len(cs) != 1:
            raise Unsupported(f"{rel}: expected exactly one class {name or 'defining ' + marker}, found {len(cs)}")
        return cs[0]

    def method(self, ns, name):
        """method resolution: the learner's own class, then the base class"""
        for space in ([ns, "Base"] if ns != "Base" else ["Base"]):
            rel, cls = self.classes[space]
            ms = [m for m in cls.body if isinstance(m, ast.FunctionDef) and m.name == name]
            if len(ms) > 1:
                raise Unsupported(f"{rel}: {len(ms)} definitions of {name}")
            if ms:
                if ms[0].decorator_list:
                    raise Unsupported(f"{where(ms[0], rel)}: decorated method {name}")
                return space, rel, ms[0]
        return None

    def module_fn(self, name):
        fs = [n for n in self.trees[UTILS].body if isinstance(n, ast.FunctionDef) and n.name == name]
        if len(fs) != 1:
            raise Unsupported(f"{UTILS}: expected exactly one def {name}, found {len(fs)}")
        return fs[0]

    def get(self, ns, name, variant=None):
        key = (ns, name, variant)
        if key not in self.done:
            self.done[key] = None               # recursion guard
            c = Compiled(self, ns, name, variant)
            c.compile()
            self.done[key] = c
            self.order.append(c)
        if self.done[key] is None:
            raise Unsupported(f"recursive call of {name} that is not the typed descent of key_in_nested_dict")
        return self.done[key]


class Compiled:
    def __init__(self, unit: Unit, ns: str, name: str, variant):
        self.u, self.ns, self.name, self.variant = unit, ns, name, variant
        self.uses: dict = {}            # extra lean parameters (self attributes, externs): name -> lean type
        self.lines: list = []
        self.ret = None
        self.vt: dict = {}              # python local name -> type (joined over all assignments)
        self.lean: dict = {}            # python local name -> lean name
        self.params: list = []          # (python name, lean name, type)
        self.dropped: list = []
        self.skipped_locals: set = set()
        self.notes: list = []

    # ------------------------------------------------------------------ set-up
    def lean_name(self):
        if self.ns == "Utils":
            return f"{self.name}_{self.variant}"
        return f"{self.ns}.{self.name}" + ("_plumbing" if self.name == "get_action" else "")

    def compile(self):
        if self.ns == "Utils":
            self.file, fn = UTILS, self.u.module_fn(self.name)
            ptypes = [Dict(INFO) if self.variant == 0 else INFO, STR]
            body = fn.body
        else:
            _, self.file, fn = self.u.method(self.ns, self.name) or (None, None, None)
            if fn is None:
                raise Unsupported(f"{self.ns}: no method {self.name}")
            ptypes = PARAM_TYPES[self.name]
            body = fn.body
        self.fn = fn
        args = fn.args
        if args.vararg or args.kwarg or args.kwonlyargs or args.posonlyargs:
            raise Unsupported(f"{where(fn, self.file)}: unsupported parameter kinds in {fn.name}")
        names = [a.arg for a in args.args]
        if self.ns != "Utils":
            if not names or names[0] != "self":
                raise Unsupported(f"{where(fn, self.file)}: {fn.name} is not an instance method")
            names = names[1:]
        if self.name == "get_action":
            body, extra = self.cut_get_action(fn)
            if "infos" not in names:
                raise Unsupported(f"{where(fn, self.file)}: get_action has no parameter `infos`")
            self.params = [("infos", "infos", Opt(Dict(INFO)))] + extra
            self.skip_other_params = set(names) - {"infos"}
        else:
            if len(names) != len(ptypes):
                raise Unsupported(f"{where(fn, self.file)}: {fn.name} takes {len(names)} parameters, expected {len(ptypes)}")
            self.params = [(n, n, t) for n, t in zip(names, ptypes)]
            self.skip_other_params = set()
        self.body = [s for s in body if not (isinstance(s, ast.Expr) and isinstance(s.value, ast.Constant)
                                             and isinstance(s.value.value, str))]
        # canonical names of the locals, in order of first binding
        pnames = {p for p, _, _ in self.params}
        k = 0
        for node in self.binders(self.body):
            if node not in self.lean and node not in pnames:
                self.lean[node] = f"v{k}"
                k += 1
        for p, l, t in self.params:
            self.lean[p] = l
        # pass 1: types of the locals (join over the assignments), pass 2: text
        self.vtv = {(p, 0): t for p, _, t in self.params}     # (name, version) -> type; a new version = a re-typed local
        self.retyped = set()
        base_lean = dict(self.lean)
        for self.final in (False, False, False, True):
            self.lines, self.dropped = [], []
            self.uses_tmp = {}
            self.lean = dict(base_lean)
            self.ver = {}
            self.vt = {n: t for (n, v), t in self.vtv.items() if v == 0}
            self.block(self.body, 1, top=True)
        self.uses = dict(sorted(self.uses_tmp.items()))

    def binders(self, stmts):
        """python names bound by assignments / loops / comprehensions, in source order"""
        out = []

        def tgt(t):
            if isinstance(t, ast.Name):
                out.append(t.id)
            elif isinstance(t, (ast.Tuple, ast.List)):
                for e in t.elts:
                    tgt(e)

        class V(ast.NodeVisitor):
            def visit_Assign(s, n):
                s.generic_visit(n)
                for t in n.targets:
                    tgt(t)

            def visit_AnnAssign(s, n):
                s.generic_visit(n)
                tgt(n.target)

            def visit_AugAssign(s, n):
                s.generic_visit(n)
                tgt(n.target)

            def visit_For(s, n):
                tgt(n.target)
                s.generic_visit(n)

            def visit_comprehension(s, n):
                tgt(n.target)
                s.generic_visit(n)
        for st in stmts:
            V().visit(st)
        return out

    def cut_get_action(self, fn):
        """(statements translated, extra parameters): see the module docstring"""
        loops = [i for i, s in enumerate(fn.body) if isinstance(s, ast.For) and self.is_zip_loop(s)]
        if not loops:
            raise Unsupported(f"{where(fn, self.file)}: get_action has no top-level `for … in [enumerate(]zip(…)[)]:`")
        li = loops[0]
        loop = fn.body[li]
        out = None
        for s in ast.walk(loop):
            if isinstance(s, ast.Assign) and len(s.targets) == 1 and isinstance(s.targets[0], ast.Subscript) \
                    and isinstance(s.targets[0].value, ast.Name):
                out = s.targets[0].value.id
                break
        # ast.walk is breadth-first: take the first store in source order instead
        stores = [s for s in ast.walk(loop) if isinstance(s, ast.Assign) and len(s.targets) == 1
                  and isinstance(s.targets[0], ast.Subscript) and isinstance(s.targets[0].value, ast.Name)]
        if not stores:
            raise Unsupported(f"{where(loop, self.file)}: the per-agent loop stores no `<dict>[key] = value`")
        out = min(stores, key=lambda s: (s.lineno, s.col_offset)).targets[0].value.id
        pre, skipped = [], set()
        for s in fn.body[:li]:
            if isinstance(s, ast.Assign) and isinstance(s.value, ast.Call) and isinstance(s.value.func, ast.Attribute) \
                    and isinstance(s.value.func.value, ast.Name) and s.value.func.value.id == "self" \
                    and s.value.func.attr in PARAM_TYPES and s.value.func.attr != "get_action":
                pre.append(s)
            else:
                skipped |= set(self.binders([s]))
        skipped |= set(self.binders([loop]))
        extra = [(out, out, Dict(FLAT) if self.ns == "IPPO" else Dict(Arr("A")))]
        skipped.discard(out)
        self.vect_dim = None
        for s in fn.body[:li]:
            if isinstance(s, ast.Assign) and len(s.targets) == 1 and isinstance(s.targets[0], ast.Name) \
                    and isinstance(s.value, ast.Call) and isinstance(s.value.func, ast.Name) and s.value.func.id == "get_vect_dim":
                extra.append((s.targets[0].id, s.targets[0].id, NAT))
                skipped.discard(s.targets[0].id)
        self.skipped_locals = skipped - {p for p, _, _ in extra}
        return pre + fn.body[li + 1:], extra

    @staticmethod
    def is_zip_loop(s):
        it = s.iter
        if isinstance(it, ast.Call) and isinstance(it.func, ast.Name) and it.func.id == "enumerate" and it.args:
            it = it.args[0]
        return isinstance(it, ast.Call) and isinstance(it.func, ast.Name) and it.func.id == "zip"

    # ------------------------------------------------------------------ helpers
    def err(self, node, msg):
        return Unsupported(f"{where(node, self.file)}: {msg}: `{unparse(node)}`")

    def use(self, name, ty):
        self.uses_tmp[name] = ty
        return name

    def emit(self, ind, text):
        self.lines.append("  " * ind + text)

    def coerce(self, text, frm, to, node):
        if to is None or frm == to:
            return text
        kf, kt = kind(frm), kind(to)
        if frm == Lst(UNK) and kt == SLOT:
            return "(Slot.list [])"
        if kf == UNK or kt == UNK:
            return text
        if kf == NONE:
            if kt == "Opt": return "none"
            if kt == "Arr": return "Arr.none"
            if kt == SLOT: return "Slot.none"
        if kf == EMPTY:
            if kt == INFO: return "pyEmptyInfo"
            if kt == "Dict": return "[]"
            if kt == "Opt": return f"(some {self.coerce(text, frm, to[1], node)})"
        if kf == NAN and to == Arr("OA"):
            return text
        if frm == Lst(UNK) and kt == SLOT:
            return "(Slot.list [])"
        if kt == "Opt" and kf != "Opt":
            return f"(some {self.coerce(text, frm, to[1], node)})"
        if kf == "Opt" and kt != "Opt":
            return self.coerce(f"(← {text})", frm[1], to, node)
        if kf == kt == "Opt":
            if frm[1] == to[1] or kind(frm[1]) == UNK: return text
        if kf == kt == "Tup" and len(frm[1]) == len(to[1]):
            n = len(frm[1])
            proj = [f"{text}.1"] + [f"{text}" + ".2" * i + (".1" if i < n - 1 else "") for i in range(1, n)]
            return "(" + ", ".join(self.coerce(p, a, b, node) for p, a, b in zip(proj, frm[1], to[1])) + ")"
        if kf == kt and kf in ("Dict", "List") and kind(frm[1]) in (UNK, NONE, EMPTY) or (kf == kt == "Dict"):
            if kind(frm[1]) == UNK:
                return text
            inner = self.coerce("p.2", frm[1], to[1], node)
            if RAISES in inner:
                raise self.err(node, f"cannot convert {lt(frm)} to {lt(to)}")
            return f"({text}.map (fun p => (p.1, {inner})))"
        if not self.final:
            return text
        raise self.err(node, f"a value of type {lt(frm)} is used where {lt(to)} is expected")

    def var(self, name, node):
        if name in self.skipped_locals or name in getattr(self, "skip_other_params", ()):
            raise Skipped(name)
        if name not in self.lean or name not in self.vt:
            if not self.final and name in self.lean:
                return self.lean[name], UNK
            raise self.err(node, f"name `{name}` is not a parameter or a local assigned before")
        return self.lean[name], self.vt[name]

    def assign_type(self, name, ty):
        if not self.final:
            self.vt[name] = join(self.vt.get(name), ty)
            self.vtv[(name, self.ver.get(name, 0))] = self.vt[name]

    # ------------------------------------------------------------------ expressions
    def cx(self, n, want=None):
        text, ty = self.cx0(n, want)
        return self.coerce(text, ty, want, n), (want if want is not None and kind(ty) != UNK and self.final else
                                                (join(ty, want) if want is not None and kind(ty) in (NONE, EMPTY, UNK, NAN) else ty))

    def as_bool(self, n):
        text, ty = self.cx0(n, None)
        if ty == BOOL: return text
        if ty == Opt(Dict(Arr("OA"))) or (kind(ty) == "Opt" and kind(ty[1]) == "Dict"): return f"(pyTruthyOptDict {text})"
        if ty == INFO: return f"{text}.truthy"
        if kind(ty) == "List": return f"(!{text}.isEmpty)"
        if kind(ty) == UNK and not self.final: return text
        raise self.err(n, f"truth value of a {lt(ty)}")

    def is_self(self, n, attr=None):
        return isinstance(n, ast.Attribute) and isinstance(n.value, ast.Name) and n.value.id == "self" and \
            (attr is None or n.attr == attr)

    def is_np(self, n, *path):
        cur = n
        for p in reversed(path):
            if not (isinstance(cur, ast.Attribute) and cur.attr == p):
                return False
            cur = cur.value
        return isinstance(cur, ast.Name) and cur.id in ("np", "numpy")

    def cx0(self, n, want=None):
        if isinstance(n, ast.Constant):
            v = n.value
            if v is None: return "none", NONE
            if isinstance(v, bool): return ("true" if v else "false"), BOOL
            if isinstance(v, int) and v >= 0: return str(v), NAT
            if isinstance(v, str): return json.dumps(v, ensure_ascii=False), STR
            raise self.err(n, "constant outside the subset")
        if isinstance(n, ast.Name):
            return self.var(n.id, n)
        if isinstance(n, ast.Attribute):
            if self.is_self(n):
                if n.attr not in SELF_TYPES:
                    raise self.err(n, "attribute without a declared type")
                return self.use(f"self_{n.attr}", lt(SELF_TYPES[n.attr])), SELF_TYPES[n.attr]
            if self.is_np(n, "nan"):
                return "(none : Option α)", NAN
            raise self.err(n, "attribute outside the subset")
        if isinstance(n, ast.Dict):
            if n.keys: raise self.err(n, "non-empty dict display")
            return "[]", EMPTY
        if isinstance(n, ast.List):
            if n.elts: raise self.err(n, "non-empty list display")
            return "[]", Lst(UNK)
        if isinstance(n, ast.Tuple):
            wants = want[1] if want is not None and kind(want) == "Tup" and len(want[1]) == len(n.elts) else [None] * len(n.elts)
            parts = [self.cx(e, w) for e, w in zip(n.elts, wants)]
            return "(" + ", ".join(p[0] for p in parts) + ")", Tup(*(p[1] for p in parts))
        if isinstance(n, ast.IfExp):
            c = self.as_bool(n.test)
            _, tb = self.cx0(n.body, want)
            _, te = self.cx0(n.orelse, want)
            ty = join(join(tb, te), want if want is not None and kind(want) != "Opt" else None) if want is None or True else want
            if want is not None:
                ty = want
            b, _ = self.cx(n.body, ty)
            e, _ = self.cx(n.orelse, ty)
            if RAISES in b or RAISES in e:
                return f"(← (if {c} then (do pure ({b})) else (do pure ({e}))))", ty
            return f"(if {c} then {b} else {e})", ty
        if isinstance(n, ast.BoolOp):
            parts = [self.as_bool(v) for v in n.values]
            op = " && " if isinstance(n.op, ast.And) else " || "
            if any(RAISES in p for p in parts[1:]):
                # short circuit: an operand that can raise is evaluated only when the operands before it do not decide
                acc = parts[-1]
                for p in reversed(parts[:-1]):
                    acc = (f"(← (if {p} then (do pure {acc}) else (do pure false)))" if isinstance(n.op, ast.And)
                           else f"(← (if {p} then (do pure true) else (do pure {acc})))")
                return acc, BOOL
            return "(" + op.join(parts) + ")", BOOL
        if isinstance(n, ast.UnaryOp) and isinstance(n.op, ast.Not):
            return f"(!{self.as_bool(n.operand)})", BOOL
        if isinstance(n, ast.Compare):
            return self.compare(n)
        if isinstance(n, ast.BinOp):
            if isinstance(n.op, ast.Sub) and isinstance(n.left, ast.Constant) and isinstance(n.left.value, int) \
                    and not isinstance(n.left.value, bool) and n.left.value >= 0:
                r, tr = self.cx0(n.right)
                if tr == Arr("B") or (kind(tr) == UNK and not self.final):
                    return f"(npRSubMask {n.left.value} {r})", Arr("B")
            raise self.err(n, "arithmetic outside the subset")
        if isinstance(n, ast.Subscript):
            return self.subscript(n)
        if isinstance(n, (ast.ListComp, ast.GeneratorExp)):
            return self.comp(n, n.elt, None)
        if isinstance(n, ast.DictComp):
            wv = want[1] if want is not None and kind(want) == "Dict" else (
                want[1][1] if want is not None and kind(want) == "Opt" and kind(want[1]) == "Dict" else None)
            text, ty = self.comp(n, ast.Tuple(elts=[n.key, n.value], ctx=ast.Load()), Tup(STR, wv) if wv is not None else None)
            if kind(ty[1]) == "Tup" and ty[1][1][0] in (STR, UNK):
                return f"(pyDictOfPairs {text})", Dict(ty[1][1][1])
            raise self.err(n, "dict comprehension whose keys are not strings")
        if isinstance(n, ast.Call):
            return self.call(n, want)
        raise self.err(n, "expression outside the subset")

    def compare(self, n):
        if len(n.ops) != 1:
            raise self.err(n, "chained comparison")
        op, l, r = n.ops[0], n.left, n.comparators[0]
        if isinstance(op, (ast.Is, ast.IsNot)):
            if not (isinstance(r, ast.Constant) and r.value is None):
                raise self.err(n, "`is` with something else than None")
            x, tx = self.cx0(l)
            pos = isinstance(op, ast.Is)
            k = kind(tx)
            if k == "Opt": return f"{x}.{'isNone' if pos else 'isSome'}", BOOL
            if k == "Arr": return (f"{x}.isNone" if pos else f"(!{x}.isNone)"), BOOL
            if k == NONE: return ("true" if pos else "false"), BOOL
            if k == UNK and not self.final: return "true", BOOL
            if k in ("Dict", "List", STR, NAT, BOOL, INFO):      # a type without None: decided statically
                return ("false" if pos else "true") + f" /- `{unparse(n)}`: {lt(tx)} has no None -/", BOOL
            raise self.err(n, f"`is None` on a {lt(tx)}")
        if isinstance(op, (ast.In, ast.NotIn)):
            x, tx = self.cx(l, STR)
            c, tc = self.cx0(r)
            if kind(tc) == "Opt":
                c, tc = self.coerce(c, tc, tc[1], r), tc[1]
            if tc == Lst(STR): t = f"(pyIn {x} {c})"
            elif kind(tc) == "Dict": t = f"(pyHas {c} {x})"
            elif kind(tc) == UNK and not self.final: t = "true"
            else: raise self.err(n, f"`in` on a {lt(tc)}")
            return (t if isinstance(op, ast.In) else f"(!{t})"), BOOL
        x, tx = self.cx0(l)
        y, ty = self.cx0(r)
        sym = {ast.Eq: "=", ast.NotEq: "≠", ast.Lt: "<", ast.LtE: "≤", ast.Gt: ">", ast.GtE: "≥"}.get(type(op))
        if sym is None:
            raise self.err(n, "comparison operator outside the subset")
        if self.final and not (tx == ty and (tx == NAT or (tx == STR and sym in ("=", "≠")))):
            raise self.err(n, f"comparison of a {lt(tx)} with a {lt(ty)}")
        return f"(decide ({x} {sym} {y}))", BOOL

    def subscript(self, n):
        s = n.slice
        if isinstance(s, ast.Tuple) and len(s.elts) == 2:
            a, b = s.elts
            full = lambda e: isinstance(e, ast.Slice) and e.lower is None and e.upper is None and e.step is None
            x, tx = self.cx0(n.value)
            if kind(tx) not in ("Arr", UNK):
                raise self.err(n, f"array indexing of a {lt(tx)}")
            if full(a) and self.is_np(b, "newaxis"): return f"(← arrCol {x})", tx
            if self.is_np(a, "newaxis") and full(b): return f"(← arrRow {x})", tx
            raise self.err(n, "index expression outside the subset")
        if isinstance(s, ast.Slice):
            raise self.err(n, "slice outside the subset")
        x, tx = self.cx0(n.value)
        if kind(tx) == "Opt":
            x, tx = self.coerce(x, tx, tx[1], n), tx[1]
        if kind(tx) == "Dict":
            k, _ = self.cx(s, STR)
            return f"(← pyGet {x} {k})", tx[1]
        if kind(tx) == "List":
            i, ti = self.cx0(s)
            if ti != NAT and self.final: raise self.err(n, "list index that is not a natural number")
            return f"(← pyIdx {x} {i})", tx[1]
        if tx == FLAT:
            i, ti = self.cx0(s)
            if ti != NAT and self.final: raise self.err(n, "index that is not a natural number")
            return f"(← hoIdx {x} {i})", Arr("A")
        if kind(tx) == UNK and not self.final:
            return x, UNK
        raise self.err(n, f"subscript of a {lt(tx)}")

    def pattern(self, t):
        if isinstance(t, ast.Name):
            return self.lean[t.id]
        if isinstance(t, ast.Tuple):
            return "(" + ", ".join(self.pattern(e) for e in t.elts) + ")"
        raise self.err(t, "loop target outside the subset")

    def bind_pattern(self, t, ty, node):
        if isinstance(t, ast.Name):
            self.vt[t.id] = ty if (self.final or True) else ty
            return
        if isinstance(t, ast.Tuple):
            if kind(ty) == "Tup" and len(ty[1]) == len(t.elts):
                for e, x in zip(t.elts, ty[1]):
                    self.bind_pattern(e, x, node)
                return
            if kind(ty) == UNK and not self.final:
                for e in t.elts:
                    self.bind_pattern(e, UNK, node)
                return
        raise self.err(node, f"cannot unpack a {lt(ty)}")

    def iterable(self, n):
        """(text : List of the elements, element type)"""
        x, tx = self.cx0(n)
        if kind(tx) == "List":
            return x, tx[1]
        if tx == SLOT:
            return f"(← slotIter {x})", Opt(Arr("B"))
        if kind(tx) == UNK and not self.final:
            return x, UNK
        raise self.err(n, f"iteration over a {lt(tx)}")

    def comp(self, n, elt, want_elt):
        if len(n.generators) != 1 or n.generators[0].is_async:
            raise self.err(n, "comprehension with several `for`")
        g = n.generators[0]
        it, te = self.iterable(g.iter)
        saved = dict(self.vt)
        self.bind_pattern(g.target, te, n)
        pat = self.pattern(g.target)
        conds = [self.as_bool(c) for c in g.ifs]
        if any(RAISES in c for c in conds):
            raise self.err(n, "a comprehension filter that can raise")
        e, ty = self.cx(elt, want_elt)
        for k in list(self.vt):
            if k not in saved: del self.vt[k]
            else: self.vt[k] = saved[k]
        src = it if not conds else f"({it}.filter (fun {pat} => {' && '.join(conds)}))"
        if RAISES in e:
            return f"(← {src}.mapM (fun {pat} => do pure {e}))", Lst(ty)
        return f"({src}.map (fun {pat} => {e}))", Lst(ty)

    def call(self, n, want):
        f = n.func
        kw = {k.arg: k.value for k in n.keywords}
        if None in kw:
            raise self.err(n, "**kwargs")
        if isinstance(f, ast.Name):
            fn = f.id
            if fn == "isinstance" and len(n.args) == 2 and not kw:
                x, tx = self.cx0(n.args[0])
                cls = n.args[1]
                if isinstance(cls, ast.Name) and cls.id == "dict":
                    if tx == INFO: return f"{x}.isDict", BOOL
                    if tx == LEAF: return "false /- the values of an info dict are not dicts -/", BOOL
                elif isinstance(cls, ast.Name) and cls.id == "str":
                    if tx == STR: return "true /- agent ids are strings -/", BOOL
                elif isinstance(cls, ast.Tuple) and [getattr(e, "id", None) for e in cls.elts] == ["int", "float"]:
                    if kind(tx) == "Arr": return f"{x}.isNum", BOOL
                if kind(tx) == UNK and not self.final: return "true", BOOL
                raise self.err(n, f"isinstance of a {lt(tx)} against this class")
            if fn == "len" and len(n.args) == 1 and not kw:
                a = n.args[0]
                if isinstance(a, ast.Attribute) and a.attr == "shape":
                    x, tx = self.cx0(a.value)
                    if kind(tx) == "Opt": x, tx = self.coerce(x, tx, tx[1], n), tx[1]
                    if kind(tx) in ("Arr", UNK): return f"(← arrNdim {x})", NAT
                    raise self.err(n, f"shape of a {lt(tx)}")
                x, tx = self.cx0(a)
                if kind(tx) in ("List", "Dict", UNK): return f"{x}.length", NAT
                raise self.err(n, f"len of a {lt(tx)}")
            if fn in ("all", "any") and len(n.args) == 1 and not kw:
                x, tx = self.cx0(n.args[0])
                if tx not in (Lst(BOOL), Lst(UNK)) and self.final: raise self.err(n, f"{fn} of a {lt(tx)}")
                return f"({'pyAll' if fn == 'all' else 'pyAny'} {x})", BOOL
            if fn == "enumerate" and len(n.args) == 1 and not kw:
                x, te = self.iterable(n.args[0])
                return f"(pyEnumerate {x})", Lst(Tup(NAT, te))
            if fn == "list" and len(n.args) == 1 and not kw:
                x, te = self.iterable(n.args[0])
                return x, Lst(te)
            if fn == "sorted" and len(n.args) == 1 and set(kw) == {"key"}:
                x, te = self.iterable(n.args[0])
                k = kw["key"]
                if not (self.is_self(k) and te in (STR, UNK)):
                    raise self.err(n, "sort key outside the subset")
                callee, args = self.callee(k.attr, n)
                return f"(← pySortedByM {x} (fun k => {callee}{args} k))", Lst(te)
            if fn == "key_in_nested_dict" and len(n.args) == 2 and not kw:
                x, tx = self.cx0(n.args[0])
                if kind(tx) == "Opt": x, tx = self.coerce(x, tx, tx[1], n), tx[1]
                t, _ = self.cx(n.args[1], STR)
                if tx == LEAF:      # `.items()` of a value that is not a dict raises AttributeError
                    return "(← (none : Option Bool))", BOOL
                variant = 0 if tx == Dict(INFO) else 1 if tx == INFO else None
                if variant is None:
                    if kind(tx) == UNK and not self.final: return "true", BOOL
                    raise self.err(n, f"key_in_nested_dict of a {lt(tx)}")
                if self.ns == "Utils" and self.variant == variant:
                    raise self.err(n, "key_in_nested_dict recursion that does not descend")
                c = self.u.get("Utils", "key_in_nested_dict", variant)
                return f"(← {c.lean_name()} {x} {t})", BOOL
            raise self.err(n, "call outside the subset")
        if not isinstance(f, ast.Attribute):
            raise self.err(n, "call outside the subset")
        # self.method(...)
        if self.is_self(f):
            if self.u.method(self.ns, f.attr) is None or f.attr not in PARAM_TYPES or f.attr == "get_action":
                raise self.err(n, "call of a method that is not translated")
            if kw: raise self.err(n, "keyword arguments in a call of a translated method")
            callee, args = self.callee(f.attr, n)
            c = self.last_callee
            if len(n.args) != len(c.params): raise self.err(n, "wrong number of arguments")
            a = [self.cx(x, p[2])[0] for x, p in zip(n.args, c.params)]
            return f"(← {callee}{args} {' '.join(a)})", c.ret if c.ret is not None else UNK
        # numpy / torch functions
        if self.is_np(f, "isnan") and len(n.args) == 1 and not kw:
            x, tx = self.cx(n.args[0], Arr("OA"))
            return f"(← npIsnan {x})", Arr("B")
        if self.is_np(f, "where") and len(n.args) == 3 and not kw:
            c, tc = self.cx(n.args[0], Arr("B"))
            a, _ = self.cx(n.args[1], NAT)
            b, _ = self.cx(n.args[2], NAT)
            return f"(npWhere {c} {a} {b})", Arr("N")
        if self.is_np(f, "empty") and len(n.args) == 1 and not kw:
            a, _ = self.cx(n.args[0], NAT)
            return f"(npEmpty {a})", Arr("OA")
        if self.is_np(f, "array") and len(n.args) == 1 and not kw:
            a = n.args[0]
            if isinstance(a, ast.List) and len(a.elts) == 1 and isinstance(a.elts[0], ast.List) and len(a.elts[0].elts) == 1:
                e = a.elts[0].elts[0]
                x, tx = self.cx0(e)
                if tx == NAN: return f"(Arr.a2 [[{x}]])", Arr("OA")
                if kind(tx) in ("Arr", UNK): return f"(← arrOfNum11 {x})", tx
                raise self.err(n, f"np.array of a nested display of a {lt(tx)}")
            x, tx = self.cx0(a)
            if kind(tx) == "Opt": x, tx = self.coerce(x, tx, tx[1], n), tx[1]
            if kind(tx) in ("Arr", SLOT, UNK): return x, tx
            raise self.err(n, f"np.array of a {lt(tx)}")
        if self.is_np(f, "reshape") and len(n.args) == 2 and not kw:
            x, tx = self.cx(n.args[0], FLAT)
            sh = n.args[1]
            if not (isinstance(sh, ast.Tuple) and len(sh.elts) == 3 and isinstance(sh.elts[2], ast.UnaryOp)
                    and isinstance(sh.elts[2].op, ast.USub) and isinstance(sh.elts[2].operand, ast.Constant)
                    and sh.elts[2].operand.value == 1):
                raise self.err(n, "reshape to something else than (a, b, -1)")
            a, _ = self.cx(sh.elts[0], NAT)
            b, _ = self.cx(sh.elts[1], NAT)
            return f"(← npReshape3 {x} {a} {b})", FLAT
        if self.is_np(f, "ma", "array") and len(n.args) == 1 and set(kw) == {"mask"}:
            d, _ = self.cx(n.args[0], Arr("A"))
            m, _ = self.cx(kw["mask"], Arr("B"))
            return f"({d}, {m})", MA
        if isinstance(f.value, ast.Name) and f.value.id == "torch" and f.attr == "Tensor" and len(n.args) == 1 and not kw:
            x, tx = self.cx0(n.args[0])
            if tx == SLOT or (kind(tx) == UNK and not self.final): return f"(← slotStack {x})", SLOT
            raise self.err(n, f"torch.Tensor of a {lt(tx)}")
        # methods of values
        m = f.attr
        x, tx = self.cx0(f.value)
        if kind(tx) == "Opt" and m in ("keys", "values", "items"):
            x, tx = self.coerce(x, tx, tx[1], n), tx[1]
        k = kind(tx)
        if m in ("keys", "values", "items") and not n.args and not kw:
            if k == "Dict":
                return {"keys": (f"(pyKeys {x})", Lst(STR)), "values": (f"(pyValues {x})", Lst(tx[1])),
                        "items": (f"(pyItems {x})", Lst(Tup(STR, tx[1])))}[m]
            if k == INFO and m == "items":
                return f"({x}.keys.map (fun k => (k, ())))", Lst(Tup(STR, LEAF))
            if k == UNK and not self.final: return x, Lst(UNK)
        if m == "get" and k == INFO and len(n.args) == 2 and not kw and isinstance(n.args[0], ast.Constant) \
                and isinstance(n.args[0].value, str) and isinstance(n.args[1], ast.Constant) and n.args[1].value is None:
            key = n.args[0].value
            if not key.isidentifier(): raise self.err(n, "info key that is not an identifier")
            ty = {"action_mask": Opt(Arr("B")), "env_defined_actions": Arr("OA")}.get(key)
            if ty is None: raise self.err(n, "info key whose type is not declared")
            return f"{x}.{key}", ty
        if m == "rsplit" and k == STR and len(n.args) == 2 and not kw and isinstance(n.args[1], ast.Constant) and n.args[1].value == 1:
            s, _ = self.cx(n.args[0], STR)
            return f"(pyRsplit1 {x} {s})", Lst(STR)
        if m == "index" and tx == Lst(STR) and len(n.args) == 1 and not kw:
            a, _ = self.cx(n.args[0], STR)
            return f"(← pyIndex {x} {a})", NAT
        if m == "astype" and k == "Arr" and len(n.args) == 1 and not kw and isinstance(n.args[0], ast.Name) and n.args[0].id == "bool":
            if tx == Arr("N"): return f"(arrAstypeBool {x})", Arr("B")
            if tx == Arr("B"): return x, tx
        if m == "squeeze" and k in ("Arr", UNK) and len(n.args) == 1 and not kw:
            a, _ = self.cx(n.args[0], NAT)
            return f"(← arrSqueeze {x} {a})", tx
        if m == "argmax" and tx == MA and not n.args and set(kw) == {"axis"}:
            ax = kw["axis"]
            if isinstance(ax, ast.UnaryOp) and isinstance(ax.op, ast.USub) and isinstance(ax.operand, ast.Constant) and ax.operand.value == 1:
                fnm = self.use("np_ma_argmax", "Arr α → Arr Bool → Option (Arr α)")
                return f"(← {fnm} {x}.1 {x}.2)", Arr("A")
            raise self.err(n, "argmax over another axis than the last")
        if k == UNK and not self.final:
            return x, UNK
        raise self.err(n, f"method call on a {lt(tx)} outside the subset")

    def callee(self, name, node):
        space = self.u.method(self.ns, name)[0]
        c = self.u.get(space, name)
        self.last_callee = c
        for k, v in c.uses.items():
            self.use(k, v)
        return c.lean_name(), "".join(f" {k}" for k in c.uses)

    # ------------------------------------------------------------------ statements
    def assigned(self, stmts):
        """python names (re)assigned by the statements, including `d[k] = …` and `.append`"""
        out = []

        def base(t):
            while isinstance(t, ast.Subscript):
                t = t.value
            return t.id if isinstance(t, ast.Name) else None

        for st in stmts:
            for s in ast.walk(st):
                if isinstance(s, ast.Assign):
                    for t in s.targets:
                        for e in (t.elts if isinstance(t, ast.Tuple) else [t]):
                            b = base(e)
                            if b: out.append(b)
                elif isinstance(s, (ast.AnnAssign, ast.AugAssign)):
                    b = base(s.target)
                    if b: out.append(b)
                elif isinstance(s, ast.Expr) and isinstance(s.value, ast.Call) and isinstance(s.value.func, ast.Attribute) \
                        and s.value.func.attr == "append":
                    b = base(s.value.func.value)
                    if b: out.append(b)
        return list(dict.fromkeys(out))

    def block(self, stmts, ind, top=False, declared=None):
        if top:
            self.declared = set()
            for p, l, t in self.params:
                if p in self.assigned(stmts):
                    self.emit(ind, f"let mut {l} : {lt(self.vt[p])} := {self.coerce(l, t, self.vt[p], self.fn)}")
            loc = [v for v in self.assigned(stmts) if v not in {p for p, _, _ in self.params}]
            for v in loc:
                self.declared.add(v)
                if v in self.lean and v in self.vt:
                    self.emit(ind, f"let mut {self.lean[v]} : {lt(self.vt[v])} := default")
        if not stmts:
            self.emit(ind, "pure ()")
        for i, s in enumerate(stmts):
            self.stmt(s, ind, stmts[i + 1:])

    def set_var(self, name, text, ty, ind, node):
        key = (getattr(node, "lineno", 0), getattr(node, "col_offset", 0), name)
        if key not in self.retyped and not self.final and getattr(self, 'cond_depth', 0) == 0 and name in self.vt:
            try:
                join(self.vt[name], ty)
            except Unsupported:
                self.retyped.add(key)       # a top-level assignment that changes the type: a new variable
        if key in self.retyped:
            v = self.ver.get(name, 0) + 1
            self.ver[name] = v
            self.lean[name] = self.lean[name] + "'"
            self.vt[name] = self.vtv.get((name, v), ty)
            if not self.final:
                self.vt[name] = join(self.vt[name], ty)
                self.vtv[(name, v)] = self.vt[name]
            self.emit(ind, f"let mut {self.lean[name]} : {lt(self.vt[name])} := {self.coerce(text, ty, self.vt[name], node)}")
            return
        self.assign_type(name, ty)
        tv = self.vt[name]
        self.emit(ind, f"{self.lean[name]} := {self.coerce(text, ty, tv, node)}")

    def stmt(self, s, ind, rest):
        if isinstance(s, ast.Expr) and isinstance(s.value, ast.Constant) and isinstance(s.value.value, str):
            return
        if isinstance(s, (ast.Assign, ast.AnnAssign)):
            targets = s.targets if isinstance(s, ast.Assign) else [s.target]
            if len(targets) != 1 or s.value is None:
                raise self.err(s, "multiple assignment targets")
            return self.assign(targets[0], s.value, ind, s)
        if isinstance(s, ast.Expr) and isinstance(s.value, ast.Call) and isinstance(s.value.func, ast.Attribute) \
                and s.value.func.attr == "append" and len(s.value.args) == 1:
            tgt = s.value.func.value
            if isinstance(tgt, ast.Subscript) and isinstance(tgt.value, ast.Name):
                d, td = self.var(tgt.value.id, s)
                k, _ = self.cx(tgt.slice, STR)
                if kind(td) == "Dict" and kind(td[1]) == "List" and kind(td[1][1]) == UNK and not self.final:
                    _, te = self.cx0(s.value.args[0])
                    self.vt[tgt.value.id] = Dict(SLOT if kind(te) in ("Opt", NONE) else Lst(te))
                    self.vtv[(tgt.value.id, self.ver.get(tgt.value.id, 0))] = self.vt[tgt.value.id]
                    return
                if kind(td) == "Dict" and td[1] == SLOT:
                    e, _ = self.cx(s.value.args[0], Opt(Arr("B")))
                    self.emit(ind, f"{d} := pySet {d} {k} (← slotAppend (← pyGet {d} {k}) {e})")
                    return
                if kind(td) == "Dict" and kind(td[1]) == "List":
                    e, _ = self.cx(s.value.args[0], td[1][1])
                    self.emit(ind, f"{d} := pySet {d} {k} ((← pyGet {d} {k}) ++ [{e}])")
                    return
            raise self.err(s, "append outside the subset")
        if isinstance(s, ast.Assert):
            self.emit(ind, f"let _ ← pyAssert {self.as_bool(s.test)}")
            return
        if isinstance(s, ast.Return):
            if s.value is None:
                raise self.err(s, "return without a value")
            v = s.value
            if self.name == "get_action" and isinstance(v, ast.Tuple):
                keep = []
                for e in v.elts:
                    try:
                        self.cx0(e)
                        keep.append(e)
                    except Skipped as ex:
                        self.dropped.append(f"`{unparse(e)}` (reads `{ex}`)")
                if not keep:
                    raise self.err(s, "every component of the returned tuple reads a skipped local")
                v = keep[0] if len(keep) == 1 else ast.Tuple(elts=keep, ctx=ast.Load())
                ast.copy_location(v, s)
            text, ty = self.cx(v, self.ret if self.final else None)
            if not self.final:
                self.ret = join(self.ret, ty)
            self.emit(ind, f"return {text}")
            return
        if isinstance(s, ast.If):
            c = self.as_bool(s.test)
            self.emit(ind, f"if {c} then")
            self.cond_depth = getattr(self, "cond_depth", 0) + 1
            self.block(s.body, ind + 1)
            if s.orelse:
                self.emit(ind, "else")
                self.block(s.orelse, ind + 1)
            self.cond_depth -= 1
            return
        if isinstance(s, ast.For):
            return self.loop(s, ind)
        if isinstance(s, ast.Pass):
            self.emit(ind, "pure ()")
            return
        raise self.err(s, "statement outside the subset")

    def assign(self, t, value, ind, s):
        if isinstance(t, ast.Name):
            if not self.final and isinstance(value, ast.DictComp) and isinstance(value.value, ast.List) and not value.value.elts:
                text, ty = self.cx(value)
            else:
                key = (getattr(s, "lineno", 0), getattr(s, "col_offset", 0), t.id)
                want = self.vtv.get((t.id, self.ver.get(t.id, 0) + 1)) if key in self.retyped else self.vt.get(t.id)
                text, ty = self.cx(value, want if self.final else None)
            return self.set_var(t.id, text, ty, ind, s)
        if isinstance(t, ast.Tuple) and all(isinstance(e, ast.Name) for e in t.elts):
            text, ty = self.cx(value)
            if kind(ty) == UNK and not self.final:
                return
            if kind(ty) != "Tup" or len(ty[1]) != len(t.elts):
                raise self.err(s, f"cannot unpack a {lt(ty)} into {len(t.elts)} names")
            n = len(t.elts)
            self.emit(ind, f"let r := {text}")
            for i, (e, x) in enumerate(zip(t.elts, ty[1])):
                proj = "r.1" if i == 0 else "r" + ".2" * i + (".1" if i < n - 1 else "")
                self.set_var(e.id, proj, x, ind, s)
            return
        if isinstance(t, ast.Subscript):
            # x[:] = v
            if isinstance(t.slice, ast.Slice) and t.slice.lower is None and t.slice.upper is None and isinstance(t.value, ast.Name):
                x, tx = self.var(t.value.id, s)
                v, _ = self.cx(value, NAN)
                self.emit(ind, f"{x} := arrFill {x} {v}")
                return
            # D[k][m] = S[k'][m]
            if isinstance(t.value, ast.Subscript) and isinstance(t.value.value, ast.Name):
                if not (isinstance(value, ast.Subscript) and ast.dump(value.slice) == ast.dump(t.slice)):
                    raise self.err(s, "`dst[m] = src[m']` needs the same mask expression on both sides")
                dname = t.value.value.id
                d, td = self.var(dname, s)
                k, _ = self.cx(t.value.slice, STR)
                m, tm = self.cx(t.slice, Arr("B"))
                src, _ = self.cx(value.value, Arr("OA"))
                inner = td[1] if kind(td) == "Opt" else td
                dd = f"(← {d})" if kind(td) == "Opt" else d
                if self.final and inner != Dict(Arr("A")):
                    raise self.err(s, f"masked copy into a {lt(td)}")
                new = f"pySet {dd} {k} (← arrMaskCopy (← pyGet {dd} {k}) {m} {src})"
                self.emit(ind, f"{d} := " + (f"some ({new})" if kind(td) == "Opt" else new))
                return
            if isinstance(t.value, ast.Name):
                dname = t.value.id
                d, td = self.var(dname, s)
                k, _ = self.cx(t.slice, STR)
                inner = td[1] if kind(td) == "Opt" else td
                if not self.final:
                    v, tv = self.cx(value)
                    if kind(inner) in ("Dict", EMPTY, UNK):
                        old = inner[1] if kind(inner) == "Dict" else None
                        if old == SLOT and kind(tv) in (NONE, SLOT):
                            return
                        new = Dict(join(old, tv))
                        self.vt[dname] = Opt(new) if kind(td) == "Opt" else new
                        self.vtv[(dname, self.ver.get(dname, 0))] = self.vt[dname]
                    return
                if kind(inner) != "Dict":
                    raise self.err(s, f"item assignment on a {lt(td)}")
                v, _ = self.cx(value, inner[1])
                dd = f"(← {d})" if kind(td) == "Opt" else d
                new = f"pySet {dd} {k} {v}"
                self.emit(ind, f"{d} := " + (f"some ({new})" if kind(td) == "Opt" else new))
                return
        raise self.err(s, "assignment target outside the subset")

    def loop(self, s, ind):
        if s.orelse:
            raise self.err(s, "for … else")
        it, te = self.iterable(s.iter)
        self.bind_pattern(s.target, te, s)
        pat = self.pattern(s.target)
        body = [b for b in s.body if not (isinstance(b, ast.Expr) and isinstance(b.value, ast.Constant))]
        # form 2: only `if c: return e`
        if body and all(isinstance(b, ast.If) and not b.orelse and len(b.body) == 1 and isinstance(b.body[0], ast.Return)
                        and b.body[0].value is not None for b in body):
            self.emit(ind, f"match (← pyFirst {it} (fun {pat} => do")
            for b in body:
                c = self.as_bool(b.test)
                v, tv = self.cx(b.body[0].value, self.ret if self.final else None)
                if not self.final:
                    self.ret = join(self.ret, tv)
                self.emit(ind + 2, f"if {c} then")
                self.emit(ind + 3, f"return (some {v})")
            self.emit(ind + 2, "return none)) with")
            self.emit(ind, "| some r => return r")
            self.emit(ind, "| none => pure ()")
            return
        if any(isinstance(x, ast.Return) for b in body for x in ast.walk(b)):
            raise self.err(s, "return inside a loop that also does other things")
        tnames = set(self.binders([ast.For(target=s.target, iter=ast.Constant(0), body=[], orelse=[])]))
        asg = self.assigned(body)
        outside = set()
        def walk_out(node):
            if node is s:
                return
            if isinstance(node, ast.Name):
                outside.add(node.id)
            for ch in ast.iter_child_nodes(node):
                walk_out(ch)
        for st in self.body:
            walk_out(st)
        state = [v for v in asg if v in self.declared_outer() and v not in tnames and (v in outside or v in {p for p, _, _ in self.params})]
        locs = [v for v in asg if v not in state and v not in tnames]
        if not state:
            raise self.err(s, "a loop that changes nothing")
        sl = [self.lean[v] for v in state]
        tup = sl[0] if len(sl) == 1 else "(" + ", ".join(sl) + ")"
        self.emit(ind, f"let r ← pyForM {it} {tup} (fun {pat} {tup} => do")
        for v in sl:
            self.emit(ind + 2, f"let mut {v} := {v}")
        for v in sorted(tnames & set(asg), key=lambda v: self.lean[v]):
            self.emit(ind + 2, f"let mut {self.lean[v]} := {self.lean[v]}")
        saved_decl = self.declared
        saved_lean, saved_ver, saved_vt, saved_cd = dict(self.lean), dict(self.ver), dict(self.vt), getattr(self, "cond_depth", 0)
        self.cond_depth = 0
        self.declared = set(self.declared) | set(locs)
        for v in locs:
            if v in self.vt:
                self.emit(ind + 2, f"let mut {self.lean[v]} : {lt(self.vt[v])} := default")
        for i, b in enumerate(body):
            self.stmt(b, ind + 2, body[i + 1:])
        self.emit(ind + 2, f"return {tup})")
        self.declared = saved_decl
        self.cond_depth = saved_cd
        for nm in list(self.ver):
            if self.ver.get(nm, 0) != saved_ver.get(nm, 0):
                self.ver[nm] = saved_ver.get(nm, 0)
                self.lean[nm] = saved_lean[nm]
                if nm in saved_vt:
                    self.vt[nm] = saved_vt[nm]
        self.ver = {k: v for k, v in self.ver.items() if v}
        n = len(sl)
        for i, v in enumerate(sl):
            proj = "r" if n == 1 else ("r.1" if i == 0 else "r" + ".2" * i + (".1" if i < n - 1 else ""))
            self.emit(ind, f"{v} := {proj}")

    def declared_outer(self):
        return self.declared | {p for p, _, _ in self.params}

    # ------------------------------------------------------------------ output
    def text(self):
        ps = [f"({k} : {v})" for k, v in self.uses.items()] + [f"({l} : {lt(t)})" for _, l, t in self.params]
        if self.ret is None:
            raise Unsupported(f"{where(self.fn, self.file)}: {self.fn.name} returns nothing")
        head = f"def {self.lean_name()} {' '.join(ps)} : Option ({lt(self.ret)}) := do"
        out = []
        if self.dropped:
            out.append("-- components of the returned tuple that are not translated: " + "; ".join(dict.fromkeys(self.dropped)))
        return "\n".join(out + [head] + self.lines)


#: the fixed prelude of the generated file (Python / numpy semantics)
PRELUDE = r'''set_option linter.unusedVariables false
namespace MaPlumbGen

/-! ### Python / numpy semantics used by the translation (fixed text) -/

/-- a Python dict with string keys: (key, value) pairs in insertion order -/
abbrev PyDict (V : Type) := List (String × V)

/-- `None`, a Python number, a 1-D or a 2-D ndarray (rows) -/
inductive Arr (β : Type) where
  | none
  | num (x : β)
  | a1 (xs : List β)
  | a2 (rows : List (List β))
deriving Repr, DecidableEq

instance {β : Type} : Inhabited (Arr β) := ⟨Arr.none⟩

/-- the batched output of a shared policy: the flat data (row-major, whatever its shape), or the data reshaped to
    `(agents of the group, env rows, -1)` -/
inductive HOut (β : Type) where
  | flat (l : List β)
  | blocks (bs : List (List (List β)))
deriving Repr, DecidableEq

def HOut.flat' {β : Type} : HOut β → List β
  | HOut.flat l => l
  | HOut.blocks bs => bs.flatten.flatten

instance {β : Type} : Inhabited (HOut β) := ⟨HOut.flat []⟩

/-- the value `action_masks[group]` goes through in `IPPO.extract_action_masks`: the list the masks are
    appended to, then `None` or the stacked tensor (first axis = agent within the group) -/
inductive Slot (μ : Type) where
  | list (l : List (Option μ))
  | none
  | tensor (l : List μ)
deriving Repr, DecidableEq

instance {μ : Type} : Inhabited (Slot μ) := ⟨Slot.none⟩

/-- `infos[agent]`: what the library reads of it.  `isDict`: `isinstance(info, dict)`; `truthy`: `bool(info)`
    (a dict: non-empty); `keys`: the keys of a dict (its values are not dicts themselves);
    `action_mask` / `env_defined_actions`: `info.get(<key>, None)` (`none` / `Arr.none` = absent or None) -/
structure Info (α : Type) where
  isDict : Bool
  truthy : Bool
  keys : List String
  action_mask : Option (Arr Bool)
  env_defined_actions : Arr (Option α)

/-- the literal `{}` as an info -/
def pyEmptyInfo {α : Type} : Info α := ⟨true, false, [], none, Arr.none⟩

instance {α : Type} : Inhabited (Info α) := ⟨pyEmptyInfo⟩

section
variable {V β σ α μ : Type}

def pyHas (d : PyDict V) (k : String) : Bool := d.any (fun p => p.1 == k)
/-- `d[k]` (`none` = KeyError) -/
def pyGet (d : PyDict V) (k : String) : Option V := (d.find? (fun p => p.1 == k)).map (fun p => p.2)
/-- `d[k] = v`: an existing key keeps its place -/
def pySet (d : PyDict V) (k : String) (v : V) : PyDict V :=
  if pyHas d k then d.map (fun p => if p.1 == k then (p.1, v) else p) else d ++ [(k, v)]
/-- `{k: v for …}` from its pairs in evaluation order -/
def pyDictOfPairs (ps : List (String × V)) : PyDict V := ps.foldl (fun d p => pySet d p.1 p.2) []
def pyKeys (d : PyDict V) : List String := d.map (fun p => p.1)
def pyValues (d : PyDict V) : List V := d.map (fun p => p.2)
def pyItems (d : PyDict V) : List (String × V) := d
/-- `x in l` -/
def pyIn (x : String) (l : List String) : Bool := l.contains x
/-- `l.index(x)` (`none` = ValueError) -/
def pyIndex (l : List String) (x : String) : Option Nat := if l.contains x then some (l.idxOf x) else none
/-- `l[i]` for `i ≥ 0` (`none` = IndexError) -/
def pyIdx (l : List β) (i : Nat) : Option β := l[i]?
def pyAll (l : List Bool) : Bool := l.all id
def pyAny (l : List Bool) : Bool := l.any id
/-- `enumerate(l)` -/
def pyEnumerate (l : List β) : List (Nat × β) := (List.range l.length).zip l
/-- `assert c` -/
def pyAssert (c : Bool) : Option Unit := if c then some () else none
/-- `for x in l: <body>` threading the variables the body re-assigns; the first exception aborts -/
def pyForM (l : List β) (init : σ) (f : β → σ → Option σ) : Option σ := l.foldlM (fun s x => f x s) init
/-- `for x in l: if c: return e` — the first returned value (`some none`: the loop ends without `return`;
    `none`: an exception in a test or a returned expression) -/
def pyFirst (l : List β) (f : β → Option (Option σ)) : Option (Option σ) :=
  match l with
  | [] => some Option.none
  | x :: xs =>
    match f x with
    | Option.none => Option.none
    | some (some r) => some (some r)
    | some Option.none => pyFirst xs f
/-- `sorted(l, key=f)` (stable; an exception of `f` propagates) -/
def pySortedByM (l : List β) (f : β → Option Nat) : Option (List β) := do
  let ks ← l.mapM f
  pure (((l.zip ks).mergeSort (fun a b => decide (a.2 ≤ b.2))).map (fun p => p.1))
/-- `s.rsplit(sep, 1)` -/
def pyRsplit1 (s sep : String) : List String :=
  match (s.splitOn sep).reverse with
  | last :: (p :: ps) => [sep.intercalate (p :: ps).reverse, last]
  | _ => [s]
/-- `bool(d)` of an optional dict (`x and d`) -/
def pyTruthyOptDict (d : Option (PyDict V)) : Bool := match d with | some (_ :: _) => true | _ => false

/-! numpy -/
def Arr.isNone : Arr β → Bool | Arr.none => true | _ => false
/-- `isinstance(x, (int, float))` -/
def Arr.isNum : Arr β → Bool | Arr.num _ => true | _ => false
/-- `len(x.shape)` (`none` = AttributeError) -/
def arrNdim : Arr β → Option Nat
  | Arr.a1 _ => some 1 | Arr.a2 _ => some 2 | _ => Option.none
def arrMap {γ : Type} (f : β → γ) : Arr β → Arr γ
  | Arr.none => Arr.none | Arr.num x => Arr.num (f x) | Arr.a1 xs => Arr.a1 (xs.map f)
  | Arr.a2 rs => Arr.a2 (rs.map (fun r => r.map f))
/-- `x[:, np.newaxis]` of a 1-D array -/
def arrCol : Arr β → Option (Arr β) | Arr.a1 xs => some (Arr.a2 (xs.map (fun x => [x]))) | _ => Option.none
/-- `x[np.newaxis, :]` of a 1-D array -/
def arrRow : Arr β → Option (Arr β) | Arr.a1 xs => some (Arr.a2 [xs]) | _ => Option.none
/-- `np.empty(n)`: the content is unspecified in numpy; modelled as NaN -/
def npEmpty (n : Nat) : Arr (Option α) := Arr.a1 (List.replicate n Option.none)
/-- `x[:] = v` -/
def arrFill (x : Arr β) (v : β) : Arr β := arrMap (fun _ => v) x
/-- `np.array([[x]])` of a number -/
def arrOfNum11 : Arr β → Option (Arr β) | Arr.num x => some (Arr.a2 [[x]]) | _ => Option.none
/-- `np.isnan(x)` (`none` = TypeError on None) -/
def npIsnan : Arr (Option α) → Option (Arr Bool)
  | Arr.none => Option.none | x => some (arrMap (fun e => e.isNone) x)
/-- `np.where(c, a, b)` with numbers `a`, `b` -/
def npWhere (c : Arr Bool) (a b : Nat) : Arr Nat := arrMap (fun t => if t then a else b) c
/-- `.astype(bool)` -/
def arrAstypeBool (x : Arr Nat) : Arr Bool := arrMap (fun n => decide (n ≠ 0)) x
/-- `c - np.array(m)` of a 0/1 mask, read as a mask again (non-zero = masked) -/
def npRSubMask (c : Nat) (m : Arr Bool) : Arr Bool := arrMap (fun b => decide (c ≠ (if b then 1 else 0))) m
/-- `x.squeeze(k)` for `k = 1` on a 2-D array (`none` = ValueError: the axis is not of size 1) -/
def arrSqueeze (x : Arr β) (k : Nat) : Option (Arr β) :=
  match x with
  | Arr.a2 rs => if k = 1 ∧ rs.all (fun r => r.length = 1) then some (Arr.a1 rs.flatten) else Option.none
  | _ => Option.none
def zw3 {γ δ ε : Type} (f : β → γ → δ → ε) : List β → List γ → List δ → List ε
  | a :: as, b :: bs, c :: cs => f a b c :: zw3 f as bs cs
  | _, _, _ => []
def sameShape {γ : Type} : Arr β → Arr γ → Bool
  | Arr.a1 xs, Arr.a1 ys => xs.length == ys.length
  | Arr.a2 xs, Arr.a2 ys => xs.map List.length == ys.map List.length
  | _, _ => false
/-- `dst[m] = src[m]` for a boolean `m`: numpy wants `m` of the shape of `dst` and of `src` (`none` = IndexError);
    the entries of `src` where `m` holds are copied (a NaN there leaves `dst` as it is) -/
def arrMaskCopy (dst : Arr α) (m : Arr Bool) (src : Arr (Option α)) : Option (Arr α) :=
  if sameShape dst m && sameShape src m then
    match dst, m, src with
    | Arr.a1 xs, Arr.a1 bs, Arr.a1 es => some (Arr.a1 (zw3 (fun x b e => if b then e.getD x else x) xs bs es))
    | Arr.a2 xs, Arr.a2 bs, Arr.a2 es =>
      some (Arr.a2 (zw3 (fun xr br er => zw3 (fun x b e => if b then e.getD x else x) xr br er) xs bs es))
    | _, _, _ => Option.none
  else Option.none
/-- `np.reshape(x, (n, e, -1))[i]` for every `i`: `n` blocks of `e` rows (`none` = ValueError) -/
def chunk (k : Nat) : Nat → List β → List (List β)
  | 0, _ => []
  | n + 1, l => l.take k :: chunk k n (l.drop k)
def npReshape3 (x : HOut β) (n e : Nat) : Option (HOut β) :=
  let l := x.flat'
  if n * e = 0 ∨ l.length % (n * e) ≠ 0 then Option.none
  else
    let w := l.length / (n * e)
    some (HOut.blocks ((chunk (e * w) n l).map (fun blk => chunk w e blk)))
/-- `x[i]` of a reshaped output: block `i` as a 2-D array (`none` = IndexError; a flat output is not indexed here) -/
def hoIdx (x : HOut β) (i : Nat) : Option (Arr β) :=
  match x with
  | HOut.blocks bs => (bs[i]?).map Arr.a2
  | HOut.flat _ => Option.none
/-- IPPO: `mask is None for mask in slot` iterates the list (`none` = TypeError) -/
def slotIter : Slot μ → Option (List (Option μ)) | Slot.list l => some l | _ => Option.none
/-- `slot.append(x)` -/
def slotAppend (s : Slot μ) (x : Option μ) : Option (Slot μ) :=
  match s with | Slot.list l => some (Slot.list (l ++ [x])) | _ => Option.none
/-- `torch.Tensor(np.array(slot))`: stack the masks along a new first axis (`none`: a `None` among them) -/
def slotStack : Slot μ → Option (Slot μ)
  | Slot.list l => if l.all (fun x => x.isSome) then some (Slot.tensor (l.filterMap id)) else Option.none
  | _ => Option.none
end
'''


def translate(repo: Path) -> tuple[str, str]:
    """returns (lean text, sha256 over the sources); raises Unsupported"""
    u = Unit(Path(repo))
    h = hashlib.sha256()
    for rel in REL_SOURCES:
        h.update(rel.encode() + b"\0" + u.raw[rel] + b"\0")
    sha = h.hexdigest()
    try:
        for name in BASE_METHODS:
            u.get("Base", name)
        for ns, _ in LEARNERS:
            if u.method(ns, "extract_action_masks")[0] == ns:
                u.get(ns, "extract_action_masks")
            u.get(ns, "process_infos")
            u.get(ns, "get_action")
    except Skipped as e:
        raise Unsupported(f"a translated statement reads `{e}`, which is assigned only in the part of get_action that is "
                          "not translated") from e
    except RecursionError as e:
        raise Unsupported("expression too deep") from e
    parts, cur = [], None
    for c in u.order:
        ns = "" if c.ns == "Utils" else c.ns
        if ns != cur:
            if cur:
                parts.append(f"end {cur}\n")
            if ns:
                parts.append(f"namespace {ns}\n")
            cur = ns
        t = c.text()
        if ns:
            t = t.replace(f"def {ns}.", "def ", 1)
        parts.append(t + "\n")
    if cur:
        parts.append(f"end {cur}\n")
    header = "\n".join([
        "/-",
        "  Gen/MaPlumbGen.lean — GENERATED by harness/py2lean_maplumb.py from",
        f"  {REL_SOURCE}",
        "  (key_in_nested_dict; MultiAgentRLAlgorithm.get_homo_id / _agent_position / extract_action_masks /",
        "  extract_agent_masks / disassemble_homogeneous_outputs; IPPO.extract_action_masks; process_infos and the",
        "  statements of get_action around the per-agent loop of IPPO / MADDPG / MATD3); do not edit.  Core Lean only.",
        "  `Proofs/MaPlumbGenEq.lean` proves these definitions equal to their counterparts in `Model/Action.lean`.",
        "  Assumptions: the values of one agent's info dict are not dicts; \"action_mask\" is None or a 0/1 array,",
        "  \"env_defined_actions\" None, a number, a 1-D or 2-D array; np.empty holds NaN; the masked arg-max",
        "  (`np.ma.array(a, mask=m).argmax(axis=-1)`, `m = Arr.none`: no mask) is the parameter `np_ma_argmax`; an exception is `none`.",
        "-/",
        SHA_PREFIX + sha,
    ])
    return header + "\n" + PRELUDE + "\n" + "\n".join(parts) + "\nend MaPlumbGen\n", sha


def strip_sha(text: str) -> str:
    return "\n".join(ln for ln in text.split("\n") if not ln.startswith(SHA_PREFIX))


def write_if_changed(text: str, out: Path, force: bool = False) -> bool:
    """writes `text` unless the file already holds the same translation (sha line ignored)"""
    old = out.read_text() if out.exists() else None
    if old is not None and not force and strip_sha(old) == strip_sha(text):
        return False
    if old == text:
        return False
    out.parent.mkdir(parents=True, exist_ok=True)
    tmp = out.with_suffix(".lean.tmp")
    tmp.write_text(text)
    os.replace(tmp, out)
    return True


def repo_dir(arg: str | None) -> Path:
    if arg:
        return Path(arg)
    return Path(os.environ.get("VERIF_REPO", "/repo"))


def main(argv: list[str]) -> int:
    import argparse
    ap = argparse.ArgumentParser()
    ap.add_argument("--repo", default=None)
    ap.add_argument("--out", default=str(DEFAULT_OUT))
    ap.add_argument("--stdout", action="store_true")
    ap.add_argument("--force", action="store_true", help="rewrite even if only the sha256 line differs")
    a = ap.parse_args(argv)
    try:
        text, sha = translate(repo_dir(a.repo))
    except Unsupported as e:
        print(f"py2lean_maplumb: {e}", file=sys.stderr)
        return 1
    if a.stdout:
        sys.stdout.write(text)
        return 0
    changed = write_if_changed(text, Path(a.out), a.force)
    print(f"{a.out}: {'written' if changed else 'unchanged'} (source sha256 {sha[:16]}…, "
          f"translation sha256 {hashlib.sha256(strip_sha(text).encode()).hexdigest()[:16]}…)")
    return 0


if __name__ == "__main__":
    sys.exit(main(sys.argv[1:]))
