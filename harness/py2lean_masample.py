#!/usr/bin/env python3
"""
py2lean_masample.py — translate the READ side of `MultiAgentReplayBuffer`
(`sample`, `_process_transition`, `stack_transitions` of REPO/agilerl/components/multi_agent_replay_buffer.py)
into Lean 4.  (`__len__`, `_add`, `save_to_memory*` are translated by py2lean_ring.py / py2lean_reorg.py.)

    python3 harness/py2lean_masample.py [--repo DIR] [--out FILE] [--stdout] [--force]

Reads the *source text* only (Python `ast`; agilerl is never imported) and writes lean/Gen/MaSampleGen.lean
(namespace MaSampleGen; imports Gen/ReorgGen.lean for `PyVal` / `PyEnt` / `MA` and the Python list / dict helpers).
`Proofs/MaSampleGenEq.lean` proves the generated definitions equal to `Ring.stackEnts` / `Ring.maProcess` /
`Ring.maSample` (Model/Ring.lean); `Props/C09.lean` restates the theorems (`C09_source_translation_masample_*`).

Data representation (typed reading of the dynamically typed values; stated in the output):
  * a stored experience (the namedtuple `_add` built) is the list of its fields in `field_names` order, each field a
    dict agent -> entry (`List (κ × PyEnt κ α)`), an entry a row (`PyEnt.arr`), a dict of rows or a tuple of rows; a
    row is an opaque `α` (exact content; dtype erased);
  * what `stack_transitions` returns for one (field, agent) is a `PyVal κ α`: the list of the batch's rows
    (`PyVal.arr`), a dict member -> rows, or a tuple of row lists.  A numpy array made by `np.array(<list of rows>)`
    is represented by that list of rows (first axis = batch);
  * `self.memory` is read as the sequence `st.memory.items` of the deque record py2lean_ring.py generates;
    `self.field_names` (strings), `self.agent_ids` are explicit arguments; `self.device` is dropped.
Supported subset (anything else raises `Unsupported` with construct and line):
  * statements: docstring; `x = e` (a local may change its type); `d[k] = e`, `d[a][b] = e` on a local dict;
    `x.append(e)` on a local list; `if / elif / else` on Boolean expressions (branches that leave one variable with a
    dict / tuple / array each are merged by injection into `PyEnt` / `PyVal`); `for x in <list expr>:` (nested, no
    else / break / continue) as a generated structurally recursive function whose state is what the body mutates;
    `return e` as the last statement;
  * expressions: int / str / bool constants, locals, parameters, `type(e)`, `a is dict|tuple`, `e is not None`,
    `a == b`, `not c`, `x in [<str constants>]`, `a if c else b`, `e[i]` on lists / tuples (`pyIndex`), on dicts and
    on entries (`pyEntGetKey` / `pyEntGetIdx`; `none` = KeyError / IndexError / wrong container), `len(e)`, `range(e)`,
    `getattr(e, f)` on an experience (`pyGetattr field_names`: namedtuple attribute = position of `f` in
    `field_names`), `e.items() / .keys() / .values()`, `e.ndim`, list / dict comprehensions and `tuple(<generator>)`
    with one `for` (and the filter `if x is not None` over a list of optional values), `{}`, `[]`,
    `np.array(e)`, `np.expand_dims(e, axis=c)`, `e.astype(np.uint8)`, `obs_to_tensor(e, self.device)`,
    `random.sample(self.memory, k=e)`, `MultiAgentReplayBuffer.stack_transitions(e)`,
    `self._process_transition(e)`, `tuple(e.values())`.
Assumptions (explicit parameters / fixed prelude semantics, listed in the output):
  * `np.array(row)` is the parameter `np_array : α → α`; `np.array(<list of rows>)` stacks (the list itself);
    `np.array(<list of entries>)` (`pyStackEnts`) needs every entry to be a plain row;
  * `x.ndim` of a stacked array is `1 + row_ndim (first row)` (`row_ndim : α → Nat` a parameter); `np.expand_dims(x, axis)`
    acts row-wise through the parameter `expand_dims : Int → α → α` (a scalar row becomes a one-element row);
  * `x.astype(np.uint8)` is `astype_uint8 : α → α` on every row of a plain array, AttributeError (`none`) on a dict /
    tuple; `obs_to_tensor(x, device)` is `to_tensor : α → α` on every leaf (`torch.from_numpy(...).float().to(device)`);
  * `random.sample(population, k)`: ValueError (`none`) for k < 0 or k > len(population), otherwise the elements at the
    positions `draw : List Nat` (explicit argument; the library guarantees `draw` has length k, distinct entries, all
    < len(population) - hypotheses of the theorems, not of the translation);
  * a stored experience is never `None` (`random.sample` returns stored namedtuples: `List.map some`);
  * `.items()` / iteration / indexing applied to an entry of another container kind than the one the code expects is
    `none` (mixed container kinds for one (field, agent) are outside the model).

Shape of the output: canonical renaming (parameters `a0, a1, …`, locals `v0, v1, …` in order of first binding, bound
results `r0, r1, …`), fallible sub-expressions bound before the statement that uses them, loops as `<method>_loopN`;
no line numbers; header with the sha256 of the source.
"""
from __future__ import annotations

import ast
import hashlib
import os
import sys
from pathlib import Path

HERE = Path(__file__).resolve().parent
DEFAULT_OUT = HERE.parent / "lean" / "Gen" / "MaSampleGen.lean"
REL_SOURCE = "agilerl/components/multi_agent_replay_buffer.py"
SHA_PREFIX = "-- sha256("
CLS = "MultiAgentReplayBuffer"


class Unsupported(Exception):
    pass


# ------------------------------------------------------------------------------------------ types
NAT, INT, BOOL, STR, KEY, ROW, ENT, VAL, PYT, NONE = "nat", "int", "bool", "str", "key", "row", "ent", "val", "pytype", "none"


def L(t): return ("list", t)
def TUP(t): return ("tuple", t)
def D(k, t): return ("dict", k, t)
def OPT(t): return ("opt", t)


ARR = L(ROW)
EXP = L(D(KEY, ENT))
EMPTY_LIST, EMPTY_DICT = ("list", None), ("dict", None, None)


def lean_ty(t) -> str:
    if isinstance(t, str):
        return {NAT: "Nat", INT: "Int", BOOL: "Bool", STR: "String", KEY: "κ", ROW: "α", ENT: "PyEnt κ α",
                VAL: "PyVal κ α", PYT: "PyType"}[t]
    if t[0] in ("list", "tuple"):
        return f"List ({lean_ty(t[1])})"
    if t[0] == "dict":
        return f"List ({lean_ty(t[1])} × {lean_ty(t[2])})"
    if t[0] == "opt":
        return f"Option ({lean_ty(t[1])})"
    raise AssertionError(t)


def is_items(t):
    return not isinstance(t, str) and t[0] == "items"


def seq(t):
    return not isinstance(t, str) and t[0] in ("list", "tuple")


def fits(have, want) -> bool:
    """`have` can be used where `want` is expected without conversion (empty literals fit any list / dict)"""
    if have == want:
        return True
    if have == EMPTY_LIST:
        return seq(want)
    if have == EMPTY_DICT:
        return not isinstance(want, str) and want[0] == "dict"
    if seq(have) and seq(want):
        return fits(have[1], want[1])
    if not isinstance(have, str) and not isinstance(want, str) and have[0] == want[0] == "dict":
        return fits(have[1], want[1]) and fits(have[2], want[2])
    return False


INJECT = [  # (source type, target, constructor)
    (D(KEY, ROW), ENT, "PyEnt.dict"), (TUP(ROW), ENT, "PyEnt.tup"), (ROW, ENT, "PyEnt.arr"),
    (D(KEY, ARR), VAL, "PyVal.dict"), (TUP(ARR), VAL, "PyVal.tup"), (ARR, VAL, "PyVal.arr"),
]

COMMON = ("(np_array : α → α) (row_ndim : α → Nat) (expand_dims : Int → α → α) (astype_uint8 : α → α) "
          "(to_tensor : α → α)")
COMMON_ARGS = "np_array row_ndim expand_dims astype_uint8 to_tensor"
SELF = "(field_names : List String) (agent_ids : List κ) (st : MA κ α)"
SELF_ARGS = "field_names agent_ids st"

LEAN_NAME = {"stack_transitions": "stack_transitions", "_process_transition": "process_transition", "sample": "sample"}
# name -> (parameter types, keyword-with-default parameters, return type, uses self, extra lean parameters)
SIGS = {
    "stack_transitions": ([L(ENT)], [], VAL, False, ""),
    "_process_transition": ([L(OPT(EXP))], [("np_array", BOOL, False)], D(STR, D(KEY, VAL)), True, ""),
    "sample": ([INT], [], L(D(KEY, VAL)), True, "(draw : List Nat)"),
}


def ind(lines, n):
    return [(" " * n + ln) if ln else ln for ln in lines]


class Fn:
    def __init__(self, node: ast.FunctionDef, out_defs: list):
        self.node, self.name = node, node.name
        self.lname = f"{CLS}.{LEAN_NAME[node.name]}"
        self.ptys, self.kws, self.ret, self.uses_self, self.extra = SIGS[node.name]
        self.defs = out_defs
        self.env: dict[str, tuple[str, object]] = {}     # python name -> (lean name, type)
        self.nparam = self.nlocal = self.nbind = self.nloop = 0
        self.pending: list[str] = []

    def fail(self, node, what):
        raise Unsupported(f"{REL_SOURCE}:{getattr(node, 'lineno', '?')}: `{self.name}`: {what}")

    # -------------------------------------------------------------------------------- names
    def new_local(self) -> str:
        self.nlocal += 1
        return f"v{self.nlocal - 1}"

    def bind(self, text: str) -> str:
        """a fallible sub-expression (`Option`): bound before the statement that uses it"""
        r = f"r{self.nbind}"
        self.nbind += 1
        self.pending.append((text, r))
        return r

    @staticmethod
    def bind_lines(pending) -> list[str]:
        return [ln for text, r in pending for ln in (f"match {text} with", "| none => none", f"| some {r} =>")]

    def flush(self) -> list[str]:
        out = self.bind_lines(self.pending)
        self.pending = []
        return out

    def scoped(self, f):
        """evaluate `f()` with its own pending list (the body of a lambda / a branch); returns (pending lines, result)"""
        saved, self.pending = self.pending, []
        try:
            r = f()
            p, self.pending = self.pending, []
            return p, r
        finally:
            self.pending = saved

    def lower(self, text, have, want, node):
        if fits(have, want):
            return text
        for src, tgt, con in INJECT:
            if tgt == want and fits(have, src):
                return f"({con} {text})"
        if want == L(OPT(EXP)) and fits(have, L(EXP)):
            return f"(({text}).map some)"
        self.fail(node, f"a value of type {have} where {want} is expected")

    # -------------------------------------------------------------------------------- expressions
    def ex(self, e) -> tuple[str, object]:
        if isinstance(e, ast.Constant):
            if isinstance(e.value, bool):
                return ("true" if e.value else "false"), BOOL
            if isinstance(e.value, int) and e.value >= 0:
                return str(e.value), NAT
            if isinstance(e.value, str):
                return '"' + e.value.replace("\\", "\\\\").replace('"', '\\"') + '"', STR
            if e.value is None:
                return "none", NONE
            self.fail(e, f"constant {e.value!r}")
        if isinstance(e, ast.Name):
            if e.id in self.env:
                return self.env[e.id]
            if e.id in ("dict", "tuple"):
                return f"PyType.{e.id}", PYT
            self.fail(e, f"unknown name `{e.id}`")
        if isinstance(e, ast.UnaryOp) and isinstance(e.op, ast.Not):
            t, ty = self.ex(e.operand)
            if ty != BOOL:
                self.fail(e, "`not` of a non-Boolean")
            return f"(!{t})", BOOL
        if isinstance(e, ast.UnaryOp) and isinstance(e.op, ast.USub) and isinstance(e.operand, ast.Constant) \
                and isinstance(e.operand.value, int):
            return f"(-{e.operand.value})", INT
        if isinstance(e, ast.Attribute):
            if isinstance(e.value, ast.Name) and e.value.id == "self":
                if not self.uses_self:
                    self.fail(e, "`self` in a static method")
                if e.attr == "memory":
                    return "st.memory.items", L(EXP)
                if e.attr == "field_names":
                    return "field_names", L(STR)
                if e.attr == "agent_ids":
                    return "agent_ids", L(KEY)
                self.fail(e, f"attribute `self.{e.attr}`")
            if e.attr == "ndim":
                t, ty = self.ex(e.value)
                if ty != ARR:
                    self.fail(e, f"`.ndim` of {ty}")
                return f"(pyNdim row_ndim {t})", NAT
            self.fail(e, f"attribute `.{e.attr}`")
        if isinstance(e, ast.Compare) and len(e.ops) == 1:
            return self.compare(e)
        if isinstance(e, ast.IfExp):
            c, cty = self.ex(e.test)
            if cty != BOOL:
                self.fail(e, "non-Boolean condition")
            (pa, (a, aty)) = self.scoped(lambda: self.ex(e.body))
            (pb, (b, bty)) = self.scoped(lambda: self.ex(e.orelse))
            if pa or pb:
                self.fail(e, "fallible operand of a conditional expression")
            if not fits(bty, aty):
                self.fail(e, f"branches of different types {aty} / {bty}")
            return f"(if {c} then {a} else {b})", aty
        if isinstance(e, ast.Subscript):
            return self.subscript(e)
        if isinstance(e, ast.List) and not e.elts:
            return "[]", EMPTY_LIST
        if isinstance(e, ast.Dict) and not e.keys:
            return "[]", EMPTY_DICT
        if isinstance(e, ast.ListComp):
            return self.comp(e, e.elt, None, "list")
        if isinstance(e, ast.DictComp):
            return self.comp(e, e.value, e.key, "dict")
        if isinstance(e, ast.Call):
            return self.call(e)
        self.fail(e, f"expression {type(e).__name__}")

    def compare(self, e):
        op, a, b = e.ops[0], e.left, e.comparators[0]
        if isinstance(op, ast.IsNot) and isinstance(b, ast.Constant) and b.value is None:
            t, ty = self.ex(a)
            if isinstance(ty, str) or ty[0] != "opt":
                self.fail(e, f"`is not None` on {ty} (never None in the model)")
            return f"({t}).isSome", BOOL
        if isinstance(op, (ast.Is, ast.IsNot, ast.Eq, ast.NotEq)):
            ta, tya = self.ex(a)
            tb, tyb = self.ex(b)
            if tya != tyb or tya not in (PYT, NAT, STR):
                self.fail(e, f"comparison of {tya} with {tyb}")
            if isinstance(op, (ast.Is, ast.IsNot)) and tya != PYT:
                self.fail(e, "`is` on values")
            txt = f"decide ({ta} = {tb})"
            return (f"(!{txt})" if isinstance(op, (ast.IsNot, ast.NotEq)) else f"({txt})"), BOOL
        if isinstance(op, (ast.In, ast.NotIn)) and isinstance(b, ast.List):
            ta, tya = self.ex(a)
            elts = [self.ex(x) for x in b.elts]
            if any(ty != tya for _, ty in elts) or tya != STR:
                self.fail(e, "`in` over a list of another type")
            txt = f"decide ({ta} ∈ [{', '.join(t for t, _ in elts)}])"
            return (f"(!{txt})" if isinstance(op, ast.NotIn) else f"({txt})"), BOOL
        self.fail(e, f"comparison {type(op).__name__}")

    def subscript(self, e):
        t, ty = self.ex(e.value)
        i, ity = self.ex(e.slice)
        if seq(ty) and ity in (NAT, INT):
            return self.bind(f"pyIndex {t} ({i} : Int)"), ty[1]
        if ty == ENT and ity == KEY:
            return self.bind(f"pyEntGetKey {t} {i}"), ROW
        if ty == ENT and ity == NAT:
            return self.bind(f"pyEntGetIdx {t} {i}"), ROW
        if not isinstance(ty, str) and ty[0] == "dict" and ity == ty[1]:
            return self.bind(f"pyDictGet {t} {i}"), ty[2]
        self.fail(e, f"index of type {ity} into {ty}")

    def as_iter(self, e):
        """(list text, element type, optional pattern) of a `for` clause's iterable"""
        if isinstance(e, ast.Call) and isinstance(e.func, ast.Attribute) and e.func.attr == "items" and not e.args:
            t, ty = self.ex(e.func.value)
            if ty == ENT:
                return self.bind(f"pyAsDict {t}"), ("items", KEY, ROW)
            if not isinstance(ty, str) and ty[0] == "dict":
                return t, ("items", ty[1], ty[2])
            self.fail(e, f"`.items()` of {ty}")
        t, ty = self.ex(e)
        if ty == ENT:
            return self.bind(f"pyAsTup {t}"), ROW
        if seq(ty):
            return t, ty[1]
        self.fail(e, f"iteration over {ty}")

    def comp(self, e, elt, key, kind):
        if len(e.generators) != 1 or e.generators[0].is_async:
            self.fail(e, "comprehension with several `for`")
        g = e.generators[0]
        it, ety = self.as_iter(g.iter)
        saved = dict(self.env)
        try:
            if is_items(ety):
                if not (isinstance(g.target, ast.Tuple) and len(g.target.elts) == 2
                        and all(isinstance(x, ast.Name) for x in g.target.elts)):
                    self.fail(e, "target of `.items()` must be a pair of names")
                n1, n2 = self.new_local(), self.new_local()
                self.env[g.target.elts[0].id] = (n1, ety[1])
                self.env[g.target.elts[1].id] = (n2, ety[2])
                pat = f"({n1}, {n2})"
            else:
                if not isinstance(g.target, ast.Name):
                    self.fail(e, "comprehension target")
                n1 = self.new_local()
                pat = n1
                if g.ifs:
                    c = g.ifs[0]
                    if not (len(g.ifs) == 1 and isinstance(c, ast.Compare) and isinstance(c.ops[0], ast.IsNot)
                            and isinstance(c.left, ast.Name) and c.left.id == g.target.id
                            and isinstance(c.comparators[0], ast.Constant) and c.comparators[0].value is None
                            and not isinstance(ety, str) and ety[0] == "opt"):
                        self.fail(e, "comprehension filter other than `x is not None` over optional values")
                    it, ety = f"(pyFilterNotNone {it})", ety[1]
                self.env[g.target.id] = (n1, ety)
            if g.ifs and is_items(ety):
                self.fail(e, "filter on `.items()`")

            def body():
                v, vty = self.ex(elt)
                if key is not None:
                    k, kty = self.ex(key)
                    return f"({k}, {v})", (kty, vty)
                return v, vty
            pend, (txt, rty) = self.scoped(body)
        finally:
            self.env = saved
        if key is not None:
            rty = D(rty[0], EMPTY_DICT if rty[1] == EMPTY_DICT else rty[1])
        else:
            rty = (TUP if kind == "tuple" else L)(rty)
        if not pend:
            return f"(({it}).map (fun {pat} => {txt}))", rty
        if pend[-1][1] == txt:          # `match X with | none => none | some r => some r` is `X`
            lam = f"(fun {pat} => " + " ".join(self.bind_lines(pend[:-1]) + [pend[-1][0]]) + ")"
        else:
            lam = f"(fun {pat} => " + " ".join(self.bind_lines(pend)) + f" some {txt})"
        return self.bind(f"pyAll (({it}).map {lam})"), rty

    def call(self, e):
        f = e.func
        kw = {k.arg: k.value for k in e.keywords}
        if isinstance(f, ast.Name):
            if f.id == "type" and len(e.args) == 1:
                t, ty = self.ex(e.args[0])
                if ty != ENT:
                    self.fail(e, f"`type` of {ty}")
                return f"(pyTypeOf {t})", PYT
            if f.id == "len" and len(e.args) == 1:
                t, ty = self.ex(e.args[0])
                if ty == ENT:
                    return self.bind(f"pyEntLen {t}"), NAT
                if seq(ty) or (not isinstance(ty, str) and ty[0] == "dict"):
                    return f"({t}).length", NAT
                self.fail(e, f"`len` of {ty}")
            if f.id == "range" and len(e.args) == 1:
                t, ty = self.ex(e.args[0])
                if ty != NAT:
                    self.fail(e, "`range` of a non-natural")
                return f"(List.range {t})", L(NAT)
            if f.id == "getattr" and len(e.args) == 2:
                t, ty = self.ex(e.args[0])
                n, nty = self.ex(e.args[1])
                if ty != EXP or nty != STR:
                    self.fail(e, f"`getattr` on {ty}")
                return self.bind(f"pyGetattr field_names {t} {n}"), D(KEY, ENT)
            if f.id == "tuple" and len(e.args) == 1:
                a = e.args[0]
                if isinstance(a, ast.GeneratorExp):
                    return self.comp(a, a.elt, None, "tuple")
                t, ty = self.ex(a)
                if seq(ty):
                    return t, TUP(ty[1])
                self.fail(e, f"`tuple` of {ty}")
            if f.id == "obs_to_tensor" and len(e.args) == 2:
                t, ty = self.ex(e.args[0])
                d = e.args[1]
                if ty != VAL or not (isinstance(d, ast.Attribute) and d.attr == "device"):
                    self.fail(e, "`obs_to_tensor` arguments")
                return f"(pyObsToTensor to_tensor {t})", VAL
            self.fail(e, f"call of `{f.id}`")
        if isinstance(f, ast.Attribute):
            base = f.value
            if isinstance(base, ast.Name) and base.id == "np":
                if f.attr == "array" and len(e.args) == 1 and not kw:
                    t, ty = self.ex(e.args[0])
                    if ty == ROW:
                        return f"(np_array {t})", ROW
                    if fits(ty, ARR):
                        return t, ARR
                    if fits(ty, L(ENT)):
                        return self.bind(f"pyStackEnts {t}"), ARR
                    self.fail(e, f"`np.array` of {ty}")
                if f.attr == "expand_dims" and len(e.args) == 1 and set(kw) == {"axis"}:
                    t, ty = self.ex(e.args[0])
                    a, aty = self.ex(kw["axis"])
                    if ty != ARR or aty not in (NAT, INT):
                        self.fail(e, "`np.expand_dims` arguments")
                    return f"(pyExpandDims expand_dims {t} ({a} : Int))", ARR
                self.fail(e, f"`np.{f.attr}`")
            if isinstance(base, ast.Name) and base.id == "random" and f.attr == "sample":
                if len(e.args) != 1 or set(kw) != {"k"}:
                    self.fail(e, "`random.sample` arguments")
                t, ty = self.ex(e.args[0])
                k, kty = self.ex(kw["k"])
                if not seq(ty) or kty not in (NAT, INT):
                    self.fail(e, "`random.sample` arguments")
                return self.bind(f"pyRandomSample {t} ({k} : Int) draw"), ty
            if isinstance(base, ast.Name) and base.id in (CLS, "self") and f.attr in SIGS and not kw:
                ptys, _, ret, uses_self, extra = SIGS[f.attr]
                if uses_self and base.id != "self":
                    self.fail(e, "method called on the class")
                if len(e.args) != len(ptys):
                    self.fail(e, f"arguments of `{f.attr}`")
                args = []
                for a, want in zip(e.args, ptys):
                    t, ty = self.ex(a)
                    args.append(self.lower(t, ty, want, e))
                defaults = ["true" if d else "false" for _, _, d in SIGS[f.attr][1]]
                head = f"{CLS}.{LEAN_NAME[f.attr]} {COMMON_ARGS}" + (f" {SELF_ARGS}" if uses_self else "")
                return self.bind(" ".join([head] + args + defaults)), ret
            if f.attr in ("items", "keys", "values") and not e.args:
                t, ty = self.ex(base)
                if ty == ENT:
                    t, ty = self.bind(f"pyAsDict {t}"), D(KEY, ROW)
                if isinstance(ty, str) or ty[0] != "dict":
                    self.fail(e, f"`.{f.attr}()` of {ty}")
                if f.attr == "items":
                    return t, L(("pair", ty[1], ty[2]))
                return (f"(pyKeys {t})", L(ty[1])) if f.attr == "keys" else (f"(pyValues {t})", L(ty[2]))
            if f.attr == "astype" and len(e.args) == 1:
                a = e.args[0]
                if not (isinstance(a, ast.Attribute) and isinstance(a.value, ast.Name) and a.value.id == "np"
                        and a.attr == "uint8"):
                    self.fail(e, "`.astype` to another type than np.uint8")
                t, ty = self.ex(base)
                if ty != VAL:
                    self.fail(e, f"`.astype` of {ty}")
                return self.bind(f"pyAstypeUint8 astype_uint8 {t}"), VAL
            self.fail(e, f"call of `.{f.attr}`")
        self.fail(e, "call")

    # -------------------------------------------------------------------------------- statements
    def assigned(self, stmts) -> list[str]:
        out: list[str] = []

        def add(n):
            if n not in out:
                out.append(n)
        for s in stmts:
            if isinstance(s, ast.Assign):
                t = s.targets[0]
                while isinstance(t, ast.Subscript):
                    t = t.value
                if isinstance(t, ast.Name):
                    add(t.id)
            elif isinstance(s, ast.Expr) and isinstance(s.value, ast.Call) and isinstance(s.value.func, ast.Attribute) \
                    and s.value.func.attr == "append" and isinstance(s.value.func.value, ast.Name):
                add(s.value.func.value.id)
            elif isinstance(s, ast.If):
                for n in self.assigned(s.body) + self.assigned(s.orelse):
                    add(n)
            elif isinstance(s, ast.For):
                for n in self.assigned(s.body):
                    add(n)
        return out

    def set_var(self, name, ty) -> str:
        n = self.new_local() if name not in self.env else self.env[name][0]
        self.env[name] = (n, ty)
        return n

    def block(self, stmts, final) -> list[str]:
        """lines evaluating to an `Option`; `final()` gives the lines after the last statement"""
        if not stmts:
            return final()
        s, rest = stmts[0], stmts[1:]
        nxt = lambda: self.block(rest, final)
        if isinstance(s, ast.Expr) and isinstance(s.value, ast.Constant) and isinstance(s.value.value, str):
            return nxt()
        if isinstance(s, ast.Return):
            if rest or s.value is None:
                self.fail(s, "`return` that is not the last statement / returns nothing")
            t, ty = self.ex(s.value)
            t = self.lower(t, ty, self.ret, s)
            return self.flush() + [f"some {t}"]
        if isinstance(s, ast.Assign) and len(s.targets) == 1:
            tg = s.targets[0]
            v, vty = self.ex(s.value)
            if isinstance(tg, ast.Name):
                pre = self.flush()
                n = self.set_var(tg.id, vty)
                return pre + [f"let {n} := {v}"] + nxt()
            if isinstance(tg, ast.Subscript) and isinstance(tg.value, ast.Name) and tg.value.id in self.env:
                d, dty = self.env[tg.value.id]
                k, kty = self.ex(tg.slice)
                if fits(dty, EMPTY_DICT) and dty == EMPTY_DICT:
                    dty = D(kty, vty)
                if isinstance(dty, str) or dty[0] != "dict" or kty != dty[1]:
                    self.fail(s, f"item assignment on {dty}")
                v = self.lower(v, vty, dty[2], s)
                pre = self.flush()
                self.env[tg.value.id] = (d, dty)
                return pre + [f"let {d} := pySetItem {d} {k} {v}"] + nxt()
            if isinstance(tg, ast.Subscript) and isinstance(tg.value, ast.Subscript) \
                    and isinstance(tg.value.value, ast.Name) and tg.value.value.id in self.env:
                d, dty = self.env[tg.value.value.id]
                k1, k1ty = self.ex(tg.value.slice)
                k2, k2ty = self.ex(tg.slice)
                if isinstance(dty, str) or dty[0] != "dict" or k1ty != dty[1]:
                    self.fail(s, f"item assignment on {dty}")
                inner = dty[2]
                if inner == EMPTY_DICT:
                    inner = D(k2ty, vty)
                    dty = D(dty[1], inner)
                if isinstance(inner, str) or inner[0] != "dict" or inner[1] != k2ty:
                    self.fail(s, f"nested item assignment on {dty}")
                v = self.lower(v, vty, inner[2], s)
                r = self.bind(f"pySetItem2 {d} {k1} {k2} {v}")
                pre = self.flush()
                self.env[tg.value.value.id] = (d, dty)
                return pre + [f"let {d} := {r}"] + nxt()
            self.fail(s, "assignment target")
        if isinstance(s, ast.Expr) and isinstance(s.value, ast.Call) and isinstance(s.value.func, ast.Attribute) \
                and s.value.func.attr == "append" and isinstance(s.value.func.value, ast.Name) \
                and s.value.func.value.id in self.env and len(s.value.args) == 1:
            name = s.value.func.value.id
            x, xty = self.env[name]
            v, vty = self.ex(s.value.args[0])
            if xty == EMPTY_LIST:
                xty = L(vty)
            if not seq(xty):
                self.fail(s, f"`.append` on {xty}")
            v = self.lower(v, vty, xty[1], s)
            pre = self.flush()
            self.env[name] = (x, xty)
            return pre + [f"let {x} := {x} ++ [{v}]"] + nxt()
        if isinstance(s, ast.If):
            return self.if_stmt(s, rest, nxt)
        if isinstance(s, ast.For):
            return self.for_stmt(s, nxt)
        self.fail(s, f"statement {type(s).__name__}")

    def used_later(self, name, rest) -> bool:
        return any(isinstance(n, ast.Name) and n.id == name for st in rest for n in ast.walk(st))

    def if_stmt(self, s, rest, nxt):
        c, cty = self.ex(s.test)
        if cty != BOOL:
            self.fail(s, "non-Boolean condition")
        pre = self.flush()
        # what the statement hands on: the variables a branch assigns and a later statement (or the enclosing loop) reads
        vs = [n for n in self.assigned([s]) if n in self.env or self.used_later(n, rest)]
        vs = [n for n in vs if self.used_later(n, rest) or n in self.loop_state or n in self.need]
        if not vs:
            self.fail(s, "`if` without an effect that is used later")
        env0, nl0 = dict(self.env), self.nlocal
        results = []
        saved_need, self.need = self.need, self.need + vs
        for body in (s.body, s.orelse):
            self.env = dict(env0)
            got = {}

            def fin(got=got):
                for n in vs:
                    if n not in self.env:
                        self.fail(s, f"`{n}` is not assigned in every branch")
                    got[n] = self.env[n]
                return ["@@RESULT@@"]
            lines = self.block(body, fin)
            results.append((lines, got))
        self.need = saved_need
        # merged types: equal, or injected into PyEnt / PyVal
        merged = {}
        for n in vs:
            tys = [g[n][1] for _, g in results]
            if fits(tys[1], tys[0]):
                merged[n] = tys[0]
            elif fits(tys[0], tys[1]):
                merged[n] = tys[1]
            else:
                for tgt in (ENT, VAL):
                    if all(t == tgt or any(fits(t, src) and tg2 == tgt for src, tg2, _ in INJECT) for t in tys):
                        merged[n] = tgt
                        break
                else:
                    self.fail(s, f"`{n}` has incompatible types {tys} after the branches")
        out_branches = []
        for lines, got in results:
            tup = ", ".join(self.lower(got[n][0], got[n][1], merged[n], s) for n in vs)
            tup = f"({tup})" if len(vs) > 1 else tup
            out_branches.append([ln if ln != "@@RESULT@@" else f"some {tup}" for ln in lines])
        self.env = dict(env0)
        names = [self.set_var(n, merged[n]) for n in vs]
        pat = f"({', '.join(names)})" if len(names) > 1 else names[0]
        return (pre + [f"match (if {c} then ("] + ind(out_branches[0], 4) + ["  ) else ("] + ind(out_branches[1], 4)
                + ["  )) with", "| none => none", f"| some {pat} =>"] + nxt())

    loop_state: list = []
    need: list = []

    def for_stmt(self, s, nxt):
        if s.orelse or not isinstance(s.target, ast.Name):
            self.fail(s, "`for` with else / a target that is not a name")
        for n in ast.walk(s):
            if isinstance(n, (ast.Break, ast.Continue, ast.Return)):
                self.fail(n, "break / continue / return inside `for`")
        it, ety = self.as_iter(s.iter)
        if is_items(ety):
            self.fail(s, "`for` over `.items()`")
        pre = self.flush()
        state = [n for n in self.assigned(s.body) if n in self.env]
        if not state:
            self.fail(s, "`for` whose body changes nothing that exists before the loop")
        free = [n for n in self.env if n not in state
                and any(isinstance(x, ast.Name) and x.id == n for st in s.body for x in ast.walk(st))]
        idx = self.nloop
        self.nloop += 1
        fname = f"{self.lname}_loop{idx}"
        env0 = dict(self.env)
        saved_state, self.loop_state = self.loop_state, state
        # a first pass over the body fixes the state's types (an empty literal gets its element type from the body)
        nl, nb, nlo, ndefs = self.nlocal, self.nbind, self.nloop, len(self.defs)
        lv = self.new_local()
        self.env[s.target.id] = (lv, ety)
        self.block(s.body, lambda: [])
        sty = {n: self.env[n][1] for n in state}
        self.env, self.nlocal, self.nbind, self.nloop = dict(env0), nl, nb, nlo
        del self.defs[ndefs:]
        for n in state:
            self.env[n] = (self.env[n][0], sty[n])
        env1 = dict(self.env)
        lv = self.new_local()
        self.env[s.target.id] = (lv, ety)
        spat = ", ".join(self.env[n][0] for n in state)
        spat = f"({spat})" if len(state) > 1 else spat
        call = " ".join([fname, COMMON_ARGS] + ([SELF_ARGS] if self.uses_self else []) + [env1[n][0] for n in free])

        def fin():
            for n in state:
                if self.env[n][1] != sty[n]:
                    self.fail(s, f"`{n}` changes its type inside the loop")
            cur = ", ".join(self.env[n][0] for n in state)
            cur = f"({cur})" if len(state) > 1 else cur
            return [f"{call} {cur} rest"]
        body = self.block(s.body, fin)
        self.loop_state = saved_state
        params = " ".join(f"({env1[n][0]} : {lean_ty(env1[n][1])})" for n in free)
        st_ty = " × ".join(lean_ty(sty[n]) for n in state)
        sig = (f"def {fname} {COMMON}" + (f" {SELF}" if self.uses_self else "") + (f" {params}" if params else "")
               + f" : {st_ty} → List ({lean_ty(ety)}) → Option ({st_ty})")
        spat1 = ", ".join(env1[n][0] for n in state)
        spat1 = f"({spat1})" if len(state) > 1 else spat1
        self.defs.append([f"/-- `for` loop {idx} of `{CLS}.{self.name}` -/", sig, f"  | {spat1}, [] => some {spat1}",
                          f"  | {spat1}, {lv} :: rest =>"] + ind(body, 4) + [""])
        self.env = env1
        names = [self.env[n][0] for n in state]
        pat = f"({', '.join(names)})" if len(names) > 1 else names[0]
        return pre + [f"match {call} {spat1} ({it}) with", "| none => none", f"| some {pat} =>"] + nxt()

    def run(self) -> None:
        a = self.node.args
        if a.kwonlyargs or a.kwarg or a.posonlyargs:
            self.fail(self.node, "keyword-only / ** parameters")
        pos = [x.arg for x in a.args]
        if self.uses_self:
            if not pos or pos[0] != "self":
                self.fail(self.node, "method without self")
            pos = pos[1:]
        if len(pos) != len(self.ptys) + len(self.kws) or [k for k, _, _ in self.kws] != pos[len(self.ptys):]:
            self.fail(self.node, f"parameter list {pos}")
        defaults = [d.value if isinstance(d, ast.Constant) else None for d in a.defaults]
        if defaults != [d for _, _, d in self.kws]:
            self.fail(self.node, f"parameter defaults {defaults}")
        params = []
        for n, ty in zip(pos, self.ptys + [t for _, t, _ in self.kws]):
            ln = f"a{len(params)}"
            self.env[n] = (ln, ty)
            params.append(f"({ln} : {lean_ty(ty)})")
        body = self.block(self.node.body, lambda: self.fail(self.node, "no `return` at the end"))
        kind = "static method" if not self.uses_self else "method"
        sig = (f"def {self.lname} {COMMON}" + (f" {SELF}" if self.uses_self else "") + " " + " ".join(params)
               + (f" {self.extra}" if self.extra else "") + f" : Option ({lean_ty(self.ret)}) :=")
        self.defs.append([f"/-- {kind} `{CLS}.{self.name}` -/", sig] + ind(body, 2) + [""])


PRELUDE = r'''
/-! ### Python / numpy semantics used (fixed text) -/

/-- `type(x)` of a stored entry -/
inductive PyType where
  | ndarray | dict | tuple
deriving DecidableEq, Repr

def pyTypeOf {κ α : Type} : PyEnt κ α → PyType
  | PyEnt.arr _ => PyType.ndarray
  | PyEnt.dict _ => PyType.dict
  | PyEnt.tup _ => PyType.tuple

/-- `d[k]` on a dict (`none` = KeyError) -/
def pyDictGet {κ β : Type} [DecidableEq κ] : List (κ × β) → κ → Option β
  | [], _ => none
  | (k', v) :: r, k => if k' = k then some v else pyDictGet r k

/-- `d[a][b] = v` (`none` = KeyError on `a`) -/
def pySetItem2 {φ κ β : Type} [DecidableEq φ] [DecidableEq κ] (d : List (φ × List (κ × β))) (a : φ) (b : κ) (v : β) :
    Option (List (φ × List (κ × β))) :=
  match pyDictGet d a with
  | none => none
  | some inner => some (pySetItem d a (pySetItem inner b v))

/-- `getattr(e, f)` on the namedtuple over `names`: the member at the position of `f` -/
def pyGetattr {β : Type} : List String → List β → String → Option β
  | n :: ns, x :: xs, f => if n = f then some x else pyGetattr ns xs f
  | _, _, _ => none

/-- `[x for x in l if x is not None]` -/
def pyFilterNotNone {β : Type} : List (Option β) → List β
  | [] => []
  | none :: r => pyFilterNotNone r
  | some x :: r => x :: pyFilterNotNone r

/-- `random.sample(population, k)` with the drawn positions explicit: ValueError for `k < 0` or `k > len` -/
def pyRandomSample {β : Type} (pop : List β) (k : Int) (draw : List Nat) : Option (List β) :=
  if k < 0 ∨ k > (pop.length : Int) then none else pyAll (draw.map (fun i => pop[i]?))

def pyAsDict {κ α : Type} : PyEnt κ α → Option (List (κ × α))
  | PyEnt.dict kv => some kv
  | _ => none
def pyAsTup {κ α : Type} : PyEnt κ α → Option (List α)
  | PyEnt.tup xs => some xs
  | _ => none
def pyAsArr {κ α : Type} : PyEnt κ α → Option α
  | PyEnt.arr x => some x
  | _ => none
/-- `t[k]` on an entry that must be a dict -/
def pyEntGetKey {κ α : Type} [DecidableEq κ] (t : PyEnt κ α) (k : κ) : Option α :=
  match pyAsDict t with | none => none | some kv => pyDictGet kv k
/-- `t[i]` on an entry that must be a tuple -/
def pyEntGetIdx {κ α : Type} (t : PyEnt κ α) (i : Nat) : Option α :=
  match pyAsTup t with | none => none | some xs => xs[i]?
/-- `len(t)` of a tuple / dict entry -/
def pyEntLen {κ α : Type} : PyEnt κ α → Option Nat
  | PyEnt.tup xs => some xs.length
  | PyEnt.dict kv => some kv.length
  | PyEnt.arr _ => none
/-- `np.array(<list of entries>)`: every entry a plain row; the stacked array is the list of rows -/
def pyStackEnts {κ α : Type} (ts : List (PyEnt κ α)) : Option (List α) := pyAll (ts.map pyAsArr)
/-- `x.ndim` of a stacked array: one more than its rows have -/
def pyNdim {α : Type} (row_ndim : α → Nat) : List α → Nat
  | [] => 1
  | r :: _ => 1 + row_ndim r
/-- `np.expand_dims(x, axis)`, row-wise -/
def pyExpandDims {α : Type} (expand_dims : Int → α → α) (rows : List α) (axis : Int) : List α := rows.map (expand_dims axis)
/-- `x.astype(np.uint8)`: a plain array is cast row by row; a dict / tuple has no `astype` (AttributeError) -/
def pyAstypeUint8 {κ α : Type} (astype_uint8 : α → α) : PyVal κ α → Option (PyVal κ α)
  | PyVal.arr rows => some (PyVal.arr (rows.map astype_uint8))
  | _ => none
/-- `obs_to_tensor(x, device)`: every leaf through `torch.from_numpy(..).float().to(device)` -/
def pyObsToTensor {κ α : Type} (to_tensor : α → α) : PyVal κ α → PyVal κ α
  | PyVal.arr rows => PyVal.arr (rows.map to_tensor)
  | PyVal.dict kv => PyVal.dict (kv.map (fun p => (p.1, p.2.map to_tensor)))
  | PyVal.tup xs => PyVal.tup (xs.map (fun rows => rows.map to_tensor))
'''


def repo_dir(arg: str | None = None) -> Path:
    if arg:
        return Path(arg)
    return Path(os.environ.get("VERIF_REPO", "/repo"))


def translate(repo: Path) -> tuple[str, str]:
    path = Path(repo) / REL_SOURCE
    try:
        raw = path.read_bytes()
    except OSError as e:
        raise Unsupported(f"cannot read {path}: {e}") from e
    sha = hashlib.sha256(raw).hexdigest()
    try:
        tree = ast.parse(raw.decode("utf-8"))
    except (SyntaxError, UnicodeDecodeError) as e:
        raise Unsupported(f"{REL_SOURCE}: cannot parse: {e}") from e
    cls = next((n for n in tree.body if isinstance(n, ast.ClassDef) and n.name == CLS), None)
    if cls is None:
        raise Unsupported(f"{REL_SOURCE}: class `{CLS}` not found")
    methods = {n.name: n for n in cls.body if isinstance(n, ast.FunctionDef)}
    defs: list[list[str]] = []
    for name in ("stack_transitions", "_process_transition", "sample"):
        if name not in methods:
            raise Unsupported(f"{REL_SOURCE}: method `{CLS}.{name}` not found")
        node = methods[name]
        static = any(isinstance(d, ast.Name) and d.id == "staticmethod" for d in node.decorator_list)
        if static == SIGS[name][3] or len(node.decorator_list) > (1 if static else 0):
            raise Unsupported(f"{REL_SOURCE}:{node.lineno}: decorators of `{name}`")
        Fn(node, defs).run()
    header = [
        "import Gen.ReorgGen",
        "/-",
        "  Gen/MaSampleGen.lean — GENERATED by harness/py2lean_masample.py from",
        f"  {REL_SOURCE} (`sample`, `_process_transition`, `stack_transitions`); do not edit.",
        "  `Proofs/MaSampleGenEq.lean` proves these definitions equal to `Ring.maSample` etc. in `Model/Ring.lean`.",
        "-/",
        f"{SHA_PREFIX}{REL_SOURCE}) = {sha}",
        "set_option linter.unusedVariables false",
        "",
        "namespace MaSampleGen",
        "open ReorgGen",
    ]
    text = ("\n".join(header) + "\n" + PRELUDE + "\nsection\nvariable {κ α : Type} [DecidableEq κ]\n\n"
            + f"/-! ### `{CLS}` ({REL_SOURCE}), read side -/\n\n" + "\n".join("\n".join(d) for d in defs).rstrip()
            + "\n\nend\n\nend MaSampleGen\n")
    return text, sha


def strip_sha(text: str) -> str:
    return "\n".join(ln for ln in text.split("\n") if not ln.startswith(SHA_PREFIX))


def write_if_changed(text: str, out: Path, force: bool = False) -> bool:
    old = out.read_text() if out.exists() else None
    if old is not None and not force and strip_sha(old) == strip_sha(text):
        return False
    if old == text:
        return False
    out.parent.mkdir(parents=True, exist_ok=True)
    tmp = out.with_suffix(".lean.tmp")
    tmp.write_text(text)
    os.replace(tmp, out)
    return True


def main(argv: list[str]) -> int:
    import argparse
    ap = argparse.ArgumentParser()
    ap.add_argument("--repo", default=None)
    ap.add_argument("--out", default=str(DEFAULT_OUT))
    ap.add_argument("--stdout", action="store_true")
    ap.add_argument("--force", action="store_true", help="rewrite even if only the sha256 line differs")
    a = ap.parse_args(argv)
    try:
        text, sha = translate(repo_dir(a.repo))
    except Unsupported as e:
        print(f"py2lean_masample: {e}", file=sys.stderr)
        return 1
    if a.stdout:
        sys.stdout.write(text)
        return 0
    changed = write_if_changed(text, Path(a.out), a.force)
    print(f"{a.out}: {'written' if changed else 'unchanged'} (source sha256 {sha[:16]}…, "
          f"translation sha256 {hashlib.sha256(strip_sha(text).encode()).hexdigest()[:16]}…)")
    return 0


if __name__ == "__main__":
    sys.exit(main(sys.argv[1:]))
