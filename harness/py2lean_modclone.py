#!/usr/bin/env python3
"""
py2lean_modclone.py — translate what `module.clone()` does to each group of mutable objects of an evolvable module,
from the source text of

    REPO/agilerl/modules/base.py            EvolvableModule.{init_dict, get_init_dict, clone}, ModuleDict.clone (if any)
    REPO/agilerl/networks/base.py           EvolvableNetwork.{clone, get_init_dict} (if overridden)
    REPO/agilerl/networks/distributions.py  EvolvableDistribution.{__init__ (annotations only), clone}

into Lean 4 (property C01).  harness/py2lean_clone.py translates the agent level and ASSUMES "module.clone shares
nothing"; this file reads that function itself, with the same provenance vocabulary.

    python3 harness/py2lean_modclone.py [--repo DIR] [--out FILE] [--stdout] [--force]

AST only (agilerl / torch are never imported).  Output: lean/Gen/ModCloneGen.lean (namespace ModCloneGen, core Lean,
imports nothing); `Proofs/ModCloneGenEq.lean` proves the generated per-part rule equal to `Heap.moduleCloneRule` /
`Heap.distCloneRule` of `Model/Heap.lean` for every part and every nesting depth.

Supported subset
  value expressions E ::= self | self.<name> | getattr(self, "<name>") | getattr(self, k) (k = the variable of a
      comprehension over `inspect.signature(self.__init__).parameters[.keys()]`, directly or through a local)
      | self.get_init_dict() | self.init_dict | {k: E for k in <those names>} | copy.deepcopy(E)
      | copy.copy(E) | dict(E) | list(E) | E.copy() | E.state_dict() | E.clone() | type(self) | self.__class__
      | <ClassName> | literal | a local bound earlier by `x = E`
  get_init_dict:  `x = inspect.signature(self.__init__).parameters`, `return E`,
      `try: return E except AttributeError: raise …` (the handler must only raise)
  init_dict property: `return E`
  clone:  `c = <cls>(**E)` | `c = <cls>(kw=E, …)` (a keyword is a MODULE argument when the class's `__init__`
      annotates that parameter with a name containing "Evolvable" or "Module"), `c.<field> = E`,
      `c.load_state_dict(E[, strict=<const>][, assign=<const>])`, the same inside
      `try: … except RuntimeError: pass` (guarded), `return c`.  Statement ORDER is kept.
  Anything else raises `Unsupported` naming the construct and line.

Assumptions (repeated in the generated header)
  * attribute access returns a reference; a dict comprehension, `dict(x)`, `list(x)`, `copy.copy(x)`, `x.copy()`,
    `state_dict()` build a new container around the same contents; `copy.deepcopy` shares nothing at any depth
    and preserves values (`Val.shareAt`);
  * a constructor stores an argument as it is given, and a module built from plain arguments creates its parameter
    tensors itself; torch's `load_state_dict` copies VALUES into the module's own tensors unless `assign=True`
    (then it re-binds them to the tensors of the given state);
  * the guard `except RuntimeError: pass` is not taken for a clone built from the module's own init dict;
  * `E.clone()` of a NESTED module is this same function one level down.
  All of them are measured on every run by the module-level suite of harness/c01.py (storages, ids of every
  container of init_dict at every depth, values).
"""
from __future__ import annotations

import ast
import hashlib
import os
import sys
from pathlib import Path

HERE = Path(__file__).resolve().parent
DEFAULT_OUT = HERE.parent / "lean" / "Gen" / "ModCloneGen.lean"
MOD_SOURCE = "agilerl/modules/base.py"
NET_SOURCE = "agilerl/networks/base.py"
DIST_SOURCE = "agilerl/networks/distributions.py"
REL_SOURCES = (MOD_SOURCE, NET_SOURCE, DIST_SOURCE)
REL_SOURCE = "agilerl/{modules/base.py,networks/base.py,networks/distributions.py}"
SHA_PREFIX = "-- sha256(source) = "

ASSUMED = [
    "attribute access returns a reference; a dict comprehension / dict(x) / list(x) / copy.copy(x) / x.copy() / state_dict() build a new container around the same contents; copy.deepcopy shares nothing at any depth and preserves values (`Val.shareAt`)",
    "a constructor stores an argument as it is given; a module built from plain arguments creates its parameter tensors itself",
    "torch's load_state_dict copies values into the module's own tensors unless assign=True (then it re-binds them to the given tensors)",
    "the guard `except RuntimeError: pass` is not taken for a clone built from the module's own init dict",
    "`v.clone()` of a nested module is this same function one level down",
]

_current = [MOD_SOURCE]


class Unsupported(Exception):
    pass


def fail(node, what: str):
    raise Unsupported(f"{_current[0]}:{getattr(node, 'lineno', '?')}: unsupported construct: {what}")


def repo_dir(arg: str | None = None) -> Path:
    return Path(arg or os.environ.get("VERIF_REPO") or "/repo")


def lean_str(s: str) -> str:
    return '"' + s.replace("\\", "\\\\").replace('"', '\\"') + '"'


def lean_bool(b: bool) -> str:
    return "true" if b else "false"


def paren(s: str) -> str:
    return s if (" " not in s) else f"({s})"


def find_class(tree: ast.Module, name: str) -> ast.ClassDef:
    for n in tree.body:
        if isinstance(n, ast.ClassDef) and n.name == name:
            return n
    raise Unsupported(f"{_current[0]}: class {name} not found")


def find_def(cls: ast.ClassDef, name: str, prop: bool = False) -> ast.FunctionDef | None:
    found = None
    for n in cls.body:
        if isinstance(n, ast.FunctionDef) and n.name == name:
            decos = [ast.unparse(d) for d in n.decorator_list]
            if any(d.endswith(".setter") for d in decos):
                continue
            if prop != ("property" in decos):
                fail(n, f"`{name}` is {'not ' if prop else ''}a property")
            found = n
    return found


def body_of(fn: ast.FunctionDef) -> list[ast.stmt]:
    body = list(fn.body)
    if body and isinstance(body[0], ast.Expr) and isinstance(body[0].value, ast.Constant) and isinstance(body[0].value.value, str):
        body = body[1:]
    return body


class Exprs:
    """value expressions of one method; `self_name` ↦ self, `clone_name` ↦ clone"""

    def __init__(self, self_name: str):
        self.self_name = self_name
        self.clone_name: str | None = None
        self.locals: dict[str, str] = {}        # local ↦ Lean term
        self.ctor_names: set[str] = set()       # locals bound to the constructor's parameter names
        self.comp_var: str | None = None

    def who(self, node) -> str | None:
        if isinstance(node, ast.Name):
            if node.id == self.self_name:
                return "self"
            if self.clone_name is not None and node.id == self.clone_name:
                return "clone"
        return None

    def is_ctor_names(self, node) -> bool:
        """`inspect.signature(self.__init__).parameters[.keys()]` or a local bound to it"""
        if isinstance(node, ast.Call) and isinstance(node.func, ast.Attribute) and node.func.attr == "keys" \
                and not node.args and not node.keywords:
            node = node.func.value
        if isinstance(node, ast.Name) and node.id in self.ctor_names:
            return True
        if isinstance(node, ast.Attribute) and node.attr == "parameters":
            c = node.value
            if isinstance(c, ast.Call) and ast.unparse(c.func) in ("inspect.signature", "signature") and len(c.args) == 1 \
                    and not c.keywords:
                a = c.args[0]
                return isinstance(a, ast.Attribute) and a.attr == "__init__" and self.who(a.value) == "self"
        return False

    def val(self, node) -> str:
        w = self.who(node)
        if w:
            return f".obj .{w}"
        if isinstance(node, ast.Constant):
            return ".const"
        if isinstance(node, ast.Name):
            if node.id in self.locals:
                return self.locals[node.id]
            if node.id[:1].isupper():
                return f".className {lean_str(node.id)}"
            fail(node, f"name `{node.id}`")
        if isinstance(node, ast.Attribute):
            w = self.who(node.value)
            if w:
                if node.attr == "init_dict":
                    return f".initDictProp .{w}"
                if node.attr == "__class__":
                    return f".typeOf .{w}"
                return f".attr .{w} {lean_str(node.attr)}"
            fail(node, f"attribute of a non-module `{ast.unparse(node)}`")
        if isinstance(node, ast.DictComp):
            if len(node.generators) != 1:
                fail(node, "dict comprehension with several generators")
            g = node.generators[0]
            if g.ifs or g.is_async or not isinstance(g.target, ast.Name) or not self.is_ctor_names(g.iter):
                fail(node, "dict comprehension not over the constructor's parameter names")
            if not (isinstance(node.key, ast.Name) and node.key.id == g.target.id):
                fail(node, "dict comprehension whose key is not the loop variable")
            old, self.comp_var = self.comp_var, g.target.id
            try:
                return f".dictOf {paren(self.val(node.value))}"
            finally:
                self.comp_var = old
        if isinstance(node, ast.Call):
            f = node.func
            fname = ast.unparse(f)
            if node.keywords and fname not in ():
                fail(node, f"keyword arguments in `{fname}(…)`")
            args = node.args
            if fname in ("copy.deepcopy", "deepcopy") and len(args) == 1:
                return f".deepcopy {paren(self.val(args[0]))}"
            if fname in ("copy.copy", "dict", "list") and len(args) == 1:
                return f".shallowCopy {paren(self.val(args[0]))}"
            if fname == "type" and len(args) == 1 and self.who(args[0]):
                return f".typeOf .{self.who(args[0])}"
            if fname == "getattr" and len(args) == 2 and self.who(args[0]):
                w = self.who(args[0])
                if isinstance(args[1], ast.Constant) and isinstance(args[1].value, str):
                    return f".attr .{w} {lean_str(args[1].value)}"
                if isinstance(args[1], ast.Name) and args[1].id == self.comp_var:
                    return f".ctorAttr .{w}"
                fail(node, "getattr with a computed name")
            if isinstance(f, ast.Attribute) and not args:
                if f.attr == "get_init_dict" and self.who(f.value):
                    return f".getInitDict .{self.who(f.value)}"
                if f.attr == "state_dict":
                    return f".stateDict {paren(self.val(f.value))}"
                if f.attr == "clone":
                    return f".moduleClone {paren(self.val(f.value))}"
                if f.attr == "copy":
                    return f".shallowCopy {paren(self.val(f.value))}"
            fail(node, f"call `{fname}(…)`")
        fail(node, f"expression `{ast.unparse(node)}`")


def self_name_of(fn: ast.FunctionDef) -> str:
    if not fn.args.args:
        fail(fn, "method without self")
    return fn.args.args[0].arg


def translate_value_method(fn: ast.FunctionDef) -> str:
    """a method / property whose result is one value expression (init_dict, get_init_dict)"""
    ex = Exprs(self_name_of(fn))
    result = None
    for st in body_of(fn):
        if result is not None:
            fail(st, "statement after return")
        if isinstance(st, ast.Assign) and len(st.targets) == 1 and isinstance(st.targets[0], ast.Name):
            if ex.is_ctor_names(st.value):
                ex.ctor_names.add(st.targets[0].id)
            else:
                ex.locals[st.targets[0].id] = ex.val(st.value)
        elif isinstance(st, ast.Return) and st.value is not None:
            result = ex.val(st.value)
        elif isinstance(st, ast.Try):
            if st.orelse or st.finalbody or len(st.body) != 1 or not isinstance(st.body[0], ast.Return) or st.body[0].value is None:
                fail(st, "try whose body is not a single return")
            for h in st.handlers:
                if not (len(h.body) == 1 and isinstance(h.body[0], ast.Raise)):
                    fail(h, "exception handler that does more than raise")
            result = ex.val(st.body[0].value)
        else:
            fail(st, type(st).__name__)
    if result is None:
        fail(fn, "no return")
    return result


def module_params(cls: ast.ClassDef | None) -> set[str]:
    """constructor parameters annotated as modules"""
    out: set[str] = set()
    if cls is None:
        return out
    init = find_def(cls, "__init__")
    if init is None:
        return out
    for a in init.args.args + init.args.kwonlyargs:
        if a.annotation is not None:
            t = ast.unparse(a.annotation)
            if "Evolvable" in t or "Module" in t:
                out.add(a.arg)
    return out


def translate_clone(fn: ast.FunctionDef, classes: dict[str, ast.ClassDef]) -> list[str]:
    ex = Exprs(self_name_of(fn))
    steps: list[str] = []
    returned = [False]

    def construct(target: ast.Name, call: ast.Call):
        if ex.clone_name is not None:
            fail(call, "second construction")
        cls = ex.val(call.func)
        if not (cls.startswith(".typeOf") or cls.startswith(".className")):
            fail(call, f"constructor `{ast.unparse(call.func)}`")
        if call.args:
            fail(call, "positional constructor arguments")
        if len(call.keywords) == 1 and call.keywords[0].arg is None:
            args = f".splat {paren(ex.val(call.keywords[0].value))}"
        else:
            if any(k.arg is None for k in call.keywords):
                fail(call, "`**` mixed with keywords")
            mods = module_params(classes.get(call.func.id)) if isinstance(call.func, ast.Name) else set()
            items = [f"({lean_str(k.arg)}, {lean_bool(k.arg in mods)}, {ex.val(k.value)})" for k in call.keywords]
            args = f".named [{', '.join(items)}]"
        steps.append(f".construct {paren(cls)} {paren(args)}")
        ex.clone_name = target.id

    def stmt(st: ast.stmt, guarded: bool):
        if returned[0]:
            fail(st, "statement after return")
        if isinstance(st, ast.Assign) and len(st.targets) == 1:
            t = st.targets[0]
            if isinstance(t, ast.Name):
                if isinstance(st.value, ast.Call) and not guarded and (
                        st.value.keywords and (st.value.keywords[0].arg is None or isinstance(st.value.func, ast.Name)
                                               and st.value.func.id[:1].isupper())):
                    return construct(t, st.value)
                if t.id in (ex.self_name, ex.clone_name):
                    fail(st, f"re-binding `{t.id}`")
                ex.locals[t.id] = ex.val(st.value)
                return
            if isinstance(t, ast.Attribute) and ex.who(t.value):
                steps.append(f".setField .{ex.who(t.value)} {lean_str(t.attr)} {paren(ex.val(st.value))}")
                return
            fail(st, f"assignment to `{ast.unparse(t)}`")
        if isinstance(st, ast.Expr) and isinstance(st.value, ast.Call):
            c = st.value
            if isinstance(c.func, ast.Attribute) and c.func.attr == "load_state_dict" and ex.who(c.func.value) and len(c.args) == 1:
                assign = False
                for k in c.keywords:
                    if k.arg == "strict" and isinstance(k.value, ast.Constant):
                        continue
                    if k.arg == "assign" and isinstance(k.value, ast.Constant) and isinstance(k.value.value, bool):
                        assign = k.value.value
                        continue
                    fail(c, f"load_state_dict keyword `{k.arg}`")
                steps.append(f".loadState .{ex.who(c.func.value)} {paren(ex.val(c.args[0]))} {lean_bool(assign)} {lean_bool(guarded)}")
                return
            fail(st, f"call `{ast.unparse(c.func)}(…)`")
        if isinstance(st, ast.Try) and not guarded:
            if st.orelse or st.finalbody or len(st.handlers) != 1:
                fail(st, "try with else / finally / several handlers")
            h = st.handlers[0]
            if not (h.type is not None and ast.unparse(h.type) == "RuntimeError" and len(h.body) == 1 and isinstance(h.body[0], ast.Pass)):
                fail(h, "handler other than `except RuntimeError: pass`")
            for s in st.body:
                stmt(s, True)
            return
        if isinstance(st, ast.Return) and not guarded:
            w = ex.who(st.value) if st.value is not None else None
            if w is None:
                fail(st, "return of something else than a module")
            steps.append(f".ret .{w}")
            returned[0] = True
            return
        fail(st, type(st).__name__)

    for st in body_of(fn):
        stmt(st, False)
    return steps


def step_list(name: str, steps: list[str]) -> list[str]:
    out = [f"def {name} : List Step := ["]
    out += ["  " + s + ("," if i < len(steps) - 1 else "") for i, s in enumerate(steps)]
    out += ["]", ""]
    return out


def opt_step_list(name: str, steps: list[str] | None) -> list[str]:
    if steps is None:
        return [f"def {name} : Option (List Step) := none"]
    return [f"def {name} : Option (List Step) := some ["] + \
        ["  " + s + ("," if i < len(steps) - 1 else "") for i, s in enumerate(steps)] + ["]"]


PRELUDE = r'''set_option linter.unusedVariables false

namespace ModCloneGen

/-- `self` = the module being cloned, `clone` = the new module -/
inductive Who where
  | self | clone
deriving DecidableEq, Repr

/-- provenance of a value, read off the expression that computes it -/
inductive Val where
  | obj (w : Who)                  -- the module itself
  | attr (w : Who) (name : String) -- `w.<name>` / `getattr(w, "<name>")`: a reference to what `w` holds
  | ctorAttr (w : Who)             -- `getattr(w, k)`, `k` ranging over the names of the constructor's parameters
  | getInitDict (w : Who)          -- `w.get_init_dict()`
  | initDictProp (w : Who)         -- `w.init_dict`
  | dictOf (v : Val)               -- `{k: v for k in …}`: a new dict whose values are `v`
  | deepcopy (v : Val)             -- `copy.deepcopy(v)`
  | shallowCopy (v : Val)          -- `copy.copy(v)`, `dict(v)`, `list(v)`, `v.copy()`: new container, same contents
  | stateDict (v : Val)            -- `v.state_dict()`: a new dict of references to `v`'s tensors
  | moduleClone (v : Val)          -- `v.clone()` of a nested evolvable module
  | typeOf (w : Who)               -- `type(w)` / `w.__class__`
  | className (n : String)         -- a class named in the source
  | const                          -- a literal
deriving DecidableEq, Repr

/-- shares mutable cells with nobody (`fresh`), with the original (`parent`), or is the clone's own (`own`) -/
inductive Share where
  | fresh | parent | own
deriving DecidableEq, Repr

/-- PYTHON SEMANTICS assumed, per nesting depth (0 = the object itself, `d+1` = what its entries at depth `d`
    refer to): attribute access gives a reference; a dict comprehension / shallow copy / `state_dict()` builds a
    new container around the same contents; `copy.deepcopy` shares nothing at any depth; `v.clone()` of a nested
    module is fresh (it is THIS function again, one level down).  `init d` = the profile of
    `self.get_init_dict()`, which the generated `getInitDict` supplies. -/
def Val.shareAt (init : Nat → Share) : Val → Nat → Share
  | .obj .self, _ => .parent
  | .obj .clone, _ => .own
  | .attr .self _, _ => .parent
  | .attr .clone _, _ => .own
  | .ctorAttr .self, _ => .parent
  | .ctorAttr .clone, _ => .own
  | .getInitDict .self, d => init d
  | .getInitDict .clone, _ => .own
  | .initDictProp .self, d => init d
  | .initDictProp .clone, _ => .own
  | .dictOf _, 0 => .fresh
  | .dictOf v, d + 1 => v.shareAt init d
  | .deepcopy _, _ => .fresh
  | .shallowCopy _, 0 => .fresh
  | .shallowCopy v, d + 1 => v.shareAt init (d + 1)
  | .stateDict _, 0 => .fresh
  | .stateDict v, d + 1 => v.shareAt init (d + 1)
  | .moduleClone _, _ => .fresh
  | .typeOf _, _ => .fresh
  | .className _, _ => .fresh
  | .const, _ => .fresh

/-- does the value hold what `self`'s recorded constructor arguments hold (copies preserve values) -/
def Val.fromInit : Val → Bool
  | .getInitDict .self => true
  | .initDictProp .self => true
  | .deepcopy v => v.fromInit
  | .shallowCopy v => v.fromInit
  | _ => false

/-- is the value what `self` holds under attribute `f` (possibly copied) -/
def Val.holdsAttr (f : String) : Val → Bool
  | .attr .self n => n == f
  | .deepcopy v => v.holdsAttr f
  | .shallowCopy v => v.holdsAttr f
  | _ => false

/-- is the value the state of `self` (possibly copied) -/
def Val.isSelfState : Val → Bool
  | .stateDict (.obj .self) => true
  | .deepcopy v => v.isSelfState
  | .shallowCopy v => v.isSelfState
  | _ => false

/-- constructor arguments: `**v`, or keywords (`isModule`: the parameter is annotated as a module) -/
inductive Args where
  | splat (v : Val)
  | named (kw : List (String × Bool × Val))
deriving DecidableEq, Repr

/-- one effect of `clone` on the new module, in source order -/
inductive Step where
  | construct (cls : Val) (args : Args)                          -- `clone = <cls>(<args>)`
  | setField (w : Who) (field : String) (v : Val)                -- `w.<field> = v`
  | loadState (w : Who) (state : Val) (assign guarded : Bool)    -- `w.load_state_dict(state[, assign=…])`; guarded: in `try … except RuntimeError: pass`
  | ret (w : Who)
deriving DecidableEq, Repr

/-- the groups of mutable objects reachable from a module -/
inductive Part where
  | params                 -- parameter / buffer tensors
  | initArg (depth : Nat)  -- containers among the recorded constructor arguments, at nesting depth `depth`
  | methodLists            -- `_layer_mutation_methods`, `_node_mutation_methods`
deriving DecidableEq, Repr

def worst : Share → Share → Share
  | .fresh, s => s
  | s, .fresh => s
  | .parent, _ => .parent
  | _, .parent => .parent
  | .own, .own => .own

/-- the module arguments decide whom the parameters of a keyword-constructed wrapper belong to; a module built
    from plain arguments (`**init_dict`) creates its parameter tensors itself -/
def Args.moduleShare (init : Nat → Share) : Args → Share
  | .splat _ => .fresh
  | .named kw => kw.foldl (fun s x => if x.2.1 then worst s (x.2.2.shareAt init 0) else s) .fresh

/-- a constructor stores an argument as it is given: the container at depth `d` of the clone's recorded
    arguments is entry-depth `d + 1` of the `**` dict, resp. depth `d` of the plain keyword values -/
def Args.argShare (init : Nat → Share) (d : Nat) : Args → Share
  | .splat v => v.shareAt init (d + 1)
  | .named kw => kw.foldl (fun s x => if x.2.1 then s else worst s (x.2.2.shareAt init d)) .fresh

def Args.faithful : Args → Bool
  | .splat v => v.fromInit
  | .named kw => kw.all fun x => match x.2.2 with
      | .attr .self n => n == x.1 || x.2.1
      | .moduleClone (.attr .self _) => x.2.1
      | _ => false

def isMethodList (f : String) : Bool := f == "_layer_mutation_methods" || f == "_node_mutation_methods"

/-- what the clone holds for one part after a step: (sharing, holds the original's values); `none` = a step this
    reading does not understand -/
def Step.apply (init : Nat → Share) (p : Part) (s : Option (Share × Bool)) : Step → Option (Share × Bool)
  | .construct (.typeOf .self) args | .construct (.className _) args =>
    match p with
    | .params => some (args.moduleShare init, false)
    | .initArg d => some (args.argShare init d, args.faithful)
    | .methodLists => some (.fresh, true)
  | .construct _ _ => none
  | .setField .clone f v =>
    if isMethodList f then
      match p with
      | .methodLists => s.map fun x => (worst (if x.1 = .own then .fresh else x.1) (v.shareAt init 0), x.2 && v.holdsAttr f)
      | _ => s
    else none
  | .setField .self _ _ => none
  | .loadState .clone state assign _ =>
    match p with
    | .params => s.map fun x => (if assign then worst x.1 (state.shareAt init 1) else x.1, state.isSelfState)
    | _ => s
  | .loadState .self _ _ _ => none
  | .ret _ => s

def run (init : Nat → Share) (p : Part) (steps : List Step) : Option (Share × Bool) :=
  if steps.getLast? = some (.ret .clone) then steps.foldl (Step.apply init p) (some (.own, false)) else none

'''


def translate(repo: Path) -> tuple[str, str]:
    repo = Path(repo)
    texts = []
    trees = {}
    for rel in REL_SOURCES:
        p = repo / rel
        if not p.exists():
            raise Unsupported(f"{rel}: file not found")
        t = p.read_text()
        texts.append(t)
        trees[rel] = ast.parse(t)
    sha = hashlib.sha256("\n".join(texts).encode()).hexdigest()

    _current[0] = MOD_SOURCE
    mod = find_class(trees[MOD_SOURCE], "EvolvableModule")
    fn_prop = find_def(mod, "init_dict", prop=True)
    fn_get = find_def(mod, "get_init_dict")
    fn_clone = find_def(mod, "clone")
    for n, f in (("init_dict", fn_prop), ("get_init_dict", fn_get), ("clone", fn_clone)):
        if f is None:
            raise Unsupported(f"{MOD_SOURCE}: EvolvableModule.{n} not found")
    init_prop = translate_value_method(fn_prop)
    get_init = translate_value_method(fn_get)
    if ".getInitDict" in get_init or ".initDictProp" in get_init:
        fail(fn_get, "get_init_dict defined through itself")
    clone_steps = translate_clone(fn_clone, {})
    md = find_class(trees[MOD_SOURCE], "ModuleDict")
    md_clone = find_def(md, "clone")
    md_steps = translate_clone(md_clone, {}) if md_clone is not None else None
    for n in ("get_init_dict",):
        if find_def(md, n) is not None:
            fail(find_def(md, n), f"ModuleDict overrides {n}")

    _current[0] = NET_SOURCE
    net = find_class(trees[NET_SOURCE], "EvolvableNetwork")
    net_clone = find_def(net, "clone")
    net_steps = translate_clone(net_clone, {}) if net_clone is not None else None
    if find_def(net, "get_init_dict") is not None:
        fail(find_def(net, "get_init_dict"), "EvolvableNetwork overrides get_init_dict")
    for n in net.body:
        if isinstance(n, ast.FunctionDef) and n.name == "init_dict":
            fail(n, "EvolvableNetwork overrides init_dict")

    _current[0] = DIST_SOURCE
    dist = find_class(trees[DIST_SOURCE], "EvolvableDistribution")
    dist_clone = find_def(dist, "clone")
    if dist_clone is None:
        raise Unsupported(f"{DIST_SOURCE}: EvolvableDistribution.clone not found")
    dist_steps = translate_clone(dist_clone, {"EvolvableDistribution": dist})

    out = PRELUDE.rstrip("\n").split("\n") + [""]
    out += [
        f"/-! ## `EvolvableModule.get_init_dict` / `init_dict` ({MOD_SOURCE}) -/", "",
        f"def getInitDict : Val := {get_init}", "",
        f"def initDictProp : Val := {init_prop}", "",
        "/-- sharing profile of `self.get_init_dict()`; inside its body a reference to the init dict means the parent's -/",
        "def initShare (d : Nat) : Share := getInitDict.shareAt (fun _ => .parent) d", "",
        f"/-! ## `EvolvableModule.clone` ({MOD_SOURCE}) -/", "",
    ]
    out += step_list("cloneSteps", clone_steps)
    out += ["def partRule (p : Part) : Option (Share × Bool) := run initShare p cloneSteps", "",
            f"/-! ## overrides: `EvolvableNetwork.clone` ({NET_SOURCE}), `ModuleDict.clone` ({MOD_SOURCE}); `none` = inherited -/"]
    out += opt_step_list("networkCloneSteps", net_steps)
    out += opt_step_list("moduleDictCloneSteps", md_steps)
    out += ["", f"/-! ## `EvolvableDistribution.clone` ({DIST_SOURCE}) -/", ""]
    out += step_list("distCloneSteps", dist_steps)
    out += ["def distPartRule (p : Part) : Option (Share × Bool) := run initShare p distCloneSteps", ""]
    header = "\n".join([
        "/-",
        "  Gen/ModCloneGen.lean — GENERATED by harness/py2lean_modclone.py from `EvolvableModule.{init_dict, get_init_dict,",
        "  clone}`, `EvolvableNetwork` / `ModuleDict` overrides and `EvolvableDistribution.clone` of",
        "  " + REL_SOURCE + "; do not edit.  Core Lean only.",
        "  `Proofs/ModCloneGenEq.lean` proves the per-part rules equal to `Heap.moduleCloneRule` / `Heap.distCloneRule`.",
        "  Assumed:",
    ] + [f"    * {a}" for a in ASSUMED] + ["-/", SHA_PREFIX + sha, ""])
    return header + "\n".join(out).rstrip() + "\n\nend ModCloneGen\n", sha


def strip_sha(text: str) -> str:
    return "\n".join(ln for ln in text.split("\n") if not ln.startswith(SHA_PREFIX))


def write_if_changed(text: str, out: Path, force: bool = False) -> bool:
    out = Path(out)
    old = out.read_text() if out.exists() else None
    if old is not None and not force and strip_sha(old) == strip_sha(text):
        return False
    if old == text:
        return False
    out.parent.mkdir(parents=True, exist_ok=True)
    tmp = out.with_suffix(".lean.tmp")
    tmp.write_text(text)
    os.replace(tmp, out)
    return True


def main(argv: list[str]) -> int:
    import argparse
    ap = argparse.ArgumentParser()
    ap.add_argument("--repo", default=None)
    ap.add_argument("--out", default=str(DEFAULT_OUT))
    ap.add_argument("--stdout", action="store_true")
    ap.add_argument("--force", action="store_true")
    a = ap.parse_args(argv)
    try:
        text, sha = translate(repo_dir(a.repo))
    except Unsupported as e:
        print(f"py2lean_modclone: {e}", file=sys.stderr)
        return 1
    if a.stdout:
        sys.stdout.write(text)
        return 0
    changed = write_if_changed(text, Path(a.out), a.force)
    print(f"{a.out}: {'written' if changed else 'unchanged'} (source sha256 {sha[:16]}…)")
    return 0


if __name__ == "__main__":
    sys.exit(main(sys.argv[1:]))
