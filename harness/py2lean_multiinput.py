#!/usr/bin/env python3
"""
py2lean_multiinput.py — translate the latent-node mutations and the WIDTH ARITHMETIC of `EvolvableMultiInput`
(agilerl/modules/multi_input.py, the module behind Dict / Tuple observation spaces) into Lean 4.

    python3 harness/py2lean_multiinput.py [--repo DIR] [--out FILE] [--stdout] [--force]

Reads the *source text* only (Python `ast`; agilerl is never imported) of
    agilerl/modules/multi_input.py          get_total_flatdim, is_adhoc_vector_space,
                                            EvolvableMultiInput.{add_latent_node, remove_latent_node,
                                            calc_extracted_features_dim, build_feature_extractor, __init__,
                                            recreate_network}
    agilerl/utils/evolvable_networks.py     is_box_space_ndim, is_image_space, is_vector_space
and writes lean/Gen/MultiInputGen.lean (namespace MultiInputGen, core Lean only, imports nothing).

Part 1 — `@mutation` methods `add_latent_node` / `remove_latent_node`: translated by the machinery of
py2lean_arch.py (imported as a library; same subset, same output shape: `EvolvableMultiInput.State` with the
int fields read or written, `Option Int` argument, draw `d0` guarded by the literal choice list, HARD LIMIT
comparison with the operator of the source, returned dict, name of the method).

Part 2 — width arithmetic.  A sub-space is `Space = {cls : String, ndim : Int, flatdim : Int}` (`type(space)`,
`len(space.shape)`, `spaces.flatdim(space)`), a `spaces.Dict` is `Spaces = List (String × Space)` in key order, a
`ModuleDict` is `Net = List (String × String)` (key ↦ class of the module built, insertion order), an
`nn.Linear(i, o)` is the pair `(i, o)`.  Output:
  * one `def f (args) : Bool := decide (…)` / `: Int := …` per module-level function whose body is `return e`;
  * `calc_extracted_features_dim`, `build_feature_extractor`: one def each, the `self.<field>` they read are
    explicit parameters (in order of first read); the `for key, space in X.spaces.items()` loop is an auxiliary
    recursive definition `build_feature_extractor.loop0` over the list with the loop-carried dict as accumulator
    (`continue` = next element; the `if / elif / else` chain in source order with its conditions; which constructor
    is called in which branch flows from the AST: `EvolvableCNN(…)` ↦ "EvolvableCNN", `nn.Flatten()` ↦ "Flatten");
  * `init (observation_space …) : Built` — the dataflow of `__init__` in statement order over the fields of
    `Built` (vector_spaces, total_vector_dims, feature_net, extracted_features_dim, final_dense, …);
    `recreate_network (s : Built) : Built` — likewise (`{ s with … }` for the fields it assigns).
Expressions: int literals, names, `self.f`, `+ - *` on ints (a bool operand is 0 / 1 as in Python),
comparisons (one operator), `x in [ints]`, `k in / not in D.keys()`, `and / or / not`, `isinstance(s, spaces.C)`,
`len(s.shape)`, `spaces.flatdim(s)`, `sum([e for v in it if c])` / generator (it = `D.spaces.values()`,
`D.spaces.items()`, `D.keys()`), `spaces.Dict({k: v for k, v in D.spaces.items() if c})`, calls of the translated
functions / methods, `nn.Linear(i, o, …)`, `copy.deepcopy(e)`, `ModuleDict(…)`.
Statements: `x = e`, `self.f = e`, `D[k] = module`, `if / elif / else`, the `for` loop above, `continue`, `return e`.
An assignment whose value is outside the subset makes its target OPAQUE (not translated); reading an opaque name in
a translated expression raises `Unsupported` with the line.  Asserts, expression statements (calls) and loops that
carry no translated value are skipped.

Assumptions (NOT translated):
  * keys of a Dict space are distinct and the vector MLP's name differs from them (`D[k] = v` appends);
    a Tuple space is its `tuple_to_dict_space` image (`isinstance(observation_space, spaces.Tuple)` is static False);
  * `self.mlp_name` is an explicit parameter `mlp_name` (its value after `build_feature_extractor`);
  * `EvolvableModule.preserve_parameters(old_net, new_net)` returns a module of the architecture of `new_net`;
  * every extractor is built with `num_outputs = latent_dim` (`get_inner_init_dict`; checked on the real objects
    by suite multi-width of harness/c03.py, as is the width `forward` concatenates);
  * the `@mutation` decorator / `recreate_network` being called after a mutation (hand model + correspondence).
"""
from __future__ import annotations

import ast
import hashlib
import os
import sys
from pathlib import Path

HERE = Path(__file__).resolve().parent
sys.path.insert(0, str(HERE))
import py2lean_arch as A  # noqa: E402

Unsupported = A.Unsupported
DEFAULT_OUT = HERE.parent / "lean" / "Gen" / "MultiInputGen.lean"
REL_SOURCE = "agilerl/modules/multi_input.py"
REL_UTIL = "agilerl/utils/evolvable_networks.py"
REL_SOURCES = (REL_SOURCE, REL_UTIL)
SHA_PREFIX = "-- sha256(source) = "
CLASS = "EvolvableMultiInput"
LATENT = ("add_latent_node", "remove_latent_node")

INT, BOOL, STR, SPACE, SPACES, NET, MODULE, LINEAR = "Int", "Bool", "String", "Space", "Spaces", "Net", "Module", "Int × Int"
FIELD_TY = {"observation_space": SPACES, "num_outputs": INT, "latent_dim": INT, "vector_space_mlp": BOOL,
            "recurrent": BOOL, "min_latent_dim": INT, "max_latent_dim": INT, "mlp_name": STR,
            "vector_spaces": SPACES, "total_vector_dims": INT, "feature_net": NET,
            "extracted_features_dim": INT, "final_dense": LINEAR}
BUILT_FIELDS = ("observation_space", "num_outputs", "latent_dim", "vector_space_mlp", "recurrent", "mlp_name",
                "vector_spaces", "total_vector_dims", "feature_net", "extracted_features_dim", "final_dense")
UTIL_FUNCS = ("is_box_space_ndim", "is_image_space", "is_vector_space")
MOD_FUNCS = ("get_total_flatdim", "is_adhoc_vector_space")
CMP = {ast.Eq: "=", ast.NotEq: "≠", ast.Lt: "<", ast.LtE: "≤", ast.Gt: ">", ast.GtE: "≥"}
ARITH = {ast.Add: "+", ast.Sub: "-", ast.Mult: "*"}
MODULE_CLASSES = ("EvolvableCNN", "EvolvableLSTM", "EvolvableMLP")


def fail(node, what: str):
    raise Unsupported(f"{_file[0]}:{getattr(node, 'lineno', '?')}: {what}")


_file = [REL_SOURCE]


class Opaque:
    def __init__(self, why):
        self.why = why


def is_self(n, attr=None):
    return isinstance(n, ast.Attribute) and isinstance(n.value, ast.Name) and n.value.id == "self" and \
        (attr is None or n.attr == attr)


def dotted(n):
    if isinstance(n, ast.Name):
        return n.id
    if isinstance(n, ast.Attribute):
        b = dotted(n.value)
        return None if b is None else b + "." + n.attr
    return None


class Width:
    def __init__(self, mod: ast.Module, util: ast.Module):
        self.mod, self.util = mod, util
        self.funcs: dict[str, tuple[list, str]] = {}       # name -> ([param types], result type)
        self.methods: dict[str, tuple[list, str]] = {}     # name -> ([self fields read], result type)
        self.out: list[str] = []
        cls = [s for s in mod.body if isinstance(s, ast.ClassDef) and s.name == CLASS]
        if len(cls) != 1:
            fail(mod, f"{len(cls)} definitions of class {CLASS}")
        self.cls = cls[0]

    # ---------------------------------------------------------------- expressions
    def lookup(self, env, name, node):
        if name not in env:
            fail(node, f"`{name}` is read but not bound by a translated statement")
        v = env[name]
        if isinstance(v, Opaque):
            fail(node, f"`{name}` is read in translated arithmetic but its value is outside the subset ({v.why})")
        return v

    def as_int(self, r, node):
        t, ty = r
        if ty == INT:
            return t
        if ty == BOOL:
            return f"(if {t} then (1 : Int) else 0)"
        fail(node, f"operand of type {ty} in integer arithmetic")

    def as_prop(self, r, node):
        t, ty = r
        if ty != BOOL:
            fail(node, f"truth value of a {ty}")
        return t

    def iter_of(self, n, env):
        """`D.spaces.items()` / `D.spaces.values()` / `D.keys()` -> (list text, element type, kind)"""
        if not (isinstance(n, ast.Call) and not n.args and not n.keywords and isinstance(n.func, ast.Attribute)):
            fail(n, "iteration source is not `D.spaces.items()` / `D.spaces.values()` / `D.keys()`")
        kind, base = n.func.attr, n.func.value
        if kind in ("items", "values") and isinstance(base, ast.Attribute) and base.attr == "spaces":
            t, ty = self.ex(base.value, env)
            if ty != SPACES:
                fail(n, f"`.spaces` of a {ty}")
            return t, SPACES, kind
        if kind == "keys":
            t, ty = self.ex(base, env)
            if ty not in (SPACES, NET):
                fail(n, f"`.keys()` of a {ty}")
            return t, ty, kind
        fail(n, "iteration source is not `D.spaces.items()` / `D.spaces.values()` / `D.keys()`")

    def bind_target(self, target, coll_ty, kind, env, node):
        e = dict(env)
        second = (f"kv.2", SPACE if coll_ty == SPACES else MODULE)
        if kind == "items":
            if not (isinstance(target, ast.Tuple) and len(target.elts) == 2 and
                    all(isinstance(x, ast.Name) for x in target.elts)):
                fail(node, "target of an `.items()` iteration is not `k, v`")
            e[target.elts[0].id] = ("kv.1", STR)
            e[target.elts[1].id] = second
        else:
            if not isinstance(target, ast.Name):
                fail(node, "iteration target is not a name")
            e[target.id] = ("kv.1", STR) if kind == "keys" else second
        return e

    def comprehension(self, n, env):
        """[elt for v in it if c…] -> (text of the list, elt type)"""
        if len(n.generators) != 1 or n.generators[0].is_async:
            fail(n, "comprehension with several generators")
        g = n.generators[0]
        coll, cty, kind = self.iter_of(g.iter, env)
        e = self.bind_target(g.target, cty, kind, env, n)
        txt = coll
        if g.ifs:
            conds = " ∧ ".join(self.as_prop(self.ex(c, e), c) for c in g.ifs)
            txt = f"({coll}.filter (fun kv => decide ({conds})))"
        return txt, e, cty

    def ex(self, n, env):
        if isinstance(n, ast.Constant):
            if isinstance(n.value, bool):
                return ("True" if n.value else "False"), BOOL
            if isinstance(n.value, int):
                return f"({n.value} : Int)", INT
            fail(n, f"constant {n.value!r}")
        if isinstance(n, ast.Name):
            t, ty = self.lookup(env, n.id, n)
            return (f"({t} = true)" if ty == BOOL else t), ty
        if is_self(n):
            t, ty = self.lookup(env, "self." + n.attr, n)
            return (f"({t} = true)" if ty == BOOL else t), ty
        if isinstance(n, ast.BoolOp):
            op = " ∧ " if isinstance(n.op, ast.And) else " ∨ "
            return "(" + op.join(self.as_prop(self.ex(v, env), v) for v in n.values) + ")", BOOL
        if isinstance(n, ast.UnaryOp) and isinstance(n.op, ast.Not):
            return f"(¬ {self.as_prop(self.ex(n.operand, env), n)})", BOOL
        if isinstance(n, ast.BinOp) and type(n.op) in ARITH:
            a = self.as_int(self.ex(n.left, env), n.left)
            b = self.as_int(self.ex(n.right, env), n.right)
            return f"({a} {ARITH[type(n.op)]} {b})", INT
        if isinstance(n, ast.Compare):
            if len(n.ops) != 1:
                fail(n, "chained comparison")
            op, rhs = n.ops[0], n.comparators[0]
            if isinstance(op, (ast.In, ast.NotIn)):
                neg = isinstance(op, ast.NotIn)
                if isinstance(rhs, ast.List):
                    a = self.as_int(self.ex(n.left, env), n.left)
                    items = [self.as_int(self.ex(x, env), x) for x in rhs.elts]
                    t = f"({a} ∈ [{', '.join(items)}])"
                else:
                    coll, cty, kind = self.iter_of(rhs, env)
                    if kind != "keys":
                        fail(n, "membership in something other than `D.keys()`")
                    a, aty = self.ex(n.left, env)
                    if aty != STR:
                        fail(n, f"membership of a {aty} in the keys of a dict")
                    t = f"({a} ∈ {coll}.map Prod.fst)"
                return (f"(¬ {t})" if neg else t), BOOL
            if type(op) not in CMP:
                fail(n, f"comparison {type(op).__name__}")
            a = self.as_int(self.ex(n.left, env), n.left)
            b = self.as_int(self.ex(rhs, env), rhs)
            return f"({a} {CMP[type(op)]} {b})", BOOL
        if isinstance(n, ast.Call):
            return self.call(n, env)
        fail(n, f"expression {type(n).__name__}")

    def call(self, n, env):
        name = dotted(n.func)
        if name == "isinstance" and len(n.args) == 2 and not n.keywords:
            c = dotted(n.args[1])
            if c is None or not c.startswith("spaces."):
                fail(n, "isinstance against something other than `spaces.<Class>`")
            c = c[len("spaces."):]
            t, ty = self.ex(n.args[0], env)
            if ty == SPACE:
                return f'({t}.cls = "{c}")', BOOL
            if ty == SPACES and c in ("Tuple", "Dict"):
                return ("False" if c == "Tuple" else "True"), BOOL
            fail(n, f"isinstance of a {ty}")
        if name == "len" and len(n.args) == 1 and isinstance(n.args[0], ast.Attribute) and n.args[0].attr == "shape":
            t, ty = self.ex(n.args[0].value, env)
            if ty != SPACE:
                fail(n, f"`.shape` of a {ty}")
            return f"{t}.ndim", INT
        if name == "spaces.flatdim" and len(n.args) == 1:
            t, ty = self.ex(n.args[0], env)
            if ty != SPACE:
                fail(n, f"flatdim of a {ty}")
            return f"{t}.flatdim", INT
        if name == "sum" and len(n.args) == 1 and isinstance(n.args[0], (ast.ListComp, ast.GeneratorExp)):
            c = n.args[0]
            lst, e, _ = self.comprehension(c, env)
            elt = self.as_int(self.ex(c.elt, e), c.elt)
            return f"(({lst}.map (fun kv => {elt})).sum)", INT
        if name == "spaces.Dict" and len(n.args) == 1 and isinstance(n.args[0], ast.DictComp):
            c = n.args[0]
            lst, e, cty = self.comprehension(c, env)
            k, v = self.ex(c.key, e), self.ex(c.value, e)
            if cty != SPACES or k != ("kv.1", STR) or v != ("kv.2", SPACE):
                fail(n, "dict comprehension that does not keep `key: space` of the source dict")
            return lst, SPACES
        if name == "copy.deepcopy" and len(n.args) == 1:
            return self.ex(n.args[0], env)
        if name == "nn.Linear" and len(n.args) >= 2:
            a = self.as_int(self.ex(n.args[0], env), n)
            b = self.as_int(self.ex(n.args[1], env), n)
            return f"(({a}, {b}) : Int × Int)", LINEAR
        if name == "EvolvableModule.preserve_parameters":
            kw = {k.arg: k.value for k in n.keywords}
            if n.args or set(kw) != {"old_net", "new_net"}:
                fail(n, "preserve_parameters without exactly old_net= / new_net=")
            self.ex(kw["old_net"], env)
            return self.ex(kw["new_net"], env)
        if name == "ModuleDict":
            return "([] : Net)", NET
        if name in MODULE_CLASSES:
            return f'"{name}"', MODULE
        if name is not None and name.startswith("nn.") and not n.args and not n.keywords:
            return f'"{name[3:]}"', MODULE
        if name in self.funcs:
            ptys, rty = self.funcs[name]
            if len(n.args) != len(ptys) or n.keywords:
                fail(n, f"call of {name} with other than {len(ptys)} positional arguments")
            args = []
            for a, pty in zip(n.args, ptys):
                t, ty = self.ex(a, env)
                if ty != pty:
                    fail(a, f"argument of type {ty} for a parameter of type {pty}")
                args.append(f"(decide {t})" if ty == BOOL else t)
            t = f"{name} " + " ".join(args)
            return (f"({t} = true)" if rty == BOOL else f"({t})"), rty
        if name is not None and name.startswith("self.") and name[5:] in self.methods and not n.args and not n.keywords:
            fields, rty = self.methods[name[5:]]
            args = []
            for f in fields:
                t, ty = self.lookup(env, "self." + f, n)
                args.append(t)
            return "(" + " ".join([name[5:]] + args) + ")", rty
        fail(n, f"call of {name or type(n.func).__name__}")

    # ---------------------------------------------------------------- module-level functions
    def ann(self, a, node):
        d = dotted(a) if a is not None else None
        ty = {"spaces.Space": SPACE, "spaces.Dict": SPACES, "int": INT, "bool": BOOL}.get(d)
        if ty is None:
            fail(node, f"annotation {d!r}")
        return ty

    def function(self, tree, name):
        fns = [s for s in tree.body if isinstance(s, ast.FunctionDef) and s.name == name]
        if len(fns) != 1:
            fail(tree, f"{len(fns)} definitions of {name}")
        fn = fns[0]
        body = [s for s in fn.body if not A.is_docstring(s)]
        if len(body) != 1 or not isinstance(body[0], ast.Return) or body[0].value is None:
            fail(fn, f"{name}: body is not a single `return e`")
        if fn.args.vararg or fn.args.kwarg or fn.args.kwonlyargs or fn.decorator_list:
            fail(fn, f"{name}: signature / decorator")
        env, params = {}, []
        for a in fn.args.args:
            ty = self.ann(a.annotation, a)
            env[a.arg] = (a.arg, ty)
            params.append((a.arg, ty))
        t, ty = self.ex(body[0].value, env)
        self.funcs[name] = ([p[1] for p in params], ty)
        sig = "".join(f" ({p} : {ty_})" for p, ty_ in params)
        self.out += [f"/-- `{name}` ({_file[0]}) -/",
                     f"def {name}{sig} : {ty} :=", f"  {'decide ' + t if ty == BOOL else t}", ""]

    # ---------------------------------------------------------------- statements
    def method(self, name):
        fns = [s for s in self.cls.body if isinstance(s, ast.FunctionDef) and s.name == name]
        if len(fns) != 1:
            fail(self.cls, f"{len(fns)} definitions of {CLASS}.{name}")
        return fns[0]

    def self_reads(self, fn):
        seen = []
        for n in ast.walk(fn):
            if is_self(n) and n.attr in FIELD_TY and isinstance(n.ctx, ast.Load) and n.attr not in seen:
                seen.append((n.lineno, n.col_offset, n.attr))
        out = []
        for _, _, f in sorted(seen):
            if f not in out:
                out.append(f)
        return out

    @staticmethod
    def assigned(stmts):
        names = []
        for st in stmts:
            for n in ast.walk(st):
                if isinstance(n, (ast.Name, ast.Attribute)) and isinstance(getattr(n, "ctx", None), ast.Store):
                    d = dotted(n)
                    if d:
                        names.append(d)
                if isinstance(n, ast.Subscript) and isinstance(n.ctx, ast.Store):
                    d = dotted(n.value)
                    if d:
                        names.append(d)
        return names

    def block(self, stmts, env, k, ctx):
        """CPS: lines for `stmts` followed by the continuation `k(env)`"""
        if not stmts:
            return k(env)
        st, rest = stmts[0], stmts[1:]
        nxt = lambda e: self.block(rest, e, k, ctx)   # noqa: E731
        if A.is_docstring(st) or isinstance(st, (ast.Assert, ast.Pass)) or \
                (isinstance(st, ast.Expr) and isinstance(st.value, ast.Call)):
            return nxt(env)
        if isinstance(st, ast.Return):
            if ctx.get("loop") or st.value is None:
                fail(st, "return inside a loop / without a value")
            t, ty = self.ex(st.value, env)
            if ty != ctx["ret"]:
                fail(st, f"returns a {ty}, expected {ctx['ret']}")
            return [t]
        if isinstance(st, ast.Continue):
            if not ctx.get("loop"):
                fail(st, "continue outside the translated loop")
            return ctx["continue"](env)
        if isinstance(st, ast.Assign) and len(st.targets) == 1:
            tg = st.targets[0]
            if isinstance(tg, ast.Subscript):
                d = dotted(tg.value)
                cur = env.get(d)
                if cur is None or isinstance(cur, Opaque) or cur[1] != NET:
                    return nxt(env)
                kt, kty = self.ex(tg.slice, env)
                vt, vty = self.ex(st.value, env)
                if kty != STR or vty != MODULE:
                    fail(st, f"`{d}[{kty}] = {vty}` on a module dict")
                var = d.replace("self.", "self_")
                e = dict(env)
                e[d] = (var, NET)
                return [f"let {var} : Net := {cur[0]} ++ [({kt}, {vt})]"] + nxt(e)
            d = dotted(tg)
            if d is None:
                e = dict(env)
                for nm in self.assigned([st]):
                    e[nm] = Opaque(f"assigned at line {st.lineno}")
                return nxt(e)
            if d == "self.mlp_name":
                return nxt(env)                       # explicit parameter (docstring)
            try:
                t, ty = self.ex(st.value, env)
            except Unsupported as ex:
                e = dict(env)
                e[d] = Opaque(str(ex))
                return nxt(e)
            if d.startswith("self.") and d[5:] in FIELD_TY and FIELD_TY[d[5:]] != ty:
                fail(st, f"`{d}` assigned a {ty}, expected {FIELD_TY[d[5:]]}")
            var = d.replace("self.", "self_").replace(".", "_")
            e = dict(env)
            e[d] = (var, ty)
            if ty == BOOL:
                t = f"decide {t}"
            return [f"let {var} : {ty} := {t}"] + nxt(e)
        if isinstance(st, ast.If):
            try:
                c = self.as_prop(self.ex(st.test, env), st.test)
            except Unsupported as ex:
                for x in ast.walk(st):
                    if isinstance(x, (ast.Return, ast.Continue, ast.Break)):
                        fail(st, f"branch on an untranslated condition leaves the block ({ex})")
                e = dict(env)
                for nm in self.assigned(st.body + st.orelse):
                    e[nm] = Opaque(f"assigned under the untranslated condition at line {st.lineno}")
                return nxt(e)
            if c == "False":
                return self.block(st.orelse, env, nxt, ctx)
            if c == "True":
                return self.block(st.body, env, nxt, ctx)
            return [f"if {c} then"] + A.ind(self.block(st.body, env, nxt, ctx)) + ["else"] + \
                A.ind(self.block(st.orelse, env, nxt, ctx))
        if isinstance(st, ast.For):
            return self.loop(st, env, nxt, ctx)
        if isinstance(st, (ast.AugAssign, ast.AnnAssign, ast.With, ast.Try, ast.While, ast.Delete)) or \
                isinstance(st, ast.Assign):
            e = dict(env)
            for nm in self.assigned([st]):
                if nm in e and not isinstance(e[nm], Opaque):
                    fail(st, f"{type(st).__name__} on the translated value `{nm}`")
                e[nm] = Opaque(f"{type(st).__name__} at line {st.lineno}")
            return nxt(e)
        if isinstance(st, ast.Raise):
            fail(st, "raise on a translated path")
        fail(st, f"statement {type(st).__name__}")

    def loop(self, st, env, nxt, ctx):
        carried = [nm for nm in dict.fromkeys(self.assigned(st.body))
                   if nm in env and not isinstance(env[nm], Opaque)]
        if not carried:
            e = dict(env)
            for nm in self.assigned([st]):
                e[nm] = Opaque(f"assigned in the untranslated loop at line {st.lineno}")
            return nxt(e)
        if ctx.get("loop") or st.orelse or len(carried) != 1 or env[carried[0]][1] != NET or "params" not in ctx:
            fail(st, f"loop carrying {carried} (only one module dict, in a method, not nested)")
        for x in ast.walk(st):
            if isinstance(x, (ast.Return, ast.Break)):
                fail(x, "return / break inside the translated loop")
        acc = carried[0]
        coll, cty, kind = self.iter_of(st.iter, env)
        if cty != SPACES or kind != "items":
            fail(st, "translated loop not over `D.spaces.items()`")
        k = ctx["nloops"][0]
        ctx["nloops"][0] += 1
        lname = f"{ctx['name']}.loop{k}"
        inner = {p: env[p] for p in ctx["params"]}          # the method's parameters only
        inner = self.bind_target(st.target, cty, kind, inner, st)
        accv = acc.replace("self.", "self_")
        inner[acc] = (accv, NET)
        pargs = " ".join(env[p][0] for p in ctx["params"])
        lctx = dict(ctx, loop=True)
        lctx["continue"] = lambda e: [f"{lname} {pargs} rest {e[acc][0]}"]
        body = self.block(st.body, inner, lctx["continue"], lctx)
        sig = "".join(f" ({env[p][0]} : {env[p][1]})" for p in ctx["params"])
        ctx["aux"] += [f"/-- the `for` loop at line {st.lineno - ctx['line0']} of `{ctx['name']}`; `{accv}` = the dict built so far -/",
                       f"def {lname}{sig} : Spaces → Net → Net",
                       f"  | [], {accv} => {accv}",
                       f"  | kv :: rest, {accv} =>"] + A.ind(body, 4) + [""]
        e = dict(env)
        e[acc] = (accv, NET)
        return [f"let {accv} : Net := {lname} {pargs} {coll} {env[acc][0]}"] + nxt(e)

    def self_method(self, name, ret):
        fn = self.method(name)
        if fn.decorator_list or len(fn.args.args) != 1:
            fail(fn, f"{CLASS}.{name}: decorator / arguments")
        fields = self.self_reads(fn)
        env = {"self." + f: (f, FIELD_TY[f]) for f in fields}
        ctx = {"ret": ret, "name": name, "params": ["self." + f for f in fields], "nloops": [0], "aux": [],
               "line0": fn.lineno}
        body = self.block(fn.body, env, lambda e: fail(fn, f"{name}: falls off the end"), ctx)
        self.methods[name] = (fields, ret)
        sig = "".join(f" ({f} : {FIELD_TY[f]})" for f in fields)
        self.out += ctx["aux"] + [f"/-- `{CLASS}.{name}`; the fields it reads are parameters -/",
                                  f"def {name}{sig} : {ret} :="] + A.ind(body) + [""]

    def init(self):
        fn = self.method("__init__")
        env, params = {}, []
        for a in fn.args.args[1:]:
            if a.arg in FIELD_TY and a.arg != "mlp_name":
                d = dotted(a.annotation)
                want = {INT: "int", BOOL: "bool", SPACES: "TupleOrDictSpace"}[FIELD_TY[a.arg]]
                if d != want:
                    fail(a, f"parameter {a.arg} annotated {d!r}, expected {want}")
                env[a.arg] = (a.arg, FIELD_TY[a.arg])
                params.append((a.arg, FIELD_TY[a.arg]))
            else:
                env[a.arg] = Opaque("constructor argument outside the arithmetic")
        env["self.mlp_name"] = ("mlp_name", STR)
        params.append(("mlp_name", STR))

        def end(e):
            fs = []
            for f in BUILT_FIELDS:
                t, ty = self.lookup(e, "self." + f, fn)
                fs.append(f"{f} := {t}")
            return ["{ " + ", ".join(fs) + " }"]
        ctx = {"ret": None, "name": "init", "nloops": [0], "aux": [], "line0": fn.lineno}
        body = self.block(fn.body, env, end, ctx)
        sig = "".join(f" ({p} : {ty})" for p, ty in params)
        self.out += [f"/-- `{CLASS}.__init__`: the fields of the width arithmetic, in statement order -/",
                     f"def init{sig} : Built :="] + A.ind(body) + [""]

    def recreate(self):
        fn = self.method("recreate_network")
        if len(fn.args.args) != 1:
            fail(fn, "recreate_network takes arguments")
        env = {"self." + f: (f"s.{f}", FIELD_TY[f]) for f in BUILT_FIELDS}
        start = dict(env)

        def end(e):
            ch = [f"{f} := {e['self.' + f][0]}" for f in BUILT_FIELDS
                  if not isinstance(e["self." + f], Opaque) and e["self." + f] != start["self." + f]]
            for f in BUILT_FIELDS:
                if isinstance(e["self." + f], Opaque):
                    fail(fn, f"recreate_network leaves `self.{f}` outside the subset ({e['self.' + f].why})")
            return ["{ s with " + ", ".join(ch) + " }" if ch else "s"]
        ctx = {"ret": None, "name": "recreate_network", "nloops": [0], "aux": [], "line0": fn.lineno}
        body = self.block(fn.body, env, end, ctx)
        self.out += [f"/-- `{CLASS}.recreate_network` (what the `@mutation` wrapper calls after a latent mutation) -/",
                     "def recreate_network (s : Built) : Built :="] + A.ind(body) + [""]

    def run(self) -> list[str]:
        _file[0] = REL_UTIL
        for f in UTIL_FUNCS:
            self.function(self.util, f)
        _file[0] = REL_SOURCE
        for f in MOD_FUNCS:
            self.function(self.mod, f)
        self.self_method("calc_extracted_features_dim", INT)
        self.self_method("build_feature_extractor", NET)
        self.out += ["/-- the fields of `EvolvableMultiInput` that enter the width of `final_dense` -/",
                     "structure Built where"] + [f"  {f} : {FIELD_TY[f]}" for f in BUILT_FIELDS] + \
                    ["deriving DecidableEq, Repr", ""]
        self.init()
        self.recreate()
        return self.out


class Latent(A.Translator):
    """the `@mutation` latent methods through the translator of py2lean_arch.py"""

    def __init__(self, mod: ast.Module):
        self.classes, self.order = {}, []
        A._current_file[0] = REL_SOURCE
        found = [st for st in mod.body if isinstance(st, ast.ClassDef) and st.name == CLASS]
        if len(found) != 1:
            raise Unsupported(f"{REL_SOURCE}: {len(found)} definitions of class {CLASS} (expected one)")
        ci = A.ClassInfo(REL_SOURCE, found[0], LATENT, "mutation", {})
        self.classes[CLASS] = ci
        self.order.append(ci)

    def text(self) -> list[str]:
        lines = self.run().split("\n")
        lines = lines[len(A.PRELUDE):]
        while lines and (not lines[-1].strip() or lines[-1].startswith("end ArchGen")):
            lines.pop()
        return lines


PRELUDE = [
    "namespace MultiInputGen",
    "",
    "/-- the dict a mutation method returns, keys in source order -/",
    "abbrev Ret := List (String × Int)",
    "",
    "/-- a sub-space: `type(space).__name__`, `len(space.shape)`, `spaces.flatdim(space)` -/",
    "structure Space where",
    "  cls : String",
    "  ndim : Int",
    "  flatdim : Int",
    "deriving DecidableEq, Repr",
    "",
    "/-- a `spaces.Dict` in key order -/",
    "abbrev Spaces := List (String × Space)",
    "/-- the class of a module (`EvolvableCNN`, `Flatten`, …) -/",
    "abbrev Module := String",
    "/-- a `ModuleDict` in insertion order -/",
    "abbrev Net := List (String × Module)",
    "",
]


def repo_dir(arg: str | None = None) -> Path:
    if arg:
        return Path(arg)
    return Path(os.environ.get("VERIF_REPO", "/repo"))


def translate(repo: Path) -> tuple[str, str]:
    h = hashlib.sha256()
    trees = {}
    for rel in REL_SOURCES:
        path = Path(repo) / rel
        try:
            raw = path.read_bytes()
        except OSError as e:
            raise Unsupported(f"cannot read {path}: {e}") from e
        h.update(rel.encode() + b"\0" + raw + b"\0")
        try:
            trees[rel] = ast.parse(raw.decode("utf-8"))
        except (SyntaxError, UnicodeDecodeError) as e:
            raise Unsupported(f"{rel}: not parseable: {e}") from e
    sha = h.hexdigest()
    try:
        lat = Latent(trees[REL_SOURCE]).text()
        wid = Width(trees[REL_SOURCE], trees[REL_UTIL]).run()
    except RecursionError as e:
        raise Unsupported(f"{REL_SOURCE}: nesting too deep") from e
    header = [
        "/-",
        "  Gen/MultiInputGen.lean — GENERATED by harness/py2lean_multiinput.py from the latent-node `@mutation` methods",
        "  and the width arithmetic (`__init__`, `build_feature_extractor`, `calc_extracted_features_dim`,",
        "  `recreate_network`) of EvolvableMultiInput (" + ", ".join(REL_SOURCES) + ");",
        "  do not edit.  Core Lean only.  `Proofs/MultiInputGenEq.lean` proves the definitions equal to `Model/Arch.lean`.",
        "-/",
        SHA_PREFIX + sha,
        "set_option linter.unusedVariables false",
        "",
    ]
    body = PRELUDE + ["/-! ## latent-node mutations -/", ""] + lat + ["", "/-! ## width arithmetic -/", ""] + wid
    return "\n".join(header + body).rstrip() + "\n\nend MultiInputGen\n", sha


def strip_sha(text: str) -> str:
    return "\n".join(ln for ln in text.split("\n") if not ln.startswith(SHA_PREFIX))


def write_if_changed(text: str, out: Path, force: bool = False) -> bool:
    out = Path(out)
    old = out.read_text() if out.exists() else None
    if old is not None and not force and strip_sha(old) == strip_sha(text):
        return False
    if old == text:
        return False
    out.parent.mkdir(parents=True, exist_ok=True)
    tmp = out.with_suffix(".lean.tmp")
    tmp.write_text(text)
    os.replace(tmp, out)
    return True


def main(argv: list[str]) -> int:
    import argparse
    ap = argparse.ArgumentParser()
    ap.add_argument("--repo", default=None)
    ap.add_argument("--out", default=str(DEFAULT_OUT))
    ap.add_argument("--stdout", action="store_true")
    ap.add_argument("--force", action="store_true")
    a = ap.parse_args(argv)
    try:
        text, sha = translate(repo_dir(a.repo))
    except Unsupported as e:
        print(f"py2lean_multiinput: {e}", file=sys.stderr)
        return 1
    if a.stdout:
        sys.stdout.write(text)
        return 0
    changed = write_if_changed(text, Path(a.out), a.force)
    print(f"{a.out}: {'written' if changed else 'unchanged'} (source sha256 {sha[:16]}…)")
    return 0


if __name__ == "__main__":
    sys.exit(main(sys.argv[1:]))
