#!/usr/bin/env python3
"""
py2lean_mutwire.py — translate the WIRING of `agilerl/hpo/mutation.py` (which registry object goes where, in which
order, under which condition) into Lean 4.

    python3 harness/py2lean_mutwire.py [--repo DIR] [--out FILE] [--stdout] [--force]

Reads the *source text* only (Python `ast`; agilerl / torch are never imported) and writes lean/Gen/MutWireGen.lean
(namespace `MutWireGen`, core Lean only).  `Proofs/MutWireGenEq.lean` interprets the generated effect lists with the
primitives of the hand model `Model/Coherence.lean` and proves them equal to `Coherence.mutate1` / `kindStep` /
`finish` for every registry; `Props/C02.lean` restates the C02 theorems over them (`C02_source_translation_*`).

What is translated (everything located by structure):
  * THE CLASS = the top-level class with a list of pairs `(self.<f>, self.<p>)` (the mutation options); KINDS = the `<f>`
    of that list, in order; MAIN = its method with a loop `for m, x in zip(…, population)` whose body calls `m(x)`;
    REINIT_OPT = its method that builds `OptimizerWrapper(…)`; REINIT_NET = its method with an `isinstance(·, list)` test and
    a `load_state_dict` call.
  * every entry is EXECUTED SYMBOLICALLY for one individual; methods of the class, functions of the module and nested
    `def`s (closures) they call are inlined; REINIT_OPT has its own definitions (`reinit_opt`, `reinit_opt_one oc`) which
    the other definitions CALL.  Output: one Lean definition per entry,
        reinit_from_mutated : NetE,  reinit_opt / reinit_opt_one / <kind> / mutation_individual : List Eff,
        mutation_population (the zip / append / return structure of MAIN), mutation_options (the KINDS).
    `List Eff` = the calls that may change a registry attribute of the individual, in source order:
      - `Eff.setNet dst v`: `setattr(individual, dst, v)` with the PROVENANCE of `v`: `Origin.attached` (the very objects of
        an attribute), `.clone` (`m.clone()`), `.new (type(m) | type(m._orig_mod) if compiled) m` (`cls(**m.init_dict)`),
        each relative to the module at the same position `j`, read now (`.cur`) or when the method was entered (`.start`),
        and the in-place operations `v` received before: `ModOp.load (stateDict | namedParameters) src strict stripPrefix`
        (`load_state_dict(src.state_dict() | dict(src.named_parameters()), strict=…)`), `ModOp.call meth kw` (the dynamic
        architecture call `getattr(net, meth)(**kw)`: `meth` = the sampled method / the `last_mutation_attr` of the
        policy's offspring at the same position or at position 0; `kw` = `{}` / what the policy's call returned),
        `whenNone / whenSome` (the `if <applied method> is None` branches), `setNone field`, `callNamed`, `writeWeights`
        (a store into a tensor of `m.state_dict()`);
      - `Eff.inPlace attr op`: the same operations on objects that ARE an attribute (every module of it);
      - `Eff.setOpt name {networks := .one a | .many as, lr := .attr n | .wrapperLr, …}`: `OptimizerWrapper(…)` re-created: which
        networks (`getattr(individual, names[0])` vs one `getattr` per name), the learning rate (`getattr(individual,
        opt.lr_name)` read when the wrapper is built vs the old wrapper's `lr`), which fields are carried over from the old
        wrapper / the registry configuration;
      - `Eff.kind`, `Eff.indCall "mutation_hook"`, `Eff.setVal` (the mutated hyper-parameter), `Eff.setMut label`,
        `Eff.setOther`, `Eff.optOpaque`, `Eff.setOpaque`, `Eff.raise`.
    Loops over `registry.groups`, `registry.optimizers`, `group.shared` and over the items of a dictionary filled in such a
    loop become `flatMap` over the registry-as-data (`filter` for a conditional store / a comprehension with `if`,
    `match ….head?` for `[0]`, `forBreak` for `break`, a flag set on the breaking path reads the loop's second component);
    conditions over registry fields (`g.shared is not None`, `g.policy`, `mutate_attr == cfg.lr`) become `if`s inside;
    run-time predicates the source tests become named parameters (ATOMS: `multi`, `individual_has_torch_compiler`,
    `individual_algo`, `module_activation_is_none`, `wrapper_optimizer_isinstance_list`, …) and the definition a decision tree
    over them: the executor FORKS on an undecided atom and REPLAYS the frame (method body / loop body) under both answers;
    atoms that do not mention the loop variable are decided outside the loop; the pieces common to all paths are emitted
    once, the `if` where the variables it mentions are bound.
  * canonical forms: loop variables `g0, oc0, n0 …` (renaming locals changes nothing), a run of `x.f = None` stores under
    one test sorted by field, `if c: A else: B` = `if not c: B else: A`, positions of the source dropped from every text.

Supported subset on the way to an effect: assignments (names, tuples, attributes of the individual / of a module / of an
opaque object, subscripts of a local dict), `if`, `for` over registry lists / network lists (`zip`, `enumerate`) / literal
lists, list comprehensions over the same (own scope), `break`, `continue`, `return`, `raise`, nested `def`, keyword / default
arguments, `getattr` / `setattr` / `isinstance` / `hasattr` / `len` / `list` / `dict` / `type`, `[x] * len(y)`,
`x if c else y`, `and / or / not`, `is None`, `==`, `in`.
Everything else is OPAQUE: the value carries the text of the construct that made it and poisons what is computed from it; a
loop over an opaque iterable / an `if` on an opaque value runs in HAVOC mode (both branches, the locals they assign become
opaque, no registry effect allowed inside except writes into a module's tensors / into the optimizer wrapper).  An effect that
needs an opaque value is emitted as `….opaque "<why>"`; a path that cannot be followed below a decided ATOM ends in
`Eff.untranslated "<why>"` (the equalities then cannot be proved for it); anything else raises `Unsupported` with
construct and line.  Never guessed.

Assumptions (also listed in the header of the generated file):
  * registry schema: `NetworkGroup(eval, shared: Optional[list], policy)`, `OptimizerConfig(name, networks, lr)`; the fields
    `network_names`, `lr_name`, `optimizer` (list or not), `multiagent`, `optimizer_kwargs` of the OLD wrapper are inputs
    (`wrapper_* : Nat → …`); attribute names are numbers; the names of one registry are pairwise distinct; `registry.policy` (a
    property defined in another file) is the field `Registry.policy`;
  * the registry network attributes of one agent are either all lists (multi-agent) or all single modules: ONE atom `multi`;
    all lists have one entry per sub-agent (position `j` of one list corresponds to position `j` of another);
  * `.to(device)` returns the module itself; `warnings.warn`, `copy.deepcopy`, `torch.*`, `np.*`, `self.rng.*`, methods of
    opaque values have no effect on registry attributes; a function annotated `-> str` returns a string; stores into fields
    of opaque objects (`mutate_param.value = …`) are listed in the header and ignored;
  * `individual.<method>()` calls are kept as `Eff.indCall "<method>"`, unknown module methods as `ModOp.callNamed "<m>"`: their
    meaning (`mutation_hook`, `change_activation`; identity for the others) is given by the interpreter in
    Proofs/MutWireGenEq.lean.

The header carries the sha256 of the source; `write_if_changed` compares everything *but* that line.
"""
from __future__ import annotations

import ast
import copy
import hashlib
import os
import sys
from pathlib import Path

HERE = Path(__file__).resolve().parent
DEFAULT_OUT = HERE.parent / "lean" / "Gen" / "MutWireGen.lean"
REL_SOURCE = "agilerl/hpo/mutation.py"
SHA_PREFIX = "-- sha256(source) = "


class Unsupported(Exception):
    pass


class Fork(Exception):
    def __init__(self, cond):
        self.cond = cond


def where(node) -> str:
    return f"{REL_SOURCE}:{getattr(node, 'lineno', '?')}"


def unparse(n, k: int = 70) -> str:
    s = " ".join(ast.unparse(n).split())
    return s if len(s) <= k else s[:k] + "…"


def lstr(s: str) -> str:
    """Lean string literal (positions in the source are dropped: the text must not change when lines move)"""
    import re
    s = re.sub(r"agilerl/hpo/mutation\.py:\d+: ", "", s)
    return '"' + s.replace("\\", "\\\\").replace('"', '\\"').replace("\n", " ") + '"'


# ---------------------------------------------------------------------------------------------- conditions
class Cond:
    """Boolean: const (True/False) or a Lean Bool expression `lean`; atom=True for run-time predicates (a path below a
    decided atom may end in `untranslated`), params: {name: lean type} the expression mentions"""

    def __init__(self, const=None, lean=None, atom=False, params=None, neg=False):
        self.const, self.lean, self.atom, self.params, self.neg = const, lean, atom, dict(params or {}), neg

    def key(self):
        return ("cond", self.const, self.lean, self.neg)

    def negate(self) -> "Cond":
        if self.const is not None:
            return Cond(const=not self.const)
        return Cond(lean=self.lean, atom=self.atom, params=self.params, neg=not self.neg)


TRUE, FALSE = Cond(const=True), Cond(const=False)


# ---------------------------------------------------------------------------------------------- values
class Val:
    kind = "?"

    def key(self):
        return (self.kind,) + tuple(_k(v) for _, v in sorted(self.__dict__.items()))


def _k(v):
    if isinstance(v, (Val, Cond, Fam)):
        return v.key()
    if isinstance(v, (list, tuple)):
        return tuple(_k(x) for x in v)
    if isinstance(v, dict):
        return tuple((k, _k(x)) for k, x in sorted(v.items(), key=lambda kv: str(kv[0])))
    return v


def mk(kind_name, *fields):
    def __init__(self, *a, **kw):
        for f, v in zip(fields, a):
            setattr(self, f, v)
        for f, v in kw.items():
            setattr(self, f, v)
        for f in fields:
            if not hasattr(self, f):
                setattr(self, f, None)
    return type(kind_name, (Val,), {"kind": kind_name, "__init__": __init__})


NoneV = mk("none")
StrV = mk("str", "s")
IntV = mk("int", "n")
BoolV = mk("bool", "c")                      # c: Cond
SelfV = mk("self")
IndV = mk("ind")
RegistryV = mk("registry")
GrpV = mk("grp", "var")
CfgV = mk("cfg", "var")
NameV = mk("name", "lean", "sort", "params")          # attribute name (Nat); sort: net | opt | lr | hp
NamesV = mk("names", "lean", "sort", "params", "opt")  # List Nat (opt=True: Option (List Nat), not narrowed yet)
SymListV = mk("symlist", "lean", "elem", "var", "params")   # elem: grp | cfg ; filtered lists keep their binder `var`
LenV = mk("len", "lean", "params")
ModV = mk("mod", "fam", "pos")               # pos: POS | FIRST | SINGLE
PosListV = mk("poslist", "elem", "base")     # one element per position of the network list `base`
WrapperV = mk("wrapper", "name")             # the OLD optimizer wrapper getattr(individual, cfg.name)
WFieldV = mk("wfield", "wrapper", "field")
CFieldV = mk("cfield", "cfg", "field")       # opaque field / method result of an OptimizerConfig
OptBuildV = mk("optbuild", "fields")
LrReadV = mk("lrread", "name", "t")          # getattr(individual, <lr name>) read at hp-version t
OpaqueV = mk("opaque", "why", "path")        # path: attribute chain from individual / self (atomizable) or None
DictV = mk("dict", "items", "sym")           # items: {python key: Val}; sym: [(list SymListV, var, conds, key NameV, value)]
PyListV = mk("pylist", "items")
TupleV = mk("tuple", "items")
FuncV = mk("func", "what", "name", "env")    # what: method | function | closure | builtin | cls
FuncV.key = lambda self: ("func", self.what, str(self.name) if not isinstance(self.name, tuple) else tuple(_k(x) for x in self.name))
TypeV = mk("type", "of", "unwrapped")        # type(module) / type(module._orig_mod)
FieldV = mk("field", "mod", "field")         # attribute of a module object
MethResV = mk("methres", "mod", "meth", "wrap")   # mod.state_dict() / dict(mod.named_parameters()) / tensor of it
RetV = mk("ret", "mod", "orempty")           # what the architecture call on `mod` returned
SampledV = mk("sampled", "mod")              # mod.sample_mutation_method(…)
IteV = mk("ite", "c", "a", "b")
SymItemsV = mk("symitems", "lst", "var", "conds", "keyv", "val")   # d.items() of a dict filled in a registry loop
BrokeV = mk("broke", "ref")

POS, FIRST, SINGLE = "POS", "FIRST", "SINGLE"


class Fam:
    """a network value: one module per position (is_list) or a single module, with its origin and the in-place
    operations it received"""
    _n = [0]

    def __init__(self, origin, is_list, attached=None, t=0):
        Fam._n[0] += 1
        self.id = Fam._n[0]
        self.origin, self.is_list, self.attached, self.t, self.ops = origin, is_list, attached, t, []

    def key(self):
        return ("fam", self.id, self.is_list, len(self.ops), self.attached is not None)

    def home(self):
        """(attribute name, version when read / attached) if the objects are (now) a registry attribute of the individual"""
        if self.origin[0] == "attached":
            return self.origin[1], self.t
        if self.attached is not None:
            return self.attached, self.t_att
        return None


UNDEF = mk("undef")()


def same(a, b) -> bool:
    return a is b or _k(a) == _k(b)


def mk_ite(c: Cond, a, b):
    if c.const is not None:
        return a if c.const else b
    if isinstance(a, IteV) and a.c.key() == c.key():
        a = a.a
    if isinstance(b, IteV) and b.c.key() == c.key():
        b = b.b
    if same(a, b):
        return a
    return IteV(c, a, b)


class Frame:
    def __init__(self, parent=None, name="?"):
        self.locals, self.parent, self.name = {}, parent, name


class State:
    def __init__(self):
        self.frames = [Frame()]
        self.trace = []          # pieces: ("eff", lean) | ("loop", …) | ("bind", …)
        self.tnet = 0            # number of effects that may rebind a network attribute
        self.thp = 0             # number of effects that may rebind a non-network attribute
        self.nref = 0            # loop results bound with `let`
        self.nuid = 0
        self.nvar = {"g": 0, "oc": 0, "n": 0}


class Ctl:
    def __init__(self, kind, val=None):
        self.kind, self.val = kind, val


# ---------------------------------------------------------------------------------------------- the executor
class Machine:
    def __init__(self, mod: ast.Module, cls: ast.ClassDef):
        self.mod, self.cls = mod, cls
        self.methods = {f.name: f for f in cls.body if isinstance(f, ast.FunctionDef)}
        self.functions = {f.name: f for f in mod.body if isinstance(f, ast.FunctionDef)}
        self.imported = set()
        for st in mod.body:
            if isinstance(st, (ast.Import, ast.ImportFrom)):
                for a in st.names:
                    self.imported.add((a.asname or a.name).split(".")[0])
        self.st = State()
        self.decisions: list[dict] = [{}]
        self.params: dict[str, str] = {}       # Lean parameters of the definition being built
        self.assumed: set[str] = set()
        self.guards: list = []                 # [(meth descriptor, polarity)]
        self.havoc = 0
        self.posloop = 0
        self.stack: list[str] = []

    # ------------------------------------------------------------------ small helpers
    @property
    def frame(self) -> Frame:
        return self.st.frames[-1]

    def lookup(self, name: str):
        f = self.frame
        while f is not None:
            if name in f.locals:
                return f.locals[name]
            f = f.parent
        return None

    def fresh_var(self, k: str) -> str:
        v = f"{k}{self.st.nvar[k]}"
        self.st.nvar[k] += 1
        return v

    def use(self, params):
        for k, t in (params or {}).items():
            if self.params.get(k, t) != t:
                raise Unsupported(f"parameter `{k}` used with two types ({self.params[k]}, {t})")
            self.params[k] = t

    def atom(self, name: str, ty: str = "Bool", arg: str | None = None, argparams=None) -> Cond:
        lean = name if arg is None else f"({name} {arg})"
        ps = {name: ty}
        ps.update(argparams or {})
        return Cond(lean=lean, atom=True, params=ps)

    def known(self, c: Cond):
        for d in reversed(self.decisions):
            if c.lean in d:
                return d[c.lean][0] != c.neg
        return None

    def decide(self, c: Cond, node=None) -> bool:
        if c.const is not None:
            return c.const
        if getattr(c, "special", None):
            raise Unsupported(f"{where(node)}: unsupported construct: a test on the applied architecture method outside an `if` statement")
        k = self.known(c)
        if k is not None:
            return k
        if self.havoc:
            raise Unsupported(f"{where(node)}: unsupported construct: a translatable condition `{c.lean}` is needed inside a loop over "
                              f"an untranslatable iterable / under an untranslatable condition")
        raise Fork(Cond(lean=c.lean, atom=c.atom, params=c.params))

    def opaque(self, n, what: str, path=None) -> Val:
        return OpaqueV(f"{where(n)}: {what}", path)

    def emit(self, lean: str, rebinds_net=False, rebinds_other=False, node=None):
        if self.havoc:
            raise Unsupported(f"{where(node)}: unsupported construct: a registry effect ({lean[:60]}…) inside a loop over an "
                              f"untranslatable iterable / under an untranslatable condition")
        if self.guards:
            raise Unsupported(f"{where(node)}: unsupported construct: a registry effect ({lean[:60]}…) under a test on the applied "
                              f"architecture method")
        self.st.trace.append(("eff", lean))
        if rebinds_net:
            self.st.tnet += 1
        if rebinds_other:
            self.st.thp += 1

    # ------------------------------------------------------------------ references to attached modules
    def ref(self, fam: Fam, pos, node, prefer_cur=False) -> str:
        """Lean `Ref` of a module of a network attached to the individual"""
        h = fam.home()
        if h is None:
            raise Unsupported(f"{where(node)}: unsupported construct: a module that is not (an element of) a registry attribute of "
                              f"the individual is used as the source of another one")
        name, t = h
        if t == self.st.tnet and (prefer_cur or t != 0):
            w = ".cur"                # the objects the attribute holds now (in-place changes included)
        elif t == 0:
            w = ".start"              # as read when the method was entered
        else:
            raise Unsupported(f"{where(node)}: unsupported construct: the value of attribute `{name.lean}` read before other "
                              f"attributes were rebound is used afterwards")
        self.use(name.params)
        p = {POS: ".same", SINGLE: ".same", FIRST: ".first"}[pos]
        return f"⟨{name.lean}, {w}, {p}⟩"

    def fam_attr(self, fam: Fam):
        """the registry attribute a (possibly detached) network value was built for: clone of X → X"""
        o = fam.origin
        if o[0] == "attached":
            return o[1]
        if fam.attached is not None:
            return fam.attached
        if o[0] == "clone":
            return self.fam_attr(o[1])
        if o[0] == "new":
            return self.fam_attr(o[2].fam)
        return None

    # ------------------------------------------------------------------ truth values
    def path_name(self, path) -> str:
        if len(path) >= 3 and path[0] == "individual" and path[1] == "registry":
            path = path[2:]
        return "_".join(path)

    def truth(self, v: Val, n) -> Cond | None:
        if isinstance(v, IteV) and isinstance(v.a, BoolV) and isinstance(v.b, BoolV) and v.a.c.const is not None \
                and v.b.c.const is not None and not getattr(v.c, "special", None):
            if v.a.c.const == v.b.c.const:
                return v.a.c
            return v.c if v.a.c.const else v.c.negate()
        v = self.force(v, n)
        if isinstance(v, BoolV):
            return v.c
        if isinstance(v, NoneV):
            return FALSE
        if isinstance(v, StrV):
            return Cond(const=bool(v.s))
        if isinstance(v, IntV):
            return Cond(const=bool(v.n))
        if isinstance(v, (PyListV, TupleV)):
            return Cond(const=bool(v.items))
        if isinstance(v, DictV) and not v.sym:
            return Cond(const=bool(v.items))
        if isinstance(v, OpaqueV):
            if v.path:
                return self.atom(self.path_name(v.path))
            return None
        if isinstance(v, FieldV):
            a = self.fam_attr(v.mod.fam)
            if a is not None:
                return self.atom(f"module_{v.field}", "Nat → Bool", a.lean, a.params)
            return None
        if isinstance(v, (WFieldV, CFieldV)):
            return None
        if isinstance(v, NamesV) and v.opt:
            return Cond(lean=f"{v.lean}.isSome", params=v.params)
        if isinstance(v, BrokeV):
            return Cond(lean=f"{v.ref}.2")
        if isinstance(v, (ModV, WrapperV, SelfV, IndV, RegistryV, GrpV, CfgV, FuncV, TypeV, OptBuildV)):
            return TRUE
        return None

    def is_none(self, v: Val, n) -> Cond | None:
        v = self.force(v, n) if not isinstance(v, IteV) or not getattr(v.c, "special", None) else v
        if isinstance(v, NoneV):
            return TRUE
        if isinstance(v, OpaqueV):
            return self.atom(self.path_name(v.path) + "_is_none") if v.path else None
        if isinstance(v, NamesV) and v.opt:
            return Cond(lean=f"{v.lean}.isSome", params=v.params, neg=True)
        if isinstance(v, FieldV):
            if v.field == "last_mutation_attr" and v.mod.fam.origin[0] != "attached":
                c = Cond(lean=f"methnone#{v.mod.fam.id}#{v.mod.pos}", atom=True)
                c.special = ("methnone", v)
                return c
            a = self.fam_attr(v.mod.fam)
            if a is not None:
                return self.atom(f"module_{v.field}_is_none", "Nat → Bool", a.lean, a.params)
            return None
        if isinstance(v, SampledV) and getattr(v, "isstr", False):
            return FALSE
        if isinstance(v, RetV) and v.orempty:
            return FALSE
        if isinstance(v, (RetV, SampledV, WFieldV, CFieldV, LrReadV, MethResV)):
            return None
        if isinstance(v, IteV):
            return None
        return FALSE

    def force(self, v: Val, n) -> Val:
        while isinstance(v, IteV):
            v = v.a if self.decide(v.c, n) else v.b
        return v

    # ------------------------------------------------------------------ shapes of network values
    MULTI = Cond(lean="multi", atom=True, params={"multi": "Bool"})

    def is_list(self, fam: Fam, n) -> bool:
        if fam.is_list is None:
            self.assumed.add("the registry network attributes of one agent are all lists (`multi`) or all single modules; every list "
                             "has one entry per sub-agent")
            return self.decide(self.MULTI, n)
        return fam.is_list

    def norm(self, v: Val, n) -> Val:
        """NetV of a single module → ModV; a python list filled once per position → PosListV"""
        if isinstance(v, NetV) and not self.is_list(v.fam, n):
            return ModV(v.fam, SINGLE)
        if isinstance(v, PyListV) and getattr(v, "final", None) is not None:
            return v.final
        return v

    def soft_norm(self, v: Val) -> Val:
        if isinstance(v, NetV) and (v.fam.is_list is False or (v.fam.is_list is None and self.known(self.MULTI) is False)):
            return ModV(v.fam, SINGLE)
        return v

    def poslist_of(self, lst, n) -> Val:
        ps = lst.posn
        if len(ps) == 1 and not ps[0][0]:
            return PosListV(ps[0][1], None)
        if len(ps) == 2 and len(ps[0][0]) == 1 and len(ps[1][0]) == 1 and ps[0][0][0][0].key() == ps[1][0][0][0].key() \
                and ps[0][0][0][1] != ps[1][0][0][1]:
            c = ps[0][0][0][0]
            a, b = (ps[0][1], ps[1][1]) if ps[0][0][0][1] else (ps[1][1], ps[0][1])
            return PosListV(mk_ite(c, a, b), None)
        raise Unsupported(f"{where(n)}: unsupported construct: a list that does not receive exactly one element per position of the "
                          f"network list")

    def as_fam(self, v: Val, n):
        """(fam, is_list) of a value that is a whole network attribute value, else None"""
        v = self.norm(v, n)
        if isinstance(v, NetV):
            return v.fam
        if isinstance(v, ModV) and v.pos == SINGLE:
            return v.fam
        if isinstance(v, PosListV) and isinstance(v.elem, ModV) and v.elem.pos == POS:
            return v.elem.fam
        return None

    def subst_first(self, v: Val) -> Val:
        """element 0 of a per-position value"""
        if isinstance(v, ModV):
            return ModV(v.fam, FIRST) if v.pos == POS else v
        if isinstance(v, (FieldV, SampledV)):
            return type(v)(self.subst_first(v.mod), *( [v.field] if isinstance(v, FieldV) else []))
        if isinstance(v, RetV):
            return RetV(self.subst_first(v.mod), v.orempty)
        if isinstance(v, MethResV):
            return MethResV(self.subst_first(v.mod), v.meth, v.wrap)
        if isinstance(v, TupleV):
            return TupleV([self.subst_first(x) for x in v.items])
        if isinstance(v, IteV):
            return IteV(v.c, self.subst_first(v.a), self.subst_first(v.b))
        if isinstance(v, PosIdxV):
            return IntV(0)
        return v

    # ------------------------------------------------------------------ expressions
    def ev(self, n) -> Val:
        if isinstance(n, ast.Constant):
            c = n.value
            if c is None:
                return NoneV()
            if isinstance(c, bool):
                return BoolV(Cond(const=c))
            if isinstance(c, int):
                return IntV(c)
            if isinstance(c, str):
                return StrV(c)
            return self.opaque(n, f"constant {c!r}")
        if isinstance(n, ast.Name):
            v = self.lookup(n.id)
            if v is not None:
                if v is UNDEF:
                    raise Unsupported(f"{where(n)}: unsupported construct: `{n.id}` may be unassigned here")
                return v
            if n.id in self.functions:
                return FuncV("function", n.id)
            if n.id in BUILTINS:
                return FuncV("builtin", n.id)
            if n.id in self.imported or n.id in ("list", "str", "dict", "tuple", "float", "bool"):
                return FuncV("ext", n.id)
            raise Unsupported(f"{where(n)}: unsupported construct: unknown name `{n.id}`")
        if isinstance(n, ast.Attribute):
            return self.attribute(n, self.ev(n.value), n.attr)
        if isinstance(n, ast.Subscript):
            if isinstance(n.slice, ast.Slice):
                return self.opaque(n, f"slice `{unparse(n, 40)}`")
            return self.subscript(n, self.ev(n.value), self.ev(n.slice))
        if isinstance(n, ast.Call):
            return self.call(n)
        if isinstance(n, ast.IfExp):
            return self.ifexp(n)
        if isinstance(n, ast.Compare):
            return self.compare(n)
        if isinstance(n, ast.BoolOp):
            isand = isinstance(n.op, ast.And)
            last = None
            for x in n.values:
                last = self.ev(x)
                t = self.truth(last, x)
                if t is None:
                    return self.opaque(n, f"`{unparse(n, 50)}`")
                if self.decide(t, x) != isand:
                    return last
            return last
        if isinstance(n, ast.UnaryOp) and isinstance(n.op, ast.Not):
            t = self.truth(self.ev(n.operand), n)
            return BoolV(t.negate()) if t is not None else self.opaque(n, f"`{unparse(n, 50)}`")
        if isinstance(n, ast.BinOp):
            a, b = self.ev(n.left), self.ev(n.right)
            if isinstance(n.op, ast.Mult) and isinstance(a, PyListV) and len(a.items) == 1 and isinstance(b, LenV) and b.lean is None:
                return PosListV(a.items[0], None)
            return self.opaque(n, f"`{unparse(n, 50)}`")
        if isinstance(n, (ast.List, ast.Tuple)):
            if any(isinstance(x, ast.Starred) for x in n.elts):
                return self.opaque(n, "starred element")
            items = [self.ev(x) for x in n.elts]
            return PyListV(items) if isinstance(n, ast.List) else TupleV(items)
        if isinstance(n, ast.Dict):
            if all(isinstance(k, ast.Constant) for k in n.keys):
                d = DictV({k.value: self.ev(v) for k, v in zip(n.keys, n.values)}, [])
                self.st.nuid += 1
                d.uid = self.st.nuid
                return d
            return self.opaque(n, "dict display")
        if isinstance(n, ast.ListComp):
            return self.listcomp(n)
        return self.opaque(n, f"{type(n).__name__} `{unparse(n, 50)}`")

    def attribute(self, n, b: Val, a: str) -> Val:
        b = self.norm(self.force(b, n), n)
        if isinstance(b, SelfV):
            if a in self.methods:
                return FuncV("method", a)
            return OpaqueV(f"{where(n)}: attribute `self.{a}`", ("self", a))
        if isinstance(b, IndV):
            if a == "registry":
                return RegistryV()
            return OpaqueV(f"{where(n)}: attribute `individual.{a}`", ("individual", a))
        if isinstance(b, RegistryV):
            if a == "groups":
                return SymListV("reg.groups", "grp", None, {})
            if a == "optimizers":
                return SymListV("reg.optimizers", "cfg", None, {})
            if a == "policy":
                self.assumed.add("`registry.policy` (a property defined in agilerl/algorithms/core/registry.py) is the field `Registry.policy`")
                return NameV("reg.policy", "net", {})
            return OpaqueV(f"{where(n)}: attribute `registry.{a}`", ("individual", "registry", a))
        if isinstance(b, GrpV):
            if a == "eval":
                return NameV(f"{b.var}.eval", "net", {})
            if a == "shared":
                return NamesV(f"{b.var}.shared", "net", {}, True)
            if a == "policy":
                return BoolV(Cond(lean=f"{b.var}.policy"))
            return self.opaque(n, f"field `{a}` of a network group")
        if isinstance(b, CfgV):
            if a == "name":
                return NameV(f"{b.var}.name", "opt", {})
            if a == "networks":
                return NamesV(f"{b.var}.networks", "net", {}, False)
            if a == "lr":
                return NameV(f"{b.var}.lr", "lr", {})
            return CFieldV(b, a)
        if isinstance(b, WrapperV):
            return WFieldV(b, a)
        if isinstance(b, ModV):
            return FieldV(b, a)
        if isinstance(b, FuncV) and b.what == "ext":
            return FuncV("ext", b.name + "." + a)
        if isinstance(b, OpaqueV):
            return OpaqueV(b.why, b.path + (a,) if b.path else None)
        return self.opaque(n, f"attribute `.{a}` of `{unparse(n.value, 30)}`")

    def wnames(self, w: WFieldV):
        """the old wrapper's `network_names` as a Lean list"""
        q = w.wrapper.name
        ps = dict(q.params)
        ps["wrapper_" + w.field] = "Nat → List Nat"
        return NamesV(f"(wrapper_{w.field} {q.lean})", "net", ps, False)

    def subscript(self, n, v: Val, k: Val) -> Val:
        v = self.norm(self.force(v, n), n)
        k = self.force(k, n)
        if isinstance(v, WFieldV) and v.field == "network_names":
            v = self.wnames(v)
        if isinstance(v, (PyListV, TupleV)) and isinstance(k, IntV) and -len(v.items) <= k.n < len(v.items):
            return v.items[k.n]
        if isinstance(v, PosListV):
            if isinstance(k, PosIdxV):
                return v.elem
            if isinstance(k, IntV) and k.n == 0:
                return self.subst_first(v.elem)
        if isinstance(v, NetV):
            if isinstance(k, PosIdxV):
                return ModV(v.fam, POS)
            if isinstance(k, IntV) and k.n == 0:
                return ModV(v.fam, FIRST)
        if isinstance(v, NamesV) and not v.opt and isinstance(k, IntV) and k.n == 0:
            self.assumed.add("`x[0]` of a list of attribute names of the registry / of an optimizer wrapper: the list is not empty "
                             "(asserted by OptimizerWrapper)")
            return NameV(f"({v.lean}.headD 0)", v.sort, v.params)
        if isinstance(v, DictV) and isinstance(k, StrV) and k.s in v.items:
            return v.items[k.s]
        if isinstance(v, MethResV) and v.meth == "state_dict" and v.wrap is None:
            return MethResV(v.mod, "state_dict", "tensor")
        if isinstance(v, SymItemsV) and isinstance(k, IntV) and k.n == 0:
            return self.bind_head(n, v)
        if isinstance(v, SymListV) and isinstance(k, IntV) and k.n == 0:
            return self.bind_head(n, v)
        return self.opaque(n, f"subscript `{unparse(n, 40)}`")

    def bind_head(self, n, v):
        """`xs[0]` of a registry list: everything that follows is under `match xs.head? with | some x => … | none => raise`"""
        if self.posloop or self.havoc or self.guards:
            raise Unsupported(f"{where(n)}: unsupported construct: `[0]` of a registry list inside a loop over positions")
        if isinstance(v, SymItemsV):
            var = self.fresh_var("g")
            lst = rename_tokens(self.filtered(v.lst, v.var, v.conds), v.var, var)
            out = subst_var(TupleV([v.keyv, v.val]), v.var, var)
        else:
            var = v.var or self.fresh_var("oc" if v.elem == "cfg" else "g")
            lst = v.lean
            out = CfgV(var) if v.elem == "cfg" else GrpV(var)
            self.use(v.params)
        self.st.trace.append(("bind", lst, var, "IndexError"))
        return out

    def filtered(self, lst: SymListV, var: str, conds) -> str:
        self.use(lst.params)
        if not conds:
            return lst.lean
        for c in conds:
            self.use(c.params)
        body = " && ".join(("!" if c.neg else "") + c.lean for c in conds)
        return f"({lst.lean}.filter (fun {var} => {body}))"

    def ifexp(self, n: ast.IfExp) -> Val:
        # `x if x is not None else {}`
        t = n.test
        if isinstance(t, ast.Compare) and len(t.ops) == 1 and isinstance(t.ops[0], (ast.Is, ast.IsNot)) \
                and isinstance(t.comparators[0], ast.Constant) and t.comparators[0].value is None:
            x = self.ev(t.left)
            xs = x.b if isinstance(x, IteV) and getattr(x.c, "special", None) else x
            if isinstance(xs, RetV):
                keep, other = (n.body, n.orelse) if isinstance(t.ops[0], ast.IsNot) else (n.orelse, n.body)
                if same(self.ev(keep), x) and isinstance(other, ast.Dict) and not other.keys:
                    r = RetV(xs.mod, True)
                    return IteV(x.c, x.a, r) if xs is not x else r
        c = self.truth(self.ev(n.test), n.test)
        if c is None:
            a, b = self.ev(n.body), self.ev(n.orelse)
            return a if same(a, b) else self.opaque(n, f"`{unparse(n, 50)}` (untranslatable condition)")
        if c.const is not None:
            return self.ev(n.body if c.const else n.orelse)
        simple = lambda x: isinstance(x, (ast.Constant, ast.Name))
        if simple(n.body) and simple(n.orelse) and self.known(c) is None:
            return mk_ite(c, self.ev(n.body), self.ev(n.orelse))
        return self.ev(n.body if self.decide(c, n) else n.orelse)

    def compare(self, n: ast.Compare) -> Val:
        if len(n.ops) != 1:
            return self.opaque(n, f"`{unparse(n, 50)}`")
        op, a, b = n.ops[0], self.ev(n.left), self.ev(n.comparators[0])
        if isinstance(op, (ast.Is, ast.IsNot)) and isinstance(self.force(b, n) if not isinstance(b, IteV) else b, NoneV):
            c = self.is_none(a, n)
            if c is None:
                return self.opaque(n, f"`{unparse(n, 50)}`")
            return BoolV(c if isinstance(op, ast.Is) else self.negc(c))
        a, b = self.force(a, n), self.force(b, n)
        if isinstance(op, (ast.Eq, ast.NotEq)):
            c = None
            if isinstance(a, NameV) or isinstance(b, NameV):
                a, b = self.as_name(a, n) or a, self.as_name(b, n) or b
            if isinstance(a, NameV) and isinstance(b, NameV):
                ps = dict(a.params)
                ps.update(b.params)
                c = Cond(lean=f"({a.lean} == {b.lean})", params=ps)
            elif isinstance(a, (StrV, IntV)) and type(a) is type(b):
                c = Cond(const=(a.key() == b.key()))
            elif isinstance(a, LenV) and a.lean and isinstance(b, IntV):
                c = Cond(lean=f"({a.lean} == {b.n})", params=a.params)
            if c is not None:
                return BoolV(c if isinstance(op, ast.Eq) else self.negc(c))
        if isinstance(op, (ast.In, ast.NotIn)):
            c = None
            if isinstance(b, PyListV) and all(isinstance(x, StrV) for x in b.items) and isinstance(a, OpaqueV) and a.path:
                nm = self.path_name(a.path)
                c = Cond(lean="([" + ", ".join(lstr(x.s) for x in b.items) + f"].contains {nm})", atom=True, params={nm: "String"})
            elif self.as_name(a, n) is not None and isinstance(b, OpaqueV) and b.path:
                a = self.as_name(a, n)
                nm = self.path_name(b.path)
                ps = dict(a.params)
                ps[nm] = "List Nat"
                c = Cond(lean=f"({nm}.contains {a.lean})", atom=True, params=ps)
            if c is not None:
                return BoolV(c if isinstance(op, ast.In) else self.negc(c))
        return self.opaque(n, f"`{unparse(n, 50)}`")

    def negc(self, c: Cond) -> Cond:
        r = c.negate()
        if getattr(c, "special", None):
            r.special = c.special
        return r

    def listcomp(self, n: ast.ListComp) -> Val:
        if len(n.generators) != 1 or n.generators[0].is_async:
            return self.opaque(n, "nested comprehension")
        g = n.generators[0]
        it = self.norm(self.force(self.ev(g.iter), g.iter), g.iter)
        fr = Frame(self.frame, "<listcomp>")           # a comprehension has its own scope
        fr.ctx = getattr(self.frame, "ctx", (0, 0, 0))
        self.st.frames.append(fr)
        try:
            return self.listcomp_body(n, g, it)
        finally:
            self.st.frames.pop()

    def listcomp_body(self, n, g, it) -> Val:
        if isinstance(it, WFieldV) and it.field == "network_names":
            it = self.wnames(it)
        if isinstance(it, PyListV) and not g.ifs:
            out = []
            for x in it.items:
                self.bind_target(g.target, x, n, local_only=True)
                out.append(self.ev(n.elt))
            return PyListV(out)
        if isinstance(it, (NetV, PosListV)) and not g.ifs:
            elem = ModV(it.fam, POS) if isinstance(it, NetV) else it.elem
            self.bind_target(g.target, elem, n, local_only=True)
            self.posloop += 1
            try:
                return PosListV(self.ev(n.elt), None)
            finally:
                self.posloop -= 1
        if isinstance(it, SymListV) and isinstance(g.target, ast.Name) and isinstance(n.elt, ast.Name) and n.elt.id == g.target.id:
            var = it.var or self.fresh_var("oc" if it.elem == "cfg" else "g")
            self.bind_target(g.target, CfgV(var) if it.elem == "cfg" else GrpV(var), n, local_only=True)
            conds = []
            for c in g.ifs:
                t = self.truth(self.ev(c), c)
                if t is None or t.atom:
                    return self.opaque(n, f"comprehension filter `{unparse(c, 40)}`")
                conds.append(t)
            return SymListV(self.filtered(it, var, conds), it.elem, var, dict(self.params_of(conds), **it.params))
        if isinstance(it, NamesV) and not it.opt and not g.ifs and isinstance(g.target, ast.Name):
            var = self.fresh_var("n")
            self.bind_target(g.target, NameV(var, it.sort, {}), n, local_only=True)
            e = self.ev(n.elt)
            if isinstance(e, NetV) and e.fam.origin[0] == "attached" and e.fam.origin[1].lean == var:
                return ManyV(it, e.fam.t)
            return self.opaque(n, f"comprehension `{unparse(n, 50)}`")
        return self.opaque(n, f"comprehension `{unparse(n, 50)}`")

    def params_of(self, conds):
        ps = {}
        for c in conds:
            ps.update(c.params)
        return ps

    # ------------------------------------------------------------------ calls
    def bind_target(self, tg, v: Val, n, local_only=False):
        if isinstance(tg, ast.Name):
            self.assign_local(tg.id, v)
            return
        if isinstance(tg, (ast.Tuple, ast.List)):
            v = self.force(v, n)
            if isinstance(v, (TupleV, PyListV)) and len(v.items) == len(tg.elts):
                for t, x in zip(tg.elts, v.items):
                    self.bind_target(t, x, n, local_only)
                return
            if isinstance(v, OpaqueV):
                for i, t in enumerate(tg.elts):
                    self.bind_target(t, OpaqueV(v.why, v.path + (str(i),) if v.path else None), n, local_only)
                return
            raise Unsupported(f"{where(n)}: unsupported construct: unpacking `{unparse(tg, 30)}` of a value of kind {v.kind}")
        if local_only:
            raise Unsupported(f"{where(n)}: unsupported construct: loop / comprehension target `{unparse(tg, 30)}`")
        self.store(tg, v, n)

    def assign_local(self, name: str, v: Val):
        if self.havoc:
            old = self.lookup(name)
            if old is not None and (same(old, v) or same(self.soft_norm(old), self.soft_norm(v))):
                return
            if not (isinstance(v, OpaqueV) or old is None):
                v = OpaqueV(f"`{name}` assigned inside a loop over an untranslatable iterable / under an untranslatable condition", None)
        for m, pol in reversed(self.guards):
            old = self.frame.locals.get(name, UNDEF)
            v = mk_ite(m, v, old) if pol else mk_ite(m, old, v)
        self.frame.locals[name] = v

    def args_of(self, n: ast.Call):
        if any(isinstance(a, ast.Starred) for a in n.args):
            raise Unsupported(f"{where(n)}: unsupported construct: starred argument in `{unparse(n, 50)}`")
        pos = [self.ev(a) for a in n.args]
        kw, star = {}, None
        for k in n.keywords:
            if k.arg is None:
                star = self.ev(k.value)
            else:
                kw[k.arg] = self.ev(k.value)
        return pos, kw, star

    def call(self, n: ast.Call) -> Val:
        f = n.func
        if isinstance(f, ast.Attribute):
            base = self.norm(self.force(self.ev(f.value), f.value), f.value)
            return self.method_call(n, base, f.attr)
        fv = self.ev(f)
        if isinstance(fv, IteV) and isinstance(fv.a, TypeV):
            return self.construct(n, fv)
        fv = self.force(fv, n)
        if isinstance(fv, TypeV):
            return self.construct(n, fv)
        if isinstance(fv, FuncV):
            if fv.what == "builtin":
                return self.builtin(n, fv.name)
            if fv.what in ("function", "closure"):
                pos, kw, star = self.args_of(n)
                if star is not None:
                    raise Unsupported(f"{where(n)}: unsupported construct: `**` in `{unparse(n, 50)}`")
                fn = self.functions[fv.name] if fv.what == "function" else self.closure_asts[fv.env[1]]
                return self.inline(n, fn, pos, kw, parent=None if fv.what == "function" else fv.env[0], is_method=False)
            if fv.what == "ext":
                return self.ext_call(n, fv.name)
            if fv.what == "kind":
                pos, kw, star = self.args_of(n)
                if len(pos) != 1 or kw or not isinstance(pos[0], IndV):
                    raise Unsupported(f"{where(n)}: unsupported construct: the drawn mutation is not called with the individual alone")
                self.emit("Eff.kind", True, True, n)
                return pos[0]
            if fv.what == "dyn":
                return self.dyn_call(n, fv)
        pos, kw, star = self.args_of(n)
        return self.opaque(n, f"call `{unparse(n, 50)}`")

    def inline(self, n, fn: ast.FunctionDef, pos, kw, parent, is_method) -> Val:
        a = fn.args
        if a.vararg or a.kwarg or a.posonlyargs:
            raise Unsupported(f"{where(n)}: unsupported construct: signature of {fn.name}")
        if fn.name in self.stack:
            raise Unsupported(f"{where(n)}: unsupported construct: recursive call of {fn.name}")
        names = [p.arg for p in a.args]
        fr = Frame(parent, fn.name)
        if is_method:
            fr.locals[names[0]] = SelfV()
            names = names[1:]
        if len(pos) > len(names):
            raise Unsupported(f"{where(n)}: unsupported construct: too many arguments for {fn.name}")
        for k, v in zip(names, pos):
            fr.locals[k] = v
        kwonly = [p.arg for p in a.kwonlyargs]
        for k, v in kw.items():
            if k in fr.locals or k not in names + kwonly:
                raise Unsupported(f"{where(n)}: unsupported construct: argument `{k}` of {fn.name}")
            fr.locals[k] = v
        defaults = dict(zip(names[len(names) - len(a.defaults):], a.defaults))
        defaults.update({p: d for p, d in zip(kwonly, a.kw_defaults) if d is not None})
        for p in names + kwonly:
            if p not in fr.locals:
                if p not in defaults:
                    raise Unsupported(f"{where(n)}: unsupported construct: argument `{p}` of {fn.name} missing")
                self.st.frames.append(Frame())
                try:
                    fr.locals[p] = self.ev(defaults[p])
                finally:
                    self.st.frames.pop()
        fr.ctx = (self.posloop, self.havoc, len(self.guards))
        self.st.frames.append(fr)
        self.stack.append(fn.name)
        g0 = len(self.guards)
        try:
            ctl = self.exec_block(fn.body)
        finally:
            self.stack.pop()
            self.st.frames.pop()
            del self.guards[g0:]
        r = ctl.val if ctl is not None and ctl.kind == "return" else NoneV()
        ann = fn.returns
        if isinstance(ann, ast.Name) and ann.id == "str" and isinstance(r, (OpaqueV, SampledV)):
            self.assumed.add("the value returned by a function annotated `-> str` is a string (never None, never a list)")
            if isinstance(r, SampledV):
                r = SampledV(r.mod)
                r.isstr = True
        return r

    def method_call(self, n: ast.Call, base: Val, m: str) -> Val:
        if isinstance(base, SelfV):
            if m in self.methods:
                pos, kw, star = self.args_of(n)
                if star is not None:
                    raise Unsupported(f"{where(n)}: unsupported construct: `**` in `{unparse(n, 50)}`")
                if m in self.subdefs and self.subdef_call(n, m, pos, kw):
                    return NoneV()
                return self.inline(n, self.methods[m], pos, kw, None, True)
            self.args_of(n)
            return self.opaque(n, f"call `{unparse(n, 50)}`")
        if isinstance(base, IndV):
            pos, kw, star = self.args_of(n)
            self.assumed.add("`individual.<method>()` is kept as `Eff.indCall \"<method>\"`; its meaning is given by the interpreter")
            self.emit(f"Eff.indCall {lstr(m)}", True, True, n)
            return OpaqueV(f"{where(n)}: value of `individual.{m}()`", ("individual", m))
        if isinstance(base, ModV):
            return self.mod_method(n, base, m)
        if isinstance(base, CfgV):
            self.args_of(n)
            return CFieldV(base, m + "()")
        if isinstance(base, PyListV) and m == "append" and len(n.args) == 1 and not n.keywords:
            v = self.ev(n.args[0])
            if self.in_pop and not self.posloop and not self.havoc:
                base.popout = getattr(base, "popout", []) + [v]
                return NoneV()
            if getattr(base, "final", None) is not None:
                raise Unsupported(f"{where(n)}: unsupported construct: append to a list filled by an earlier loop over positions")
            if self.posloop:
                if base.items:
                    raise Unsupported(f"{where(n)}: unsupported construct: append inside a loop over positions to a non-empty list")
                if not hasattr(base, "posn"):
                    base.posn = []
                base.posn.append((list(self.guards), v))
            elif self.havoc:
                base.items.append(OpaqueV(f"{where(n)}: element appended inside a loop over an untranslatable iterable", None))
            else:
                base.items.append(v)
            return NoneV()
        if isinstance(base, DictV) and m == "items" and not n.args:
            if base.sym and not base.items:
                if len(base.sym) != 1:
                    raise Unsupported(f"{where(n)}: unsupported construct: a dictionary filled at two places of a registry loop")
                return SymItemsV(*base.sym[0])
            if not base.sym:
                return PyListV([TupleV([StrV(k), v]) for k, v in base.items.items()])
        if isinstance(base, FuncV) and base.what == "ext":
            return self.ext_call(n, base.name + "." + m)
        if isinstance(base, OpaqueV):
            self.args_of(n)
            return OpaqueV(f"{where(n)}: value of `{unparse(n, 50)}`", base.path + (m,) if base.path else None)
        if isinstance(base, MethResV) and base.wrap == "tensor" and m == "clone":
            return self.opaque(n, "copy of a tensor")
        self.args_of(n)
        return self.opaque(n, f"call `{unparse(n, 50)}`")

    def subdef_call(self, n, m: str, pos, kw) -> bool:
        """a call of a method that has its own generated definition: reference it instead of inlining"""
        sub = self.subdefs[m]
        names = [a.arg for a in sub["fn"].args.args[1:]]
        args = dict(zip(names, pos))
        args.update(kw)
        if not isinstance(args.get(names[0]), IndV) or self.havoc or self.guards or self.posloop:
            return False
        rest = {k: self.force(v, n) for k, v in args.items() if k != names[0]}
        if all(isinstance(v, NoneV) for v in rest.values()):
            variant, sub_args = sub["all"], {}
        elif len(rest) == 1 and isinstance(list(rest.values())[0], CfgV) and "one" in sub:
            variant, sub_args = sub["one"], {"oc": list(rest.values())[0].var}
        else:
            return False
        defname, ps = variant
        self.use({k: t for k, t in ps if k not in ("reg", "oc")})
        self.st.trace.append(("call", "(" + " ".join([defname] + [sub_args.get(k, k) for k, _ in ps]) + ")"))
        return True

    def ext_call(self, n: ast.Call, name: str) -> Val:
        pos, kw, star = self.args_of(n)
        last = name.rsplit(".", 1)[-1]
        if last == "OptimizerWrapper":
            if pos or star is not None:
                raise Unsupported(f"{where(n)}: unsupported construct: OptimizerWrapper with positional / `**` arguments")
            return OptBuildV(kw)
        if last == "remove_compile_prefix" and len(pos) == 1 and isinstance(pos[0], MethResV):
            r = MethResV(pos[0].mod, pos[0].meth, pos[0].wrap)
            r.strip = True
            return r
        if name in ("list", "tuple") and len(pos) == 1:
            return self.builtin(n, "list")
        if name == "dict" and len(pos) == 1:
            return self.builtin(n, "dict")
        self.assumed.add("calls of imported functions (`warnings.warn`, `copy.deepcopy`, `torch.*`, `np.*`) and of `self.rng.*` change no "
                         "registry attribute; their values are opaque")
        return self.opaque(n, f"value of `{unparse(n, 50)}`")

    def construct(self, n: ast.Call, tv) -> Val:
        """`type(m)(**m.init_dict)`"""
        pos, kw, star = self.args_of(n)
        if pos or kw or not isinstance(star, FieldV) or star.field != "init_dict":
            return self.opaque(n, f"constructor call `{unparse(n, 50)}`")
        m = star.mod
        fam = Fam(("new", tv, m), m.fam.is_list if m.pos != FIRST else False, None, self.st.tnet)
        if m.pos == FIRST:
            return self.opaque(n, "a module built from element 0 only")
        return ModV(fam, m.pos)

    def builtin(self, n: ast.Call, name: str) -> Val:
        pos, kw, star = self.args_of(n)
        a0 = self.norm(self.force(pos[0], n), n) if pos else None
        if name == "isinstance" and len(pos) == 2:
            c = self.isinstance(n, a0, pos[1])
            return BoolV(c) if c is not None else self.opaque(n, f"`{unparse(n, 50)}`")
        if name == "hasattr" and len(pos) == 2 and isinstance(a0, IndV) and isinstance(pos[1], StrV):
            return BoolV(self.atom(f"individual_has_{pos[1].s}"))
        if name == "getattr" and len(pos) == 2:
            k = self.force(pos[1], n)
            if isinstance(a0, IndV):
                return self.getattr_ind(n, k)
            if isinstance(a0, ModV) and not isinstance(k, StrV):
                return FuncV("dyn", (a0, k))
            if isinstance(k, StrV):
                return self.attribute(n, a0, k.s)
        if name == "setattr" and len(pos) == 3 and isinstance(a0, IndV):
            self.setattr_ind(n, self.force(pos[1], n), pos[2])
            return NoneV()
        if name == "len" and len(pos) == 1:
            if isinstance(a0, WFieldV) and a0.field == "network_names":
                a0 = self.wnames(a0)
            if isinstance(a0, (NetV, PosListV)):
                return LenV(None, {})
            if isinstance(a0, NamesV) and not a0.opt:
                return LenV(f"{a0.lean}.length", a0.params)
            if isinstance(a0, (PyListV, TupleV)) and not getattr(a0, "posn", None):
                return IntV(len(a0.items))
        if name == "list" and len(pos) == 1:
            if isinstance(a0, (SymItemsV, PosListV, PyListV, SymListV)):
                return a0
            if isinstance(a0, TupleV):
                return PyListV(list(a0.items))
        if name == "dict" and len(pos) == 1 and isinstance(a0, MethResV) and a0.meth == "named_parameters" and a0.wrap is None:
            return MethResV(a0.mod, a0.meth, "dict")
        if name == "type" and len(pos) == 1:
            if isinstance(a0, ModV):
                return TypeV(a0, "self")
            if isinstance(a0, FieldV) and a0.field == "_orig_mod":
                return TypeV(a0.mod, "orig")
        if name == "zip" and len(pos) == 2 and any(isinstance(p, PopV) for p in pos):
            i = 0 if isinstance(pos[0], PopV) else 1
            return PopZipV(i, pos[1 - i])
        if name == "zip" and pos and all(isinstance(self.norm(self.force(p, n), n), (NetV, PosListV)) for p in pos):
            el = []
            for p in pos:
                p = self.norm(self.force(p, n), n)
                el.append(ModV(p.fam, POS) if isinstance(p, NetV) else p.elem)
            return PosListV(TupleV(el), None)
        if name == "enumerate" and len(pos) == 1 and isinstance(a0, (NetV, PosListV)):
            return PosListV(TupleV([PosIdxV(), ModV(a0.fam, POS) if isinstance(a0, NetV) else a0.elem]), None)
        return self.opaque(n, f"value of `{unparse(n, 50)}`")

    def isinstance(self, n, v: Val, t: Val) -> Cond | None:
        ts = t.items if isinstance(t, TupleV) else [t]
        if not all(isinstance(x, FuncV) and x.what == "ext" for x in ts):
            return None
        names = [x.name.rsplit(".", 1)[-1] for x in ts]
        tag = "_".join(names)
        if isinstance(v, IteV):
            v = self.force(v, n)
        if isinstance(v, NetV):
            if names == ["list"]:
                return Cond(const=self.is_list(v.fam, n))
            return FALSE
        if isinstance(v, ModV):
            if names == ["list"]:
                return FALSE
            if names == ["OptimizedModule"]:
                a = self.fam_attr(v.fam)
                if a is None:
                    return None
                return self.atom("module_isinstance_OptimizedModule", "Nat → Bool", a.lean, a.params)
            self.assumed.add("a module of a registry network attribute is an instance of every module class the source tests for "
                             "(`EvolvableModule`), a list of modules is not")
            return TRUE
        if isinstance(v, (PosListV, PyListV)):
            return Cond(const=(names == ["list"]))
        if isinstance(v, StrV):
            return Cond(const=("str" in names))
        if isinstance(v, SampledV):
            return Cond(const=("str" in names)) if getattr(v, "isstr", False) else None
        if isinstance(v, NoneV):
            return FALSE
        if isinstance(v, FieldV):
            a = self.fam_attr(v.mod.fam)
            if a is not None:
                return self.atom(f"module_{v.field}_isinstance_{tag}", "Nat → Bool", a.lean, a.params)
            return None
        if isinstance(v, IndV):
            return self.atom(f"individual_isinstance_{tag}")
        if isinstance(v, WrapperV):
            return self.atom(f"wrapper_isinstance_{tag}", "Nat → Bool", v.name.lean, v.name.params)
        if isinstance(v, WFieldV):
            q = v.wrapper.name
            return self.atom(f"wrapper_{v.field}_isinstance_{tag}", "Nat → Bool", q.lean, q.params)
        if isinstance(v, OpaqueV) and v.path:
            return self.atom(f"{self.path_name(v.path)}_isinstance_{tag}")
        return None

    def as_name(self, v: Val, n, sort="hp"):
        if isinstance(v, NameV):
            return v
        if isinstance(v, OpaqueV) and v.path:
            nm = self.path_name(v.path)
            return NameV(nm, sort, {nm: "Nat"})
        if isinstance(v, WFieldV) and v.field == "lr_name":
            q = v.wrapper.name
            ps = dict(q.params)
            ps["wrapper_lr_name"] = "Nat → Nat"
            return NameV(f"(wrapper_lr_name {q.lean})", "lr", ps)
        return None

    def getattr_ind(self, n, k: Val) -> Val:
        if isinstance(k, StrV):
            return self.attribute(n, IndV(), k.s)
        nm = self.as_name(k, n)
        if nm is None:
            return self.opaque(n, f"`{unparse(n, 50)}` (attribute name of kind {k.kind})")
        if nm.sort == "net":
            return NetV(Fam(("attached", nm), None, nm, self.st.tnet))
        if nm.sort == "opt":
            return WrapperV(nm)
        return LrReadV(nm, self.st.thp)

    # ------------------------------------------------------------------ modules
    def current(self, fam: Fam, n):
        h = fam.home()
        if h is not None and h[1] != self.st.tnet:
            raise Unsupported(f"{where(n)}: unsupported construct: a module read from `{h[0].lean}` before attributes were "
                              f"rebound is used / changed in place afterwards")

    def apply_op(self, mod: ModV, op: tuple, n):
        """an in-place operation on (every position of) a network value"""
        fam = mod.fam
        if mod.pos == FIRST or (mod.pos == POS and not self.posloop):
            raise Unsupported(f"{where(n)}: unsupported construct: an in-place operation on one element of a network list only")
        for m, pol in reversed(self.guards):
            op = ("when", m, pol, op)
        if fam.home() is not None:
            self.current(fam, n)
            g, self.guards = self.guards, []
            hv, self.havoc = self.havoc, 0
            try:
                nm = fam.home()[0]
                self.use(nm.params)
                self.emit(f"Eff.inPlace {nm.lean} ({self.render_op(op, fam, n)})", False, False, n)
            finally:
                self.guards, self.havoc = g, hv
        else:
            if self.havoc:
                raise Unsupported(f"{where(n)}: unsupported construct: in-place operation on a detached module inside a loop over an "
                                  f"untranslatable iterable")
            fam.ops.append(op)

    def mod_method(self, n: ast.Call, mod: ModV, m: str) -> Val:
        pos, kw, star = self.args_of(n)
        if m == "clone" and not pos and not kw:
            if mod.fam.origin[0] != "attached" or self.st.tnet != 0 or mod.fam.t != 0:
                return self.opaque(n, "clone of a module that is not a registry attribute as it was when the method was entered")
            f = Fam(("clone", mod.fam), mod.fam.is_list if mod.pos == POS else (None if mod.pos == SINGLE else False), None, 0)
            if mod.pos == FIRST:
                return self.opaque(n, "clone of element 0 only")
            if mod.pos == SINGLE:
                f.is_list = False
            return ModV(f, mod.pos)
        if m == "to":
            self.assumed.add("`.to(device)` returns the module itself")
            return mod
        if m in ("state_dict", "named_parameters", "parameters") and not pos:
            return MethResV(mod, m, None)
        if m == "sample_mutation_method":
            return SampledV(mod)
        if m == "load_state_dict" and len(pos) == 1:
            sd = self.force(pos[0], n)
            strict = kw.get("strict", BoolV(TRUE))
            st = self.truth(strict, n)
            if isinstance(sd, MethResV) and st is not None and st.const is not None and sd.mod.pos == mod.pos \
                    and ((sd.meth == "state_dict" and sd.wrap is None) or (sd.meth == "named_parameters" and sd.wrap == "dict")):
                what = ".stateDict" if sd.meth == "state_dict" else ".namedParameters"
                self.apply_op(mod, ("load", what, sd.mod, st.const, bool(getattr(sd, "strip", False))), n)
            else:
                self.apply_op(mod, ("opaque", f"{where(n)}: {unparse(n, 60)}"), n)
            return self.opaque(n, "result of load_state_dict")
        self.apply_op(mod, ("callNamed", m), n)
        return OpaqueV(f"{where(n)}: value of `{unparse(n, 50)}`", None)

    def dyn_call(self, n: ast.Call, fv) -> Val:
        mod, meth = fv.name
        pos, kw, star = self.args_of(n)
        if pos or kw:
            raise Unsupported(f"{where(n)}: unsupported construct: architecture method called with explicit arguments")
        kwv = star if star is not None else DictV({}, [])
        self.apply_op(mod, ("call", meth, kwv), n)
        return RetV(mod, False)

    # ------------------------------------------------------------------ rendering of values
    def pos_of(self, p) -> str:
        return {POS: ".same", SINGLE: ".same", FIRST: ".first"}[p]

    def offspring_attr(self, mod: ModV, n):
        a = self.fam_attr(mod.fam)
        if a is None:
            raise Unsupported(f"{where(n)}: unsupported construct: a value taken from a module that was not built for a registry attribute")
        self.use(a.params)
        return a.lean

    def render_meth(self, v: Val, n) -> str:
        if isinstance(v, IteV) and getattr(v.c, "special", None):
            v = v.b
        if isinstance(v, SampledV):
            return f".sampled {self.offspring_attr(v.mod, n)}"
        if isinstance(v, FieldV) and v.field == "last_mutation_attr":
            return f".appliedTo {self.offspring_attr(v.mod, n)} {self.pos_of(v.mod.pos)}"
        return f".opaque {lstr(getattr(v, 'why', v.kind))}"

    def render_kw(self, v: Val, n) -> str:
        if isinstance(v, IteV) and getattr(v.c, "special", None) and isinstance(v.a, DictV) and not v.a.items and not v.a.sym:
            v = v.b
        if isinstance(v, DictV) and not v.items and not v.sym:
            return ".empty"
        if isinstance(v, RetV) and v.orempty:
            return f".returnedBy {self.offspring_attr(v.mod, n)} {self.pos_of(v.mod.pos)}"
        return f".opaque {lstr(getattr(v, 'why', 'a value of kind ' + v.kind))}"

    def render_op(self, op: tuple, fam: Fam, n) -> str:
        k = op[0]
        if k == "when":
            m = op[1].special[1]
            return f"ModOp.{'whenNone' if op[2] else 'whenSome'} ({self.render_meth(m, n)}) ({self.render_op(op[3], fam, n)})"
        if k == "load":
            return f"ModOp.load {op[1]} {self.ref(op[2].fam, op[2].pos, n)} {str(op[3]).lower()} {str(op[4]).lower()}"
        if k == "call":
            return f"ModOp.call ({self.render_meth(op[1], n)}) ({self.render_kw(op[2], n)})"
        if k == "callNamed":
            return f"ModOp.callNamed {lstr(op[1])}"
        if k == "writeWeights":
            return "ModOp.writeWeights"
        if k == "setNone":
            return f"ModOp.setNone {lstr(op[1])}"
        return f"ModOp.opaque {lstr(op[1])}"

    def render_cls(self, tv: Val, n) -> str:
        if isinstance(tv, TypeV) and tv.unwrapped == "self":
            return f".typeOf {self.ref(tv.of.fam, tv.of.pos, n)}"
        if isinstance(tv, IteV) and isinstance(tv.a, TypeV) and isinstance(tv.b, TypeV) and tv.a.unwrapped == "orig" \
                and tv.b.unwrapped == "self" and same(tv.a.of, tv.b.of) and "module_isinstance_OptimizedModule" in tv.c.lean and not tv.c.neg:
            self.assumed.add("`ClsE.typeOfUnwrapped m` = `type(m._orig_mod) if isinstance(m, OptimizedModule) else type(m)`")
            return f".typeOfUnwrapped {self.ref(tv.a.of.fam, tv.a.of.pos, n)}"
        return f".opaque {lstr('class of kind ' + tv.kind)}"

    def render_net(self, fam: Fam, n) -> str:
        shape = ".list" if self.is_list(fam, n) else ".single"
        o = fam.origin
        if o[0] == "attached":
            org = f".attached {self.ref(fam, POS, n, prefer_cur=True)}"
        elif o[0] == "clone":
            org = f".clone {self.ref(o[1], POS, n)}"
        elif o[0] == "new":
            org = f".new ({self.render_cls(o[1], n)}) {self.ref(o[2].fam, o[2].pos, n)}"
        else:
            org = f".opaque {lstr(str(o[1]))}"
        ops = ", ".join(self.render_op(op, fam, n) for op in self.canon_ops(fam.ops))
        return f"{{ shape := {shape}, origin := {org}, ops := [{ops}] }}"

    @staticmethod
    def canon_ops(ops):
        """stores of None into different fields of one object commute: a run of them (under the same test) is sorted by field"""
        def setnone(op):
            g = []
            while op[0] == "when":
                g.append((op[1].key(), op[2]))
                op = op[3]
            return (tuple(g), op[1]) if op[0] == "setNone" else None
        out, i = [], 0
        while i < len(ops):
            j = i
            while j < len(ops) and setnone(ops[j]) is not None and setnone(ops[j])[0] == setnone(ops[i])[0]:
                j += 1
            if j > i + 1 and len({setnone(o)[1] for o in ops[i:j]}) == j - i:
                out += sorted(ops[i:j], key=lambda o: setnone(o)[1])
                i = j
            else:
                out.append(ops[i])
                i += 1
        return out

    def render_fieldsrc(self, v: Val | None) -> str:
        if v is None:
            return ".absent"
        if isinstance(v, WFieldV):
            return f".wrapper {lstr(v.field)}"
        if isinstance(v, CFieldV):
            return f".config {lstr(v.field)}"
        if isinstance(v, NameV) and v.lean.endswith((".lr", ".name")):
            return f".config {lstr(v.lean.rsplit('.', 1)[1])}"
        if isinstance(v, NamesV) and v.lean.endswith(".networks"):
            return '.config "networks"'
        return f".opaque {lstr(getattr(v, 'why', 'a value of kind ' + v.kind))}"

    def render_optbuild(self, b: OptBuildV, n) -> str:
        f = dict(b.fields)
        nets = self.norm(self.force(f.pop("networks", NoneV()), n), n)
        if isinstance(nets, (NetV, ModV)) and (isinstance(nets, NetV) or nets.pos == SINGLE) and nets.fam.origin[0] == "attached" \
                and not nets.fam.ops:
            self.current(nets.fam, n)
            nm = nets.fam.origin[1]
            self.use(nm.params)
            ne = f".one {nm.lean}"
        elif isinstance(nets, ManyV):
            if nets.t != self.st.tnet:
                raise Unsupported(f"{where(n)}: unsupported construct: networks read before attributes were rebound")
            self.use(nets.names.params)
            ne = f".many {nets.names.lean}"
        else:
            ne = f".opaque {lstr(getattr(nets, 'why', 'a value of kind ' + nets.kind))}"
        lr = self.force(f.pop("lr", NoneV()), n)
        if isinstance(lr, LrReadV):
            if lr.t != self.st.thp:
                raise Unsupported(f"{where(n)}: unsupported construct: learning rate read before the attribute was rebound")
            self.use(lr.name.params)
            le = f".attr {lr.name.lean}"
        elif isinstance(lr, WFieldV) and lr.field == "lr":
            le = ".wrapperLr"
        else:
            le = f".opaque {lstr(getattr(lr, 'why', 'a value of kind ' + lr.kind))}"
        parts = [f"networks := {ne}", f"lr := {le}"]
        for k in ("optimizer_cls", "optimizer_kwargs", "network_names", "lr_name", "multiagent"):
            parts.append(f"{k} := {self.render_fieldsrc(f.pop(k, None))}")
        if f:
            raise Unsupported(f"{where(n)}: unsupported construct: OptimizerWrapper argument(s) {sorted(f)}")
        return "{ " + ", ".join(parts) + " }"

    def render_label(self, v: Val, n) -> str:
        if isinstance(v, IteV) and not getattr(v.c, "special", None):
            self.use(v.c.params)
            return f"(if {'!' if v.c.neg else ''}{v.c.lean} then {self.render_label(v.a, n)} else {self.render_label(v.b, n)})"
        if isinstance(v, StrV):
            return f"Label.str {lstr(v.s)}"
        nm = self.as_name(v, n)
        if nm is not None:
            self.use(nm.params)
            return f"Label.attrName {nm.lean}"
        if isinstance(v, FieldV) and v.field == "last_mutation_attr":
            return f"Label.applied {self.offspring_attr(v.mod, n)} {self.pos_of(v.mod.pos)}"
        return f"Label.opaque {lstr(getattr(v, 'why', 'a value of kind ' + v.kind))}"

    # ------------------------------------------------------------------ stores
    def setattr_ind(self, n, k: Val, v: Val):
        if isinstance(k, StrV):
            return self.set_literal(n, k.s, v)
        nm = self.as_name(k, n)
        if nm is None:
            raise Unsupported(f"{where(n)}: unsupported construct: setattr on the individual with a name of kind {k.kind}")
        self.use(nm.params)
        v = self.norm(self.force(v, n), n)
        fam = self.as_fam(v, n)
        if fam is not None:
            lean = f"Eff.setNet {nm.lean} {self.render_net(fam, n)}"
            self.emit(lean, True, False, n)
            fam.attached, fam.t_att = nm, self.st.tnet     # the objects are the attribute's from now on
            return
        if isinstance(v, OptBuildV):
            self.emit(f"Eff.setOpt {nm.lean} {self.render_optbuild(v, n)}", False, False, n)
            return
        if nm.sort in ("net", "opt"):
            self.emit(f"Eff.setOpaque {nm.lean} {lstr(getattr(v, 'why', 'a value of kind ' + v.kind))}", True, True, n)
            return
        self.emit(f"Eff.setVal {nm.lean}", False, True, n)

    def set_literal(self, n, name: str, v: Val):
        if name == "mut":
            self.emit(f"Eff.setMut ({self.render_label(v, n)})", False, False, n)
        else:
            self.assumed.add("attributes of the individual assigned under a literal name other than `mut` are not registry attributes")
            self.emit(f"Eff.setOther {lstr(name)}", False, False, n)

    def store(self, tg, v: Val, n):
        if isinstance(tg, ast.Name):
            self.assign_local(tg.id, v)
            return
        if isinstance(tg, (ast.Tuple, ast.List)):
            self.bind_target(tg, v, n)
            return
        if isinstance(tg, ast.Attribute):
            b = self.norm(self.force(self.ev(tg.value), n), n)
            if isinstance(b, IndV):
                return self.set_literal(n, tg.attr, v)
            if isinstance(b, ModV):
                if isinstance(self.force(v, n) if not isinstance(v, IteV) else v, NoneV):
                    return self.apply_op(b, ("setNone", tg.attr), n)
                return self.apply_op(b, ("opaque", f"{where(n)}: {unparse(n, 60)}"), n)
            if isinstance(b, OpaqueV):
                self.ignored.add(unparse(n, 90))    # a field of an opaque object (not a registry attribute of the individual)
                return
            raise Unsupported(f"{where(n)}: unsupported construct: assignment to `{unparse(tg, 40)}`")
        if isinstance(tg, ast.Subscript):
            b = self.norm(self.force(self.ev(tg.value), n), n)
            if isinstance(b, MethResV):
                if b.wrap == "tensor" or b.meth in ("state_dict", "parameters", "named_parameters"):
                    return self.apply_op(b.mod, ("writeWeights",), n)
            if isinstance(b, DictV) and not isinstance(tg.slice, ast.Slice):
                k = self.force(self.ev(tg.slice), n)
                if isinstance(k, StrV) and not b.sym:
                    b.items[k.s] = v
                    return
                if isinstance(k, NameV) and self.loopvar is not None and not b.items:
                    conds = [Cond(lean=c, neg=not pol, params=ps) for c, pol, ps in self.local_path()]
                    self.symstores.append((b.uid, conds, k, v))
                    return
                raise Unsupported(f"{where(n)}: unsupported construct: store `{unparse(tg, 40)}` into a dictionary")
            if isinstance(b, OpaqueV) and getattr(b, "wrapper", None) is not None:
                q = b.wrapper
                self.use(q.params)
                hv, self.havoc = self.havoc, 0
                try:
                    self.emit(f"Eff.optOpaque {q.lean} {lstr(unparse(n, 90))}", False, False, n)
                finally:
                    self.havoc = hv
                return
            if isinstance(b, (OpaqueV, PyListV)):
                if not self.lookup_is_local(tg.value):
                    self.ignored.add(unparse(n, 90))
                return
            raise Unsupported(f"{where(n)}: unsupported construct: assignment to `{unparse(tg, 40)}`")
        raise Unsupported(f"{where(n)}: unsupported construct: assignment target `{unparse(tg, 40)}`")

    # ------------------------------------------------------------------ statements
    def exec_block(self, stmts):
        g0 = len(self.guards)
        try:
            for st in stmts:
                ctl = self.exec_stmt(st)
                if ctl is None:
                    continue
                if ctl.kind == "guard_rest":
                    self.guards.append(ctl.val)
                    continue
                return ctl
            return None
        finally:
            del self.guards[g0:]

    def exec_stmt(self, st):
        if isinstance(st, ast.Expr):
            if not (isinstance(st.value, ast.Constant) and isinstance(st.value.value, str)):
                self.ev(st.value)
            return None
        if isinstance(st, (ast.Pass, ast.Assert, ast.Import, ast.ImportFrom)):
            return None
        if isinstance(st, ast.Assign):
            v = self.ev(st.value)
            for tg in st.targets:
                self.store(tg, v, st)
            return None
        if isinstance(st, ast.AnnAssign):
            if st.value is not None:
                self.store(st.target, self.ev(st.value), st)
            return None
        if isinstance(st, ast.AugAssign):
            self.ev(st.value)
            self.store(st.target, self.opaque(st, f"`{unparse(st, 50)}`"), st)
            return None
        if isinstance(st, ast.FunctionDef):
            self.closure_asts[st.name + "@" + str(st.lineno)] = st
            self.assign_local(st.name, FuncV("closure", st.name, (self.frame, st.name + "@" + str(st.lineno))))
            return None
        if isinstance(st, ast.Return):
            if (self.posloop, self.havoc, len(self.guards)) != getattr(self.frame, "ctx", (0, 0, 0)):
                raise Unsupported(f"{where(st)}: unsupported construct: `return` inside a loop over positions / an untranslatable "
                                  f"iterable / under a test on the applied method")
            return Ctl("return", self.ev(st.value) if st.value is not None else NoneV())
        if isinstance(st, ast.Break):
            return Ctl("break")
        if isinstance(st, ast.Continue):
            return Ctl("continue")
        if isinstance(st, ast.Raise):
            exn = st.exc.func if isinstance(st.exc, ast.Call) else st.exc
            raise Raised(unparse(exn, 30) if exn is not None else "re-raise", st)
        if isinstance(st, ast.If):
            return self.exec_if(st)
        if isinstance(st, ast.For):
            return self.exec_for(st)
        raise Unsupported(f"{where(st)}: unsupported construct: {type(st).__name__} statement")

    def run_havoc(self, blocks, n):
        self.havoc += 1
        try:
            for b in blocks:
                ctl = self.exec_block(b)
                if ctl is not None and ctl.kind not in ("continue", "break"):
                    raise Unsupported(f"{where(n)}: unsupported construct: `{ctl.kind}` under an untranslatable condition / inside a "
                                      f"loop over an untranslatable iterable")
        finally:
            self.havoc -= 1

    def exec_if(self, st: ast.If):
        c = self.truth(self.ev(st.test), st.test)
        if c is None or (self.havoc and c.const is None and self.known(c) is None):
            self.run_havoc([st.body, st.orelse], st)
            return None
        if getattr(c, "special", None):
            pos = Cond(lean=c.lean, atom=True)
            pos.special = c.special
            pol = not c.neg
            g0 = len(self.guards)
            self.guards.append((pos, pol))
            c1 = self.exec_block(st.body)
            del self.guards[g0:]
            self.guards.append((pos, not pol))
            c2 = self.exec_block(st.orelse)
            del self.guards[g0:]
            k1, k2 = (c1.kind if c1 else None), (c2.kind if c2 else None)
            if k1 == k2 and k1 in (None, "continue"):
                return c1
            if k1 == "continue" and k2 is None and self.posloop:
                return Ctl("guard_rest", (pos, not pol))
            if k2 == "continue" and k1 is None and self.posloop:
                return Ctl("guard_rest", (pos, pol))
            raise Unsupported(f"{where(st)}: unsupported construct: control flow `{k1}` / `{k2}` under a test on the applied method")
        # a pair of single assignments to one name: a conditional value
        if c.const is None and self.known(c) is None and c.lean != "multi":
            tg = self.phi_target(st)
            if tg is not None:
                n0 = len(self.st.trace)
                a = self.ev(st.body[0].value)
                b = self.ev(st.orelse[0].value) if st.orelse else self.lookup(tg)
                if len(self.st.trace) != n0:
                    raise Unsupported(f"{where(st)}: unsupported construct: an effect inside a branch merged into a conditional value")
                if b is not None:
                    self.use(c.params)
                    self.assign_local(tg, mk_ite(c, a, b))
                    return None
        return self.exec_block(st.body if self.decide(c, st) else st.orelse)

    def phi_target(self, st: ast.If):
        def single(b):
            return b[0].targets[0].id if len(b) == 1 and isinstance(b[0], ast.Assign) and len(b[0].targets) == 1 \
                and isinstance(b[0].targets[0], ast.Name) else None
        a = single(st.body)
        if a is None:
            return None
        if st.orelse:
            return a if single(st.orelse) == a else None
        return a if self.lookup(a) is not None else None

    def exec_for(self, st: ast.For):
        if st.orelse:
            raise Unsupported(f"{where(st)}: unsupported construct: `for … else`")
        it = self.norm(self.force(self.ev(st.iter), st.iter), st.iter)
        if isinstance(it, WFieldV) and it.field == "network_names":
            it = self.wnames(it)
        if isinstance(it, PopZipV):
            return self.pop_loop(st, it)
        if isinstance(it, (PyListV, TupleV)) and not getattr(it, "posn", None):
            for x in it.items:
                self.bind_target(st.target, x, st, local_only=True)
                ctl = self.exec_block(st.body)
                if ctl is not None and ctl.kind == "break":
                    break
                if ctl is not None and ctl.kind != "continue":
                    return ctl
            return None
        if isinstance(it, (NetV, PosListV)):
            if self.posloop:
                raise Unsupported(f"{where(st)}: unsupported construct: nested loops over positions")
            self.bind_target(st.target, ModV(it.fam, POS) if isinstance(it, NetV) else it.elem, st, local_only=True)
            self.posloop += 1
            try:
                ctl = self.exec_block(st.body)
            finally:
                self.posloop -= 1
            if ctl is not None and ctl.kind != "continue":
                raise Unsupported(f"{where(st)}: unsupported construct: `{ctl.kind}` inside a loop over the positions of a network list")
            f = self.frame
            while f is not None:                 # the lists the loop filled hold one element per position now
                for v in f.locals.values():
                    if isinstance(v, PyListV) and getattr(v, "posn", None) and getattr(v, "final", None) is None:
                        v.final = self.poslist_of(v, st)
                f = f.parent
            return None
        def again():
            r = self.norm(self.force(self.ev(st.iter), st.iter), st.iter)
            return self.wnames(r) if isinstance(r, WFieldV) and r.field == "network_names" else r
        if isinstance(it, SymListV):
            var = it.var or self.fresh_var("oc" if it.elem == "cfg" else "g")
            self.use(it.params)
            return self.sym_loop(st, it.lean, var, lambda: self.bind_target(st.target, CfgV(var) if it.elem == "cfg" else GrpV(var), st, True),
                                 (it, var))
        if isinstance(it, NamesV):
            if it.opt and self.known(Cond(lean=f"{it.lean}.isSome")) is not True:
                raise Unsupported(f"{where(st)}: unsupported construct: iteration over `{it.lean}` (an Optional) without an `is not None` test")
            var = self.fresh_var("n")
            self.use(it.params)
            lean = f"({it.lean}.getD [])" if it.opt else it.lean
            return self.sym_loop(st, lean, var, lambda: self.bind_target(st.target, NameV(var, it.sort, {}), st, True), None)
        if isinstance(it, SymItemsV):
            var = self.fresh_var("g")
            lean = self.filtered(it.lst, it.var, it.conds).replace(f"fun {it.var} ", f"fun {var} ")
            lean = rename_tokens(lean, it.var, var)

            def bind_items():
                x = again()
                x = subst_var(TupleV([x.keyv, x.val]), x.var, var)
                self.bind_target(st.target, x, st, True)
            return self.sym_loop(st, lean, var, bind_items, None)
        # an untranslatable iterable: the body runs any number of times
        for x in ast.walk(st.target):
            if isinstance(x, ast.Name):
                el = OpaqueV(f"{where(st)}: element of `{unparse(st.iter, 40)}`", None)
                if isinstance(it, WFieldV):
                    el.wrapper = it.wrapper.name
                self.assign_local(x.id, el)
        self.run_havoc([st.body], st)
        return None

    # ------------------------------------------------------------------ exploration (fork and replay)
    def atoms_decided(self) -> bool:
        return any(c.atom for d in self.decisions[getattr(self, "atom_base", 0):] for _, c in d.values())

    def local_path(self):
        return [(c.lean, v, c.params) for v, c in self.decisions[-1].values()]

    def explore(self, run, var=None):
        """tree of the runs of `run()` from the present state: ("leaf", result, state) | ("ite", cond, then, else)"""
        snap = copy.deepcopy(self.st)
        g0, h0, p0, s0, lv0 = list(self.guards), self.havoc, self.posloop, list(self.stack), self.loopvar

        def rec(dec: dict):
            self.st = copy.deepcopy(snap)
            self.guards, self.havoc, self.posloop, self.stack, self.loopvar = list(g0), h0, p0, list(s0), lv0
            self.decisions.append(dict(dec))
            fork = None
            try:
                try:
                    res = run()
                    return ("leaf", res, self.st)
                except Fork as f:
                    if var is not None and var not in tokens(f.cond.lean):
                        raise
                    fork = f.cond
                except Raised as r:
                    if var is not None:
                        raise Unsupported(f"{where(r.node)}: unsupported construct: `raise` inside a loop over a registry list")
                    self.st.trace.append(("eff", f"Eff.raise {lstr(r.exn)}"))
                    return ("leaf", (None, self.st.trace), self.st)
                except Unsupported as e:
                    if not self.atoms_decided():
                        raise
                    return ("leaf", (None, [("eff", f"Eff.untranslated {lstr(str(e))}", str(e))]), self.st)
            finally:
                self.decisions.pop()
            self.use(fork.params)
            t = rec({**dec, fork.lean: (True, fork)})
            e = rec({**dec, fork.lean: (False, fork)})
            return ("ite", fork, t, e)
        try:
            return rec({})
        finally:
            self.guards, self.havoc, self.posloop, self.stack, self.loopvar = g0, h0, p0, s0, lv0

    def leaves(self, tree):
        if tree[0] == "leaf":
            return [tree]
        return self.leaves(tree[2]) + self.leaves(tree[3])

    def sym_loop(self, st: ast.For, lst: str, var: str, bind, loopvar):
        if self.posloop or self.havoc or self.guards:
            raise Unsupported(f"{where(st)}: unsupported construct: a loop over a registry list inside a loop over positions")
        entry = copy.deepcopy(self.st)
        outer_frames = self.st.frames

        def run():
            self.st.trace = []
            self.symstores = []
            self.loopvar = loopvar
            bind()
            ctl = self.exec_block(st.body)
            return (ctl, self.st.trace, self.symstores)
        tree = self.explore(run, var)
        if any(l[2] is not None and (l[2].tnet, l[2].thp) != (entry.tnet, entry.thp) for l in self.leaves(tree)):
            self.st = copy.deepcopy(entry)
            self.st.tnet += 1
            self.st.thp += 1
            tree = self.explore(run, var)
            entry.tnet += 2
            entry.thp += 2
        self.st = entry
        breaks = False
        names_before = [dict(f.locals) for f in self.st.frames]
        carried = {}
        for _, res, lst_state in self.leaves(tree):
            ctl = res[0]
            k = ctl.kind if ctl is not None else None
            if k not in (None, "continue", "break"):
                raise Unsupported(f"{where(st)}: unsupported construct: `{k}` inside a loop over a registry list")
            breaks = breaks or k == "break"
            if lst_state is None:
                continue
            for fi, f in enumerate(lst_state.frames[:len(names_before)]):
                for nm, v in f.locals.items():
                    if nm not in names_before[fi]:
                        if fi == len(names_before) - 1 and not isinstance(v, DictV):
                            carried.setdefault((fi, nm), []).append(("new", v))
                        continue
                    old = names_before[fi][nm]
                    if isinstance(old, DictV) or same(old, v):
                        continue
                    carried.setdefault((fi, nm), []).append((k, v))
            for uid, conds, key, val in (res[2] if len(res) > 2 else []):
                d = self.find_dict(uid)
                if d is None or d.items:
                    raise Unsupported(f"{where(st)}: unsupported construct: a store into a dictionary that is not an empty local")
                d.sym.append((SymListV(lst, "grp" if var.startswith("g") else "cfg", var, {}), var, conds, key, val))
        ref = None
        if breaks:
            ref = f"r{self.st.nref}"
            self.st.nref += 1
        for (fi, nm), vs in carried.items():
            fr = self.st.frames[fi]
            if all(k == "new" for k, _ in vs):
                fr.locals[nm] = OpaqueV(f"{where(st)}: `{nm}` as the last iteration of the loop left it", None)
                continue
            if any(k != "break" for k, _ in vs) or any(not same(vs[0][1], v) for _, v in vs[1:]):
                raise Unsupported(f"{where(st)}: unsupported construct: `{nm}` is carried from one iteration of the loop to the next")
            c = Cond(lean=f"{ref}.2")
            fr.locals[nm] = mk_ite(c, vs[0][1], fr.locals[nm])
        if ref is not None or any(l[1][1] for l in self.leaves(tree)):
            self.st.trace.append(("loop", lst, var, tree, ref))
        return None

    def lookup_is_local(self, node) -> bool:
        """the stored-into object is a value created in this method (a local tensor / list), not something reached from outside"""
        return isinstance(node, ast.Name)

    def find_dict(self, uid):
        for f in self.st.frames:
            for v in f.locals.values():
                if isinstance(v, DictV) and getattr(v, "uid", None) == uid:
                    return v
        return None

    def pop_loop(self, st: ast.For, it):
        tg = st.target
        if not (isinstance(tg, ast.Tuple) and len(tg.elts) == 2 and all(isinstance(x, ast.Name) for x in tg.elts)):
            raise Unsupported(f"{where(st)}: unsupported construct: target of the loop over the population")
        ind_name, kind_name = tg.elts[it.pop_index].id, tg.elts[1 - it.pop_index].id

        def run():
            self.st.trace = []
            self.assign_local(ind_name, IndV())
            self.assign_local(kind_name, FuncV("kind", kind_name))
            ctl = self.exec_block(st.body)
            if ctl is not None:
                raise Unsupported(f"{where(st)}: unsupported construct: `{ctl.kind}` in the loop over the population")
            outs = [(nm, v) for f in self.st.frames for nm, v in f.locals.items() if isinstance(v, PyListV) and getattr(v, "popout", None)]
            return (None, self.st.trace, outs)
        entry = copy.deepcopy(self.st)
        self.in_pop = True
        self.atom_base = len(self.decisions)      # what the code before the loop tested does not excuse an untranslatable body
        try:
            tree = self.explore(run, None)
        finally:
            self.in_pop = False
            self.atom_base = 0
        self.st = entry
        outs = None
        cut = [res[1][0][-1] for _, res, _s in self.leaves(tree) if len(res) < 3]
        if cut and len(cut) == len(self.leaves(tree)):
            raise Unsupported(f"{where(st)}: the body of the loop over the population cannot be followed on any path: {cut[0]}")
        for _, res, _s in self.leaves(tree):
            if len(res) < 3:
                continue                       # a path below a decided atom that ends in `Eff.untranslated`
            o = [(nm, [x.kind for x in v.popout]) for nm, v in (res[2] if len(res) > 2 else [])]
            if outs is not None and o != outs:
                raise Unsupported(f"{where(st)}: unsupported construct: the population list is filled differently on different paths")
            outs = o
        if not outs or len(outs) != 1 or outs[0][1] != ["ind"]:
            raise Unsupported(f"{where(st)}: unsupported construct: the loop over the population does not append the individual exactly "
                              f"once to one list ({outs})")
        self.pop_result = {"tree": tree, "zip_pop_index": it.pop_index, "out": outs[0][0], "line": st.lineno}
        for f in self.st.frames:
            if outs[0][0] in f.locals:
                f.locals[outs[0][0]] = PopOutV()
        return None

    # ------------------------------------------------------------------ rendering of traces
    def piece_key(self, p):
        if p[0] == "loop":
            return ("loop", p[1], p[2], p[4], self.render_tree(p[3], "", p[4] is not None))
        if p[0] == "eff":
            return p[:2]
        if p[0] == "ite":
            return ("ite", p[1].lean, [self.piece_key(x) for x in p[2]], [self.piece_key(x) for x in p[3]])
        return p

    def factor(self, tree, pairmode):
        """the tree as a list of pieces; the pieces common to all paths come first, the last item may be
        ("ite", cond, items, items); ("end", broke) closes a path in pair mode"""
        if tree[0] == "leaf":
            res = tree[1]
            items = list(res[1])
            if pairmode:
                items.append(("end", res[0] is not None and res[0].kind == "break"))
            return items
        _, c, t, e = tree
        a, b = self.factor(t, pairmode), self.factor(e, pairmode)
        ka, kb = [self.piece_key(x) for x in a], [self.piece_key(x) for x in b]
        if ka == kb:
            return a
        k = 0
        while k < len(a) and k < len(b) and ka[k] == kb[k] and a[k][0] not in ("ite", "end"):
            k += 1
        return a[:k] + [("ite", c, a[k:], b[k:])]

    def render_items(self, items, ind: str, pairmode) -> str:
        lets, parts, cur = [], [], []
        end = None
        for i, p in enumerate(items):
            if p[0] == "eff":
                cur.append(p[1])
                continue
            if cur:
                parts.append("[" + ", ".join(cur) + "]")
                cur = []
            if p[0] == "call":
                parts.append(p[1])
            elif p[0] == "loop":
                _, lst, var, tree, ref = p
                if ref is None:
                    parts.append(f"({lst}.flatMap (fun {var} =>\n{ind}    {self.render_tree(tree, ind + '    ', False)}))")
                else:
                    lets.append(f"let {ref} := forBreak {lst} (fun {var} =>\n{ind}    {self.render_tree(tree, ind + '    ', True)})")
                    parts.append(f"{ref}.1")
            elif p[0] == "bind":
                _, lst, var, exn = p
                rest = self.render_items(items[i + 1:], ind + "    ", pairmode)
                none = f"[Eff.raise {lstr(exn)}]"
                if pairmode:
                    none = f"({none}, true)"
                end = f"(match {lst}.head? with\n{ind}  | some {var} =>\n{ind}    {rest}\n{ind}  | none => {none})"
                break
            elif p[0] == "ite":
                _, c, a, b = p
                self.use(c.params)
                end = (f"(if {c.lean} then\n{ind}    {self.render_items(a, ind + '    ', pairmode)}\n{ind}  else\n{ind}    "
                       f"{self.render_items(b, ind + '    ', pairmode)})")
                break
            elif p[0] == "end":
                end = ("end", p[1])
                break
        if cur:
            parts.append("[" + ", ".join(cur) + "]")
        sep = " ++\n" + ind
        if not pairmode:
            if isinstance(end, str):
                parts.append(end)
            body = sep.join(parts) if parts else "[]"
        else:
            if isinstance(end, tuple) or end is None:
                body = f"({sep.join(parts) if parts else '[]'}, {'true' if end and end[1] else 'false'})"
            elif not parts:
                body = end
            else:
                body = f"let t := {end}\n{ind}({sep.join(parts)} ++ t.1, t.2)"
        for l in reversed(lets):
            body = f"{l}\n{ind}{body}"
        return body

    def render_tree(self, tree, ind: str, pairmode) -> str:
        return self.render_items(self.factor(tree, bool(pairmode)), ind, bool(pairmode))


def rename_tokens(s: str, old: str, new: str) -> str:
    out, cur = [], ""
    for ch in s + "\0":
        if ch.isalnum() or ch in "_'":
            cur += ch
        else:
            if cur:
                out.append(new if cur == old else cur)
            cur = ""
            out.append(ch)
    return "".join(out)[:-1]


def subst_var(v, old: str, new: str, memo=None):
    """a copy of the value with the binder `old` of a registry loop renamed"""
    v = copy.deepcopy(v)
    seen = set()

    def walk(x):
        if id(x) in seen:
            return
        seen.add(id(x))
        if isinstance(x, (NameV, NamesV, SymListV, LenV)) and isinstance(x.lean, str):
            x.lean = rename_tokens(x.lean, old, new)
        if isinstance(x, Cond) and x.lean:
            x.lean = rename_tokens(x.lean, old, new)
        if isinstance(x, (list, tuple)):
            for y in x:
                walk(y)
        elif isinstance(x, dict):
            for y in x.values():
                walk(y)
        elif isinstance(x, (Val, Fam, Cond)):
            for y in x.__dict__.values():
                walk(y)
    walk(v)
    return v


def tokens(s: str):
    out, cur = set(), ""
    for ch in s:
        if ch.isalnum() or ch in "_'":
            cur += ch
        else:
            if cur:
                out.add(cur)
            cur = ""
    if cur:
        out.add(cur)
    return out


class Raised(Exception):
    def __init__(self, exn, node):
        self.exn, self.node = exn, node


NetV = mk("net", "fam")
PosIdxV = mk("posidx")
ManyV = mk("many", "names", "t")
PopV = mk("pop")
PopZipV = mk("popzip", "pop_index", "other")
PopOutV = mk("popout")
BUILTINS = {"isinstance", "hasattr", "getattr", "setattr", "len", "zip", "enumerate", "type", "int", "float", "range", "print",
            "sum", "min", "max", "sorted", "any", "all", "abs"}


PRELUDE = '''namespace MutWireGen

/-! ### the registry as data: attribute names are numbers -/

/-- `NetworkGroup`: evaluation network, shared (target) networks, policy flag -/
structure Grp where
  eval : Nat
  shared : Option (List Nat)
  policy : Bool
deriving DecidableEq, Repr

/-- `OptimizerConfig`: attribute of the wrapper, registered networks, learning-rate attribute -/
structure OptCfg where
  name : Nat
  networks : List Nat
  lr : Nat
deriving DecidableEq, Repr

structure Registry where
  groups : List Grp
  optimizers : List OptCfg
  /-- the `registry.policy` property -/
  policy : Nat
deriving DecidableEq, Repr

/-! ### provenance of values -/

/-- position in a network list relative to the module being described: the same position / element 0 -/
inductive Pos | same | first
deriving DecidableEq, Repr

/-- when an attribute was read: now / when the method was entered -/
inductive When | cur | start
deriving DecidableEq, Repr

/-- a module of `getattr(individual, attr)` -/
structure Ref where
  attr : Nat
  w : When
  p : Pos
deriving DecidableEq, Repr

/-- argument of `load_state_dict`: `x.state_dict()` / `dict(x.named_parameters())` -/
inductive Load | stateDict | namedParameters
deriving DecidableEq, Repr

inductive ClsE
  | typeOf (r : Ref)
  | typeOfUnwrapped (r : Ref)
  | opaque (what : String)
deriving DecidableEq, Repr

inductive Origin
  | attached (r : Ref)                 -- the object itself
  | clone (r : Ref)                    -- `r.clone()`
  | new (cls : ClsE) (init : Ref)      -- `cls(**init.init_dict)`
  | opaque (what : String)
deriving DecidableEq, Repr

/-- the architecture method applied: the one sampled from (module 0 of) the offspring of `attr` / the
    `last_mutation_attr` the offspring of `attr` reports at position `p` after its own call -/
inductive MethE
  | sampled (attr : Nat)
  | appliedTo (attr : Nat) (p : Pos)
  | opaque (what : String)
deriving DecidableEq, Repr

/-- the keyword dict of the call: `{}` / what the call on the offspring of `attr` returned at position `p` (`{}` for `None`) -/
inductive KwE
  | empty
  | returnedBy (attr : Nat) (p : Pos)
  | opaque (what : String)
deriving DecidableEq, Repr

/-- an in-place operation on a module -/
inductive ModOp
  | load (what : Load) (src : Ref) (strict : Bool) (stripPrefix : Bool)
  | call (meth : MethE) (kw : KwE)
  | callNamed (name : String)
  | writeWeights
  | setNone (field : String)
  | whenNone (meth : MethE) (op : ModOp)
  | whenSome (meth : MethE) (op : ModOp)
  | opaque (what : String)
deriving DecidableEq, Repr

inductive Shape | single | list
deriving DecidableEq, Repr

/-- a network value: every module (position `j`) has this origin and received these operations, in order -/
structure NetE where
  shape : Shape
  origin : Origin
  ops : List ModOp
deriving DecidableEq, Repr

inductive OptNets
  | one (attr : Nat)             -- `networks=getattr(individual, attr)`
  | many (attrs : List Nat)      -- `networks=[getattr(individual, a) for a in attrs]`
  | opaque (what : String)
deriving DecidableEq, Repr

inductive LrE
  | attr (name : Nat)            -- `lr=getattr(individual, name)`, read when the wrapper is built
  | wrapperLr                    -- `lr=<old wrapper>.lr`
  | opaque (what : String)
deriving DecidableEq, Repr

/-- where a constructor argument comes from: a field of the old wrapper / of the registry configuration -/
inductive FieldSrc
  | wrapper (field : String)
  | config (field : String)
  | absent
  | opaque (what : String)
deriving DecidableEq, Repr

/-- `OptimizerWrapper(…)` -/
structure OptBuild where
  networks : OptNets
  lr : LrE
  optimizer_cls : FieldSrc
  optimizer_kwargs : FieldSrc
  network_names : FieldSrc
  lr_name : FieldSrc
  multiagent : FieldSrc
deriving DecidableEq, Repr

inductive Label
  | str (s : String)
  | attrName (n : Nat)
  | applied (attr : Nat) (p : Pos)     -- `last_mutation_attr` of the offspring of `attr`
  | opaque (what : String)
deriving DecidableEq, Repr

/-- one step that may change a registry attribute of the individual -/
inductive Eff
  | kind                                   -- the drawn mutation function applied to the individual
  | indCall (method : String)              -- `individual.<method>()`
  | setNet (dst : Nat) (v : NetE)          -- `setattr(individual, dst, v)`
  | inPlace (attr : Nat) (op : ModOp)      -- `op` on every module of `getattr(individual, attr)`
  | setOpt (name : Nat) (b : OptBuild)     -- `setattr(individual, name, OptimizerWrapper(…))`
  | setOpaque (name : Nat) (what : String)
  | optOpaque (name : Nat) (what : String) -- an untranslated in-place change of the optimizer wrapper `name`
  | setVal (name : Nat)                    -- `setattr(individual, name, <new hyper-parameter value>)`
  | setMut (l : Label)                     -- `individual.mut = l`
  | setOther (name : String)               -- `individual.<name> = …` (not a registry attribute)
  | raise (exn : String)
  | untranslated (why : String)
deriving DecidableEq, Repr

/-- `for x in xs: body` with `break`: the body gives its effects and whether the loop stops after them -/
def forBreak {α : Type} (xs : List α) (body : α → List Eff × Bool) : List Eff × Bool :=
  match xs with
  | [] => ([], false)
  | x :: r =>
    let b := body x
    if b.2 then (b.1, true) else
    let t := forBreak r body
    (b.1 ++ t.1, t.2)
'''


# ---------------------------------------------------------------------------------------------- locating
def locate(mod: ast.Module):
    """(class, kind method names, MAIN, the method building OptimizerWrapper, the method that re-creates a network)"""
    found = []
    for c in mod.body:
        if not isinstance(c, ast.ClassDef):
            continue
        for x in ast.walk(c):
            if isinstance(x, ast.List) and len(x.elts) >= 2 and all(
                    isinstance(e, ast.Tuple) and len(e.elts) == 2 and all(
                        isinstance(y, ast.Attribute) and isinstance(y.value, ast.Name) and y.value.id == "self" for y in e.elts)
                    for e in x.elts):
                found.append((c, [e.elts[0].attr for e in x.elts]))
                break
    if len(found) != 1:
        raise Unsupported(f"{REL_SOURCE}: expected exactly one class with a list of mutation options `(self.f, self.p)`, found "
                          f"{[c.name for c, _ in found]}")
    cls, kinds = found[0]
    methods = {f.name: f for f in cls.body if isinstance(f, ast.FunctionDef)}
    for k in kinds:
        if k not in methods:
            raise Unsupported(f"{REL_SOURCE}: mutation option `self.{k}` is not a method of {cls.name}")
    mains = []
    for f in methods.values():
        ps = [a.arg for a in f.args.args[1:]]
        for x in ast.walk(f):
            if isinstance(x, ast.For) and isinstance(x.iter, ast.Call) and isinstance(x.iter.func, ast.Name) and x.iter.func.id == "zip" \
                    and any(isinstance(a, ast.Name) and a.id in ps for a in x.iter.args) and isinstance(x.target, ast.Tuple):
                tn = [t.id for t in x.target.elts if isinstance(t, ast.Name)]
                if any(isinstance(y, ast.Call) and isinstance(y.func, ast.Name) and y.func.id in tn for y in ast.walk(x)):
                    mains.append(f)
                    break
    if len(mains) != 1:
        raise Unsupported(f"{REL_SOURCE}: expected exactly one method looping `for m, x in zip(…, population)` and calling `m(x)`, "
                          f"found {[f.name for f in mains]}")

    def has_call(f, pred):
        return any(isinstance(x, ast.Call) and pred(x.func) for x in ast.walk(f))
    ropt = [f for f in methods.values() if has_call(f, lambda fn: (isinstance(fn, ast.Name) and fn.id == "OptimizerWrapper"))]
    rnet = [f for f in methods.values() if has_call(f, lambda fn: isinstance(fn, ast.Attribute) and fn.attr == "load_state_dict")
            and has_call(f, lambda fn: isinstance(fn, ast.Name) and fn.id == "isinstance") and len(f.args.args) >= 2]
    if len(ropt) != 1 or len(rnet) != 1:
        raise Unsupported(f"{REL_SOURCE}: expected one method building `OptimizerWrapper(…)` and one method re-creating a network with "
                          f"`load_state_dict`, found {[f.name for f in ropt]} / {[f.name for f in rnet]}")
    return cls, kinds, mains[0], ropt[0], rnet[0]


# ---------------------------------------------------------------------------------------------- definitions
def new_machine(mod, cls, subdefs=None) -> Machine:
    m = Machine(mod, cls)
    m.closure_asts = {}
    m.symstores = []
    m.loopvar = None
    m.in_pop = False
    m.pop_result = None
    m.ignored = set()
    m.subdefs = subdefs or {}
    return m


def signature(m: Machine, body: str, extra=()):
    """(text of the binders, [(name, type)])"""
    toks = tokens(body)
    ps = []
    if "reg" in toks:
        ps.append(("reg", "Registry"))
    ps += list(extra)
    for k in sorted(m.params):
        if k in toks:
            ps.append((k, m.params[k]))
    return "".join(f" ({k} : {t})" for k, t in ps), ps


def run_entry(m: Machine, fn: ast.FunctionDef, bindings: dict, want_value=False):
    def run():
        m.st.trace = []
        fr = Frame(None, fn.name)
        names = [a.arg for a in fn.args.args]
        fr.locals[names[0]] = SelfV()
        defaults = dict(zip(names[len(names) - len(fn.args.defaults):], fn.args.defaults))
        for p in names[1:]:
            if p in bindings:
                fr.locals[p] = bindings[p]() if callable(bindings[p]) else bindings[p]
            elif p in defaults:
                fr.locals[p] = m.ev(defaults[p])
            else:
                raise Unsupported(f"{where(fn)}: unsupported construct: parameter `{p}` of {fn.name}")
        m.st.frames = [fr]
        m.stack = [fn.name]
        ctl = m.exec_block(fn.body)
        val = ctl.val if ctl is not None and ctl.kind == "return" else None
        if want_value:
            fam = m.as_fam(val, fn) if val is not None else None
            if fam is None:
                raise Unsupported(f"{where(fn)}: unsupported construct: {fn.name} does not return a network value")
            return (None, [("val", m.render_net(fam, fn))])
        return (None, m.st.trace, val)
    return m.explore(run, None)


def render_value_tree(m: Machine, tree, ind: str) -> str:
    if tree[0] == "leaf":
        p = tree[1][1]
        if p and p[0][0] == "val":
            return p[0][1]
        return "{ shape := .single, origin := .opaque " + lstr(p[0][1] if p else "?") + ", ops := [] }"
    _, c, t, e = tree
    a, b = render_value_tree(m, t, ind + "  "), render_value_tree(m, e, ind + "  ")
    if a == b:
        return a
    return f"if {c.lean} then\n{ind}  {a}\n{ind}else\n{ind}  {b}"


def doc_of(fn: ast.FunctionDef, what: str) -> str:
    return f"/-- `{fn.name}` ({what}) -/"


def translate_source(src: str):
    mod = ast.parse(src)
    cls, kinds, main, ropt, rnet = locate(mod)
    methods = {f.name: f for f in cls.body if isinstance(f, ast.FunctionDef)}
    lines: list[str] = []
    assumed: set[str] = set()
    ignored: set[str] = set()
    subdefs: dict = {}

    def emit_def(name, m, tree, doc, ty="List Eff", extra=(), value=False):
        body = render_value_tree(m, tree, "  ") if value else m.render_tree(tree, "  ", None)
        sig, ps = signature(m, body, extra)
        lines.extend([doc, f"def {name}{sig} : {ty} :=", f"  {body}", ""])
        assumed.update(m.assumed)
        ignored.update(m.ignored)
        return ps

    # the network re-created from a (mutated) evaluation network
    m = new_machine(mod, cls)
    m.st.tnet = 1
    ps = [a.arg for a in rnet.args.args[1:]]
    b = {ps[0]: lambda: NetV(Fam(("attached", NameV("src", "net", {})), None, None, 1))}
    for p in ps[1:]:
        b[p] = BoolV(Cond(lean=p, atom=True, params={p: "Bool"}))
    tree = run_entry(m, rnet, b, want_value=True)
    emit_def(rnet.name, m, tree, doc_of(rnet, "the value it returns for the network attribute `src`"), "NetE", [("src", "Nat")], value=True)
    # optimizers
    m = new_machine(mod, cls)
    ps = [a.arg for a in ropt.args.args[1:]]
    tree = run_entry(m, ropt, {ps[0]: IndV()})
    sub = {"fn": ropt, "all": (ropt.name, emit_def(ropt.name, m, tree, doc_of(ropt, "every optimizer of the registry")))}
    if len(ps) > 1:
        m = new_machine(mod, cls)
        tree = run_entry(m, ropt, {ps[0]: IndV(), ps[1]: CfgV("oc")})
        sub["one"] = (ropt.name + "_one", emit_def(ropt.name + "_one", m, tree, doc_of(ropt, f"with `{ps[1]}` = the configuration `oc`"),
                                                   extra=[("oc", "OptCfg")]))
    subdefs[ropt.name] = sub
    # the kinds
    for k in kinds:
        fn = methods[k]
        m = new_machine(mod, cls, subdefs)
        ps = [a.arg for a in fn.args.args[1:]]
        if len(ps) != 1:
            raise Unsupported(f"{where(fn)}: unsupported construct: a mutation option with parameters {ps}")
        tree = run_entry(m, fn, {ps[0]: IndV()})
        for leaf in m.leaves(tree):
            v = leaf[1][2] if len(leaf[1]) > 2 else None
            if leaf[2] is not None and not isinstance(v, IndV) and not any(p[0] == "eff" and p[1].startswith(("Eff.raise", "Eff.untranslated"))
                                                                           for p in leaf[1][1][-1:]):
                raise Unsupported(f"{where(fn)}: unsupported construct: {fn.name} does not return the individual on every path")
        emit_def(k, m, tree, doc_of(fn, f"mutation option {kinds.index(k)}"))
    # MAIN
    m = new_machine(mod, cls, subdefs)
    ps = [a.arg for a in main.args.args[1:]]
    b = {ps[0]: PopV()}
    for p in ps[1:]:
        b[p] = OpaqueV(f"parameter `{p}`", (p,))
    tree = run_entry(m, main, b)
    pr, texts = None, set()
    for leaf in m.leaves(tree):
        if leaf[2] is None or len(leaf[1]) < 3:
            raise Unsupported(f"{main.name} cannot be followed: {leaf[1][1][0][-1]}")
        pr = m.pop_result if m.pop_result is not None else pr
        if not isinstance(leaf[1][2], PopOutV):
            raise Unsupported(f"{where(main)}: unsupported construct: {main.name} does not return the list the individuals are appended to")
    if pr is None:
        raise Unsupported(f"{where(main)}: the loop over the population was not reached")
    emit_def(main.name + "_individual", m, pr["tree"], doc_of(main, "the body of the loop over the population, for one individual"))
    z = ("mutation_choice population", "p.1 p.2") if pr["zip_pop_index"] == 1 else ("population mutation_choice", "p.2 p.1")
    lines.extend([
        doc_of(main, "the population it returns: the loop zips the drawn mutations with the population, appends every individual "
                     "once, in order"),
        f"def {main.name}_population {{α κ : Type}} (step : κ → α → α) (mutation_choice : List κ) (population : List α) : List α :=",
        f"  (List.zip {z[0]}).map (fun p => step {z[1]})", ""])
    lines.extend(["/-- the mutation options, in the order of the source -/",
                  "def mutation_options : List String := [" + ", ".join(lstr(k) for k in kinds) + "]", ""])
    return lines, sorted(assumed), sorted(ignored)


# ----------------------------------------------------------------------------------------------
def repo_dir(arg: str | None = None) -> Path:
    if arg:
        return Path(arg)
    return Path(os.environ.get("VERIF_REPO", "/repo"))


def translate(repo: Path) -> tuple[str, str]:
    path = Path(repo) / REL_SOURCE
    try:
        raw = path.read_bytes()
    except OSError as e:
        raise Unsupported(f"cannot read {path}: {e}") from e
    sha = hashlib.sha256(raw).hexdigest()
    try:
        lines, assumed, ignored = translate_source(raw.decode("utf-8"))
    except SyntaxError as e:
        raise Unsupported(f"{REL_SOURCE}:{e.lineno}: not parseable: {e.msg}") from e
    except RecursionError as e:
        raise Unsupported(f"{REL_SOURCE}: expression too deep") from e
    header = "\n".join([
        "/-",
        "  Gen/MutWireGen.lean — GENERATED by harness/py2lean_mutwire.py from the mutation options, `mutation`, `reinit_opt`",
        "  and `reinit_from_mutated` of " + REL_SOURCE + "; do not edit.  Core Lean only.",
        "  `Proofs/MutWireGenEq.lean` interprets the effect lists with the primitives of `Model/Coherence.lean` and proves them",
        "  equal to the hand-written wiring.  Assumed:",
    ] + [f"    * {a}" for a in assumed] + [
        "  Stores into objects that are not registry attributes of the individual (ignored):",
    ] + [f"    * `{a}`" for a in ignored] + [
        "-/",
        SHA_PREFIX + sha,
        "set_option linter.unusedVariables false",
        "",
    ])
    return header + "\n" + PRELUDE + "\n" + "\n".join(lines).rstrip() + "\n\nend MutWireGen\n", sha


def strip_sha(text: str) -> str:
    return "\n".join(ln for ln in text.split("\n") if not ln.startswith(SHA_PREFIX))


def write_if_changed(text: str, out: Path, force: bool = False) -> bool:
    out = Path(out)
    old = out.read_text() if out.exists() else None
    if old is not None and not force and strip_sha(old) == strip_sha(text):
        return False
    if old == text:
        return False
    out.parent.mkdir(parents=True, exist_ok=True)
    tmp = out.with_suffix(".lean.tmp")
    tmp.write_text(text)
    os.replace(tmp, out)
    return True


def main(argv: list[str]) -> int:
    import argparse
    ap = argparse.ArgumentParser()
    ap.add_argument("--repo", default=None)
    ap.add_argument("--out", default=str(DEFAULT_OUT))
    ap.add_argument("--stdout", action="store_true")
    ap.add_argument("--force", action="store_true", help="rewrite even if only the sha256 line differs")
    a = ap.parse_args(argv)
    try:
        text, sha = translate(repo_dir(a.repo))
    except Unsupported as e:
        print(f"py2lean_mutwire: {e}", file=sys.stderr)
        return 1
    if a.stdout:
        sys.stdout.write(text)
        return 0
    changed = write_if_changed(text, Path(a.out), a.force)
    print(f"{a.out}: {'written' if changed else 'unchanged'} (source sha256 {sha[:16]}…, "
          f"translation sha256 {hashlib.sha256(strip_sha(text).encode()).hexdigest()[:16]}…)")
    return 0


if __name__ == "__main__":
    sys.exit(main(sys.argv[1:]))
